"""C18, two-node stage: several real connections between real NodeServers (eng_elect_net).

Scenarios: simultaneous dial from both sides, repeated dials from one side (2-3), mixed, a third
node (one node with two peers); the frames of every connection are released one by one in a
programmed interleaving (gated in-memory transport), optionally with one connection stalled before
it authenticates (an unauthenticated claimant) and released later.

Oracle (Python, on the real nodes' observations; the survivor is predicted by the Coq model:
`elected_a` / `elected_b` of Cluster/Elect.v evaluated by vm_compute on the connections' initiators
and the nonces read from the wire):
  at every quiescent snapshot, for every pair of nodes with connections between them,
   * each node lists exactly one (authenticated) session for the peer,
   * both ride on the SAME physical connection, the one the model elects among the connections that
     were allowed to complete (stalled, unauthenticated ones can neither displace nor veto),
   * that connection is open at both ends and every other completed connection is closed at both ends;
  events, per node and peer:
   * a session reports authenticated / ready at most once, in the order opened < authenticated <
     ready < disconnected; the survivor reported ready exactly once on both nodes;
   * every other session that reported ready was disconnected afterwards (at quiescence exactly one
     ready session per peer), and the last ready event is the survivor's (no ready for a duplicate
     once the elected connection is ready).
A connection that was ready and is later displaced by a better one that arrives late reports ready
legitimately before it is closed, so more than one ready EVENT per peer can occur in such arrival
orders; the number of ready events is recorded in the evidence, not judged.
"""
import itertools
import json

from common import *

IMPORTS = "Cluster.Elect"

# tokens of one connection in protocol order: open, Name ->, <- Status, <- Challenge,
# ClientChallenge ->, <- Ack, Ready ->, <- Ready
FULL = ["o", "f", "b", "b", "f", "b", "f", "b"]
PHASES = [["o", "f"], ["b", "b"], ["f"], ["b"]]      # registered | challenged | acceptor authenticated | dialler authenticated
UNAUTH_PREFIX = ["o", "f", "b", "b"]                   # how far a stalled (never authenticating) connection may get

LAYOUTS2 = [
    ("simultaneous", [(0, 1), (1, 0)]),
    ("repeat2", [(0, 1), (0, 1)]),
    ("repeat2r", [(1, 0), (1, 0)]),
]
LAYOUTS = LAYOUTS2 + [
    ("repeat3", [(0, 1), (0, 1), (0, 1)]),
    ("mixed3a", [(0, 1), (0, 1), (1, 0)]),
    ("mixed3b", [(0, 1), (1, 0), (1, 0)]),
    ("mixed4", [(0, 1), (1, 0), (0, 1), (1, 0)]),
]
LAYOUTS3N = [
    ("third-a", [(0, 1), (1, 0), (0, 2), (2, 0)]),
    ("third-b", [(0, 1), (0, 1), (2, 0), (2, 0), (0, 2)]),
    ("third-c", [(1, 0), (0, 1), (0, 2), (1, 2), (2, 1)]),
]


def tok(k, t):
    return f"o{k}" if t == "o" else f"{k}{t}"


def line_of(names, conns, tokens):
    return (f"elect names={','.join(map(str, names))} conns={','.join(f'{x}>{y}' for x, y in conns)} | "
            + " ".join(tokens))


def merge(rng, seqs):
    """random interleaving of the token sequences"""
    seqs = [list(s) for s in seqs]
    out = []
    while any(seqs):
        k = rng.choice([i for i, s in enumerate(seqs) if s])
        out.append(seqs[k].pop(0))
    return out


def gen_cases(chk, quick, factor):
    rng = chk.rng
    cases = []
    # (1) exhaustive: two connections, every interleaving of the four handshake phases of each
    for lname, conns in LAYOUTS2:
        for names in ((1, 2), (2, 1)):
            for pos in itertools.combinations(range(8), 4):
                seqs = [[tok(0, t) for ph in PHASES for t in ph], [tok(1, t) for ph in PHASES for t in ph]]
                ph = [[[tok(k, t) for t in p] for p in PHASES] for k in (0, 1)]
                i0 = i1 = 0
                tokens = []
                for slot in range(8):
                    if slot in pos:
                        tokens += ph[0][i0]
                        i0 += 1
                    else:
                        tokens += ph[1][i1]
                        i1 += 1
                cases.append({"kind": "phases2/" + lname, "names": names, "conns": conns, "tokens": tokens + ["U"],
                              "stalled": []})
    # (2) random frame-level interleavings, all layouts, prefixes, staggered opens
    n = (120 if quick else 3000) * factor
    for _ in range(n):
        if rng.random() < 0.25:
            lname, conns = rng.choice(LAYOUTS3N)
            names = tuple(rng.sample([1, 2, 3], 3))
        else:
            lname, conns = rng.choice(LAYOUTS)
            names = rng.choice([(1, 2), (2, 1), (5, 9), (9, 5)])
        seqs = []
        for k in range(len(conns)):
            s = [tok(k, t) for t in FULL]
            cutoff = rng.choice([len(s), len(s), rng.randrange(1, len(s) + 1)])
            seqs.append(s[:cutoff])
        tokens = merge(rng, seqs)
        # every connection must be opened at some point
        for k in range(len(conns)):
            if f"o{k}" not in tokens:
                tokens.append(f"o{k}")
        cases.append({"kind": "frames/" + lname, "names": names, "conns": conns, "tokens": tokens + ["U"], "stalled": []})
    # (3) one connection stalls before it authenticates (an unauthenticated claimant of the peer's
    #     name), the others complete; it is released afterwards
    n = (120 if quick else 2500) * factor
    for _ in range(n):
        if rng.random() < 0.2:
            lname, conns = rng.choice(LAYOUTS3N)
            names = tuple(rng.sample([1, 2, 3], 3))
        else:
            lname, conns = rng.choice(LAYOUTS)
            names = rng.choice([(1, 2), (2, 1)])
        s = rng.randrange(len(conns))
        seqs = []
        for k in range(len(conns)):
            if k == s:
                seqs.append([tok(k, t) for t in UNAUTH_PREFIX[:rng.choice([2, 2, 4, 4, 1])]])
            else:
                full = [tok(k, t) for t in FULL]
                seqs.append(full[:rng.choice([0, 1, 2, 4, len(full)])] or [f"o{k}"])
        tokens = [f"S{s}"] + merge(rng, seqs)
        for k in range(len(conns)):
            if f"o{k}" not in tokens:
                tokens.append(f"o{k}")
        cases.append({"kind": "stall/" + lname, "names": names, "conns": conns, "tokens": tokens + ["F", "U"],
                      "stalled": [s]})
    return cases


def pairs_of(conns):
    out = {}
    for k, (x, y) in enumerate(conns):
        out.setdefault((min(x, y), max(x, y)), []).append(k)
    return out


def stage(chk, build, quick, factor, distinct):
    """Runs the two-node stage; records violations in chk. Returns the number of cases or None on
    infrastructure failure (message printed)."""
    cases = gen_cases(chk, quick, factor)
    try:
        outs = run_harness(build, "eng_elect_net", [line_of(c["names"], c["conns"], c["tokens"]) for c in cases],
                           shards=4, timeout=2400)
    except RuntimeError as e:
        print(f"[{chk.prop}] two-node election engine did not complete: {str(e)[-1200:]}")
        return None
    obs = []
    exprs = []
    plan = []   # (case index, snapshot index, pair, candidate conn indexes)
    for ci, (c, out) in enumerate(zip(cases, outs)):
        t = parse_term(out)
        assert t[0] == "mkNet", out[:200]
        conns = {x[1]: {"dial": x[2], "acc": x[3], "nonce": x[4]} for x in t[1]}
        o = {"conns": conns, "events": [tuple(e[1:]) for e in t[2]], "snaps": t[3]}
        obs.append(o)
        nsnaps = len(o["snaps"])
        for si in range(nsnaps):
            final = si == nsnaps - 1
            for (x, y), ks in pairs_of(c["conns"]).items():
                cand = [k for k in ks if final or k not in c["stalled"]]
                if not cand:
                    continue
                cs = "[" + "; ".join(
                    f"mkConn {'true' if conns[k]['dial'] == x else 'false'} {conns[k]['nonce']} {k + 1} {k + 1}"
                    for k in cand) + "]"
                rx, ry = c["names"][x], c["names"][y]
                exprs.append(f"(map id_a (elected_a {rx} {ry} {cs}), map id_a (elected_b {rx} {ry} {cs}))")
                plan.append((ci, si, (x, y), cand))
    preds = coq_eval("C18net%d" % os.getpid(), IMPORTS, exprs)
    bad = {}
    for (ci, si, (x, y), cand), p in zip(plan, preds):
        c, o = cases[ci], obs[ci]
        pt = parse_term(p)
        ea, eb = [i - 1 for i in pt[1]], [i - 1 for i in pt[2]]
        nonces = [o["conns"][k]["nonce"] for k in cand]
        if len(set(nonces)) != len(nonces) or 0 in nonces:
            chk.count("net.repeated_or_zero_nonce")     # cannot happen with real sessions (2^-64); not judged
            continue
        why = []
        if ea != eb or len(ea) != 1:
            why.append(f"model: endpoints elect {ea} / {eb}")
            w = None
        else:
            w = ea[0]
        snap = o["snaps"][si]
        sess = {n[1]: n[2] for n in snap[1]}
        ends = {e[1]: (e[2] == "true", e[3] == "true") for e in snap[2]}
        for node, peer in ((x, y), (y, x)):
            mine = [s for s in sess.get(node, []) if s[4] == c["names"][peer]]
            if len(mine) != 1:
                why.append(f"node {node} lists {len(mine)} sessions for peer {peer} (connections {[s[1] for s in mine]})")
            elif w is not None and mine[0][1] != w:
                why.append(f"node {node} keeps connection {mine[0][1]}, the model elects {w}")
        for k in cand:
            d, a = ends[k]
            if k == w and not (d and a):
                why.append(f"the elected connection {k} is closed (dialler end open={d}, acceptor end open={a})")
            if k != w and (d or a):
                why.append(f"losing connection {k} is still open (dialler end open={d}, acceptor end open={a})")
        if why:
            bad.setdefault(ci, []).append(f"snapshot {si}, nodes {x}/{y}, completed connections {cand}: " + "; ".join(why))
    # events
    for ci, (c, o) in enumerate(zip(cases, obs)):
        why = []
        final = o["snaps"][-1]
        sess = {n[1]: n[2] for n in final[1]}
        survivors = {(node, s[2]) for node, ss in sess.items() for s in ss}
        per = {}
        for idx, (node, kind, sid, srv, conn) in enumerate(o["events"]):
            per.setdefault((node, sid), []).append((kind, idx, conn))
        for (node, sid), evs in per.items():
            kinds = [k for k, _, _ in evs]
            if kinds != sorted(kinds) or any(kinds.count(k) > 1 for k in (0, 1, 2, 3)):
                why.append(f"node {node} session {sid}: events out of order or repeated: {kinds}")
            if 2 in kinds and 1 not in kinds:
                why.append(f"node {node} session {sid}: ready without authenticated")
            if (node, sid) in survivors and kinds.count(2) != 1:
                why.append(f"node {node}: the surviving session {sid} reported ready {kinds.count(2)} times")
            if (node, sid) not in survivors and 2 in kinds and 3 not in kinds:
                why.append(f"node {node}: session {sid} reported ready, is not the survivor and was never disconnected")
        for (x, y), ks in pairs_of(c["conns"]).items():
            for node in (x, y):
                readies = [(idx, sid) for idx, (n, kind, sid, srv, conn) in enumerate(o["events"])
                           if n == node and kind == 2 and conn in ks]
                chk.count(f"net.ready_events_per_peer={len(readies)}")
                if readies and (node, readies[-1][1]) not in survivors:
                    why.append(f"node {node}: the last ready event for peer is from session {readies[-1][1]}, not the survivor")
        if why:
            bad.setdefault(ci, []).append("events: " + "; ".join(why))
    for ci, (c, o) in enumerate(zip(cases, obs)):
        chk.coverage["evaluations"] += 1
        chk.count("net." + c["kind"].split("/")[0])
        chk.count("net.connections=%d" % len(c["conns"]))
        chk.count("net.nodes=%d" % len(c["names"]))
        distinct.add(line_of(c["names"], c["conns"], c["tokens"]))
        if ci in bad:
            desc = json.dumps({"kind": "two-node", "scenario_kind": c["kind"],
                               "harness_line": line_of(c["names"], c["conns"], c["tokens"]),
                               "why": bad[ci], "connections(k: dialler, acceptor, nonce)": o["conns"],
                               "impl": outs[ci][:6000]}, indent=1, default=str)
            chk.violation("two real nodes: duplicate connections do not converge on the elected link: " + bad[ci][0][:300],
                          "C18 two-node oracle rejects what the real NodeServers did\n" + desc)
        if len(chk.coverage["samples"]) < 8 and c["kind"].startswith("stall") and ci % 37 == 0:
            chk.coverage["samples"].append({"harness_line": line_of(c["names"], c["conns"], c["tokens"]),
                                            "impl": outs[ci][:1500]})
    return len(cases)


TRUSTED_NET = [
    "two-node stage: eng_elect_net runs 2-3 real NodeServers in ONE process (paused-clock current_thread runtime) over in-memory "
    "duplex pipes whose frames are released one by one by the driver; the connection nonces are read from the Name frames on the wire "
    "by a hand-written protobuf field reader; the survivor is predicted by elected_a/elected_b of Cluster/Elect.v (vm_compute); "
    "the convergence / one-ready-session oracle itself (lib/c18_net.py) is evaluated in Python on the real nodes' observations",
]
