"""C18, two-node stage: several real connections between real NodeServers (eng_elect_net).

Scenarios: simultaneous dial from both sides, repeated dials from one side (2-3), mixed, a third
node (one node with two peers); the frames of every connection are released one by one in a
programmed interleaving (gated in-memory transport), optionally with one connection stalled before
it authenticates (an unauthenticated claimant) and released later.

Oracle (Python, on the real nodes' observations; the survivor is predicted by the Coq model:
`elected_a` / `elected_b` of Cluster/Elect.v evaluated by vm_compute on the connections' initiators
and the nonces read from the wire):
  at every quiescent snapshot, for every pair of nodes with connections between them,
   * each node lists exactly one (authenticated) session for the peer,
   * both ride on the SAME physical connection, the one the model elects among the connections that
     were allowed to complete (stalled, unauthenticated ones can neither displace nor veto),
   * that connection is open at both ends and every other completed connection is closed at both ends;
  events, per node and peer:
   * a session reports authenticated / ready at most once, in the order opened < authenticated <
     ready < disconnected; the survivor reported ready exactly once on both nodes;
   * every other session that reported ready was disconnected afterwards (at quiescence exactly one
     ready session per peer), and the last ready event is the survivor's (no ready for a duplicate
     once the elected connection is ready).
A connection that was ready and is later displaced by a better one that arrives late reports ready
legitimately before it is closed, so more than one ready EVENT per peer can occur in such arrival
orders; the number of ready events is recorded in the evidence, not judged.
"""
import itertools
import json

from common import *

IMPORTS = "Cluster.Elect"
ODD = 9000000000          # name ranks of the case-variant / prefix family (harness/src/lib.rs node_name)
ODD_NAMES = [ODD + 0, ODD + 2, ODD + 4, ODD + 5, ODD + 6, ODD + 7]

# tokens of one connection in protocol order: open, Name ->, <- Status, <- Challenge,
# ClientChallenge ->, <- Ack, Ready ->, <- Ready
FULL = ["o", "f", "b", "b", "f", "b", "f", "b"]
PHASES = [["o", "f"], ["b", "b"], ["f"], ["b"]]      # registered | challenged | acceptor authenticated | dialler authenticated
UNAUTH_PREFIX = ["o", "f", "b", "b"]                   # how far a stalled (never authenticating) connection may get

LAYOUTS2 = [
    ("simultaneous", [(0, 1), (1, 0)]),
    ("repeat2", [(0, 1), (0, 1)]),
    ("repeat2r", [(1, 0), (1, 0)]),
]
LAYOUTS = LAYOUTS2 + [
    ("repeat3", [(0, 1), (0, 1), (0, 1)]),
    ("mixed3a", [(0, 1), (0, 1), (1, 0)]),
    ("mixed3b", [(0, 1), (1, 0), (1, 0)]),
    ("mixed4", [(0, 1), (1, 0), (0, 1), (1, 0)]),
]
LAYOUTS3N = [
    ("third-a", [(0, 1), (1, 0), (0, 2), (2, 0)]),
    ("third-b", [(0, 1), (0, 1), (2, 0), (2, 0), (0, 2)]),
    ("third-c", [(1, 0), (0, 1), (0, 2), (1, 2), (2, 1)]),
]


def tok(k, t):
    return f"o{k}" if t == "o" else f"{k}{t}"


def line_of(names, conns, tokens):
    return (f"elect names={','.join(map(str, names))} conns={','.join(f'{x}>{y}' for x, y in conns)} | "
            + " ".join(tokens))


def merge(rng, seqs):
    """random interleaving of the token sequences"""
    seqs = [list(s) for s in seqs]
    out = []
    while any(seqs):
        k = rng.choice([i for i, s in enumerate(seqs) if s])
        out.append(seqs[k].pop(0))
    return out


def gen_cases(chk, quick, factor):
    rng = chk.rng
    cases = []
    # (1) exhaustive: two connections, every interleaving of the four handshake phases of each
    for lname, conns in LAYOUTS2:
        for names in ((1, 2), (2, 1)):
            # the cross dial also with a fifth phase: the two Ready frames of the initial synchronisation
            # (so that a link's Ready is delivered before / after the other link's Ack — frames of a
            # session that is about to be stopped are flushed and delivered in some schedules)
            phases = PHASES + [["f", "b"]] if lname == "simultaneous" else PHASES
            np = len(phases)
            for pos in itertools.combinations(range(2 * np), np):
                ph = [[[tok(k, t) for t in p] for p in phases] for k in (0, 1)]
                i0 = i1 = 0
                tokens = []
                for slot in range(2 * np):
                    if slot in pos:
                        tokens += ph[0][i0]
                        i0 += 1
                    else:
                        tokens += ph[1][i1]
                        i1 += 1
                cases.append({"kind": "phases2/" + lname, "names": names, "conns": conns, "tokens": tokens + ["U"],
                              "stalled": []})
    # (1b) a hub with two peers whose names are equal up to ASCII case: the second peer connects after
    #      the first is ready, in every order and direction
    for hub, pa, pb in ((5, ODD, ODD + 5), (ODD + 5, ODD, ODD + 2), (ODD + 2, ODD + 4, ODD + 5), (3, ODD + 6, ODD + 5)):
        for names in ((hub, pa, pb), (hub, pb, pa)):
            for conns in ([(1, 0), (2, 0)], [(0, 1), (0, 2)], [(1, 0), (0, 2)], [(0, 1), (2, 0)]):
                cases.append({"kind": "casevariants", "names": names, "conns": conns, "tokens": ["o0", "F", "o1", "U"], "stalled": [1]})
                cases.append({"kind": "casevariants", "names": names, "conns": conns, "tokens": ["o0", "o1", "U"], "stalled": []})
    # (1c) connection loss at every frame boundary of the second handshake: one link is established
    #      (or not yet), the other one proceeds p frames and is cut; also the established one is cut
    for conns in ([(0, 1), (1, 0)], [(1, 0), (0, 1)], [(0, 1), (0, 1)]):
        for names in ((1, 2), (2, 1)):
            for first_done in (True, False):
                for victim in (0, 1):
                    other = 1 - victim
                    for p in range(0, len(FULL) + 1):
                        toks = [tok(other, t) for t in FULL] if first_done else [tok(other, t) for t in FULL[:3]]
                        toks += [tok(victim, t) for t in FULL[:p]] + [f"X{victim}", "U"]
                        for k in (0, 1):
                            if f"o{k}" not in toks:
                                toks.insert(0, f"o{k}")
                        cases.append({"kind": "cut", "names": names, "conns": conns, "tokens": toks, "stalled": [], "cut": [victim]})
    # (2) random frame-level interleavings, all layouts, prefixes, staggered opens
    n = (120 if quick else 3000) * factor
    for _ in range(n):
        if rng.random() < 0.35:
            lname, conns = rng.choice(LAYOUTS3N)
            # a node with two peers whose names differ only in case / are prefixes of each other
            names = tuple(rng.sample([1, 2, 3], 3)) if rng.random() < 0.4 else tuple(rng.sample(ODD_NAMES + [5], 3))
        else:
            lname, conns = rng.choice(LAYOUTS)
            names = rng.choice([(1, 2), (2, 1), (5, 9), (9, 5), (ODD, ODD + 5), (ODD + 5, ODD + 2), (ODD + 4, ODD + 5),
                                (ODD + 6, ODD + 5)])
        seqs = []
        for k in range(len(conns)):
            s = [tok(k, t) for t in FULL]
            cutoff = rng.choice([len(s), len(s), rng.randrange(1, len(s) + 1)])
            seqs.append(s[:cutoff])
        tokens = merge(rng, seqs)
        # every connection must be opened at some point
        for k in range(len(conns)):
            if f"o{k}" not in tokens:
                tokens.append(f"o{k}")
        cases.append({"kind": "frames/" + lname, "names": names, "conns": conns, "tokens": tokens + ["U"], "stalled": []})
    # (3) one connection stalls before it authenticates (an unauthenticated claimant of the peer's
    #     name), the others complete; it is released afterwards
    n = (120 if quick else 2500) * factor
    for _ in range(n):
        if rng.random() < 0.2:
            lname, conns = rng.choice(LAYOUTS3N)
            names = tuple(rng.sample([1, 2, 3], 3))
        else:
            lname, conns = rng.choice(LAYOUTS)
            names = rng.choice([(1, 2), (2, 1)])
        s = rng.randrange(len(conns))
        seqs = []
        for k in range(len(conns)):
            if k == s:
                seqs.append([tok(k, t) for t in UNAUTH_PREFIX[:rng.choice([2, 2, 4, 4, 1])]])
            else:
                full = [tok(k, t) for t in FULL]
                seqs.append(full[:rng.choice([0, 1, 2, 4, len(full)])] or [f"o{k}"])
        tokens = [f"S{s}"] + merge(rng, seqs)
        for k in range(len(conns)):
            if f"o{k}" not in tokens:
                tokens.append(f"o{k}")
        cases.append({"kind": "stall/" + lname, "names": names, "conns": conns, "tokens": tokens + ["F", "U"],
                      "stalled": [s]})
    return cases



# ---------------------------------------------------------------------------------------------
# legacy zero / repeated nonces at the two-node level: a hand-driven legacy peer (it speaks the wire
# protocol itself, announces nonce 0 or the same nonce on several dials) against one real NodeServer

NONCE_FAMILIES = [[0, 0], [0, 0, 0], [5, 5], [5, 5, 5], [0, 0, 5], [5, 5, 3], [0, 7], [3, 3, 0, 0]]


def gen_legacy_cases(chk, quick, factor):
    rng = chk.rng
    cases = []
    fams = []
    # exhaustive: two connections with the same nonce (0 / repeated), both name orders, every
    # interleaving of their three dialler steps, and every way of stalling one of them for good after
    # its Name (an unauthenticated claimant with the same name and nonce)
    for nonces in ([0, 0], [5, 5]):
        for ranks in ((2, 1), (1, 2)):       # (real node, legacy peer)
            for pos in itertools.combinations(range(6), 3):
                seq = [[f"{k}n", f"{k}c", f"{k}a"] for k in (0, 1)]
                toks, i = ["o0", "o1"], [0, 0]
                for slot in range(6):
                    k = 0 if slot in pos else 1
                    toks.append(seq[k][i[k]])
                    i[k] += 1
                cases.append({"kind": "legacy/phases2", "ranks": ranks, "nonces": nonces, "tokens": toks + ["U"], "forever": []})
            for z in (0, 1):
                o = 1 - z
                for cut in range(4):     # where the claimant's Name falls among the other's steps
                    steps = [f"{o}n", f"{o}c", f"{o}a"]
                    toks = ["o0", "o1", f"Z{z}"] + steps[:cut] + [f"{z}n"] + steps[cut:] + ["U"]
                    cases.append({"kind": "legacy/claimant", "ranks": ranks, "nonces": nonces, "tokens": toks, "forever": [z]})
    n = (80 if quick else 2000) * factor
    for _ in range(n):
        nonces = list(rng.choice(NONCE_FAMILIES))
        rng.shuffle(nonces)
        ranks = rng.choice([(2, 1), (1, 2)])
        forever = [k for k in range(len(nonces)) if rng.random() < 0.25]
        if len(forever) == len(nonces):
            forever = forever[1:]
        seqs = []
        for k in range(len(nonces)):
            full = [f"o{k}", f"{k}n", f"{k}c", f"{k}a"]
            if k in forever:
                seqs.append(full[:rng.choice([1, 2, 2])])
            else:
                seqs.append(full[:rng.choice([0, 1, 2, 3, 4, 4])] or [f"o{k}"])
        toks = [f"Z{k}" for k in forever] + merge(rng, seqs)
        for k in range(len(nonces)):
            if f"o{k}" not in toks:
                toks.append(f"o{k}")
        cases.append({"kind": "legacy/frames", "ranks": ranks, "nonces": nonces, "tokens": toks + ["U"], "forever": forever})
    return cases


def legacy_line(c):
    return (f"elect names={c['ranks'][0]} legacy={c['ranks'][1]} conns="
            + ",".join(f"L>0:{n}" for n in c["nonces"]) + " | " + " ".join(c["tokens"]))


def legacy_expr(c, o):
    """the model's choice among the connections that are driven to completion (accepting endpoint:
    lowest nonce, then lowest session id), or None if none completes"""
    sid = {conn: s for (node, kind, s, srv, conn) in o["events"] if kind == 0}
    cand = [k for k in range(len(c["nonces"])) if k not in c["forever"] and k in sid]
    if not cand:
        return None, sid, cand
    cs = "[" + "; ".join(
        f"mkCand {sid[k]} true ({'Some ' + str(c['nonces'][k]) if c['nonces'][k] else 'None'})" for k in cand) + "]"
    return f"elect {c['ranks'][0]} {c['ranks'][1]} {cs}", sid, cand


def legacy_oracle(c, o, pred, sid, cand):
    why = []
    legs = {l[1]: {"status": l[2], "acked": l[3] == "true", "eof": l[4] == "true"} for l in o["legs"]}
    final = o["snaps"][-1]
    sess = {n[1]: n[2] for n in final[1]}.get(0, [])
    mine = [s for s in sess if s[4] == c["ranks"][1]]
    ends = {e[1]: (e[2] == "true", e[3] == "true") for e in final[2]}
    authenticated = [k for k in legs if legs[k]["acked"]]
    w = None
    if pred is not None:
        w_sid = pred[0] if len(pred) == 1 else None
        w = next((k for k in cand if sid[k] == w_sid), None)
        if w is None:
            why.append(f"model: elects {pred} among sessions {[sid[k] for k in cand]}")
    if authenticated and len(mine) != 1:
        why.append(f"connections {authenticated} authenticated, yet the node lists {len(mine)} sessions for the peer "
                   f"(an authenticated connection was closed while no other authenticated connection survives)")
    if cand and len(mine) == 1 and w is not None and mine[0][1] != w:
        why.append(f"the node keeps connection {mine[0][1]}, the model elects {w}")
    if len(mine) == 1:
        s = mine[0][2]
        kinds = [kind for (node, kind, s2, srv, conn) in o["events"] if s2 == s]
        if kinds.count(2) != 1 or 3 in kinds:
            why.append(f"the surviving session {s} has events {kinds}: not exactly one ready session for the peer")
    for k in cand:
        d, a = ends[k]
        if w is not None and k != w and (d or a):
            why.append(f"losing connection {k} is still open (legacy end open={d}, acceptor end open={a})")
        if k == w and not (d and a):
            why.append(f"the elected connection {k} is closed")
    readies = [s for (node, kind, s, srv, conn) in o["events"] if kind == 2]
    if len(mine) == 1 and readies and readies[-1] != mine[0][2]:
        why.append("the last ready event is not the survivor's")
    return why


# ---------------------------------------------------------------------------------------------
# handler level: the life cycle of sessions played against the real NodeServerState / handlers
# (eng_elect `table` lines), with legacy zero / repeated nonces and claimants that never authenticate.
# The node server side is the REAL code (UpdateSession, CheckSession, ConnectionAuthenticated handler,
# supervision removal); the sessions' reactions to its answers are replayed here in Python exactly as
# node_session.rs does (trusted): status NotOk -> the session closes, Alive -> it waits for good,
# after authenticating it asks CheckSession again and stops itself unless the answer is
# NoOtherConnection / ThisConnectionContinues; sessions stopped by the handler are removed.

def gen_lifecycle_cases(chk, quick, factor):
    rng = chk.rng
    cases = []
    n = (150 if quick else 3000) * factor
    for i in range(n):
        this, peer = rng.choice([(2, 1), (1, 2)])
        fam = list(rng.choice(NONCE_FAMILIES))
        rng.shuffle(fam)
        conns = []
        for k, nonce in enumerate(fam):
            conns.append({"id": k + 1, "srv": 1, "nonce": nonce,
                          "claimant": rng.random() < 0.3})      # registers its name and then never authenticates
        if rng.random() < 0.3:      # plus an outgoing connection of this node (fresh non-zero nonce)
            conns.append({"id": len(conns) + 1, "srv": 0, "nonce": 100 + len(conns), "claimant": False})
        if all(c["claimant"] for c in conns):
            conns[0]["claimant"] = False
        # some authenticated sessions FAIL later (handler error: the node server hears about it through
        # ActorFailed only) while further connections are still arriving
        sched = merge(rng, [[(c["id"], "name")] + ([] if c["claimant"] else [(c["id"], "auth")])
                            + ([(c["id"], "fail")] if not c["claimant"] and rng.random() < 0.3 else []) for c in conns])
        cases.append({"this": this, "peer": peer, "conns": {c["id"]: c for c in conns}, "sched": sched,
                      "ops": [], "state": {c["id"]: "new" for c in conns}, "why": [], "authed": [], "log": []})
    # the two fixed shapes of the C18-3 family
    for this, peer in ((2, 1), (1, 2)):
        for nonce in (0, 5):
            mk = lambda cl: {1: {"id": 1, "srv": 1, "nonce": nonce, "claimant": False},
                             2: {"id": 2, "srv": 1, "nonce": nonce, "claimant": cl}}
            cases.append({"this": this, "peer": peer, "conns": mk(True), "sched": [(1, "name"), (2, "name"), (1, "auth")],
                          "ops": [], "state": {1: "new", 2: "new"}, "why": [], "authed": [], "log": []})
            cases.append({"this": this, "peer": peer, "conns": mk(False),
                          "sched": [(2, "name"), (1, "name"), (2, "auth"), (1, "auth")],
                          "ops": [], "state": {1: "new", 2: "new"}, "why": [], "authed": [], "log": []})
    for this, peer in ((2, 1), (1, 2)):
        for n1, n2 in ((3, 7), (7, 3), (0, 5)):
            conns = {1: {"id": 1, "srv": 1, "nonce": n1, "claimant": False}, 2: {"id": 2, "srv": 1, "nonce": n2, "claimant": False}}
            cases.append({"this": this, "peer": peer, "conns": conns,
                          "sched": [(1, "name"), (1, "auth"), (1, "fail"), (2, "name"), (2, "auth")],
                          "ops": [], "state": {1: "new", 2: "new"}, "why": [], "authed": [], "log": []})
    return cases


def lifecycle_stage(chk, build, distinct, quick, factor):
    cases = gen_lifecycle_cases(chk, quick, factor)
    rounds = max(len(c["sched"]) for c in cases)

    def line(c, extra):
        ops = c["ops"] + extra
        return f"table {c['this']} " + " ; ".join(" ".join(str(x) for x in op) for op in ops)

    for r in range(rounds + 1):
        lines, metas = [], []
        for c in cases:
            ids = sorted(c["conns"])
            new = []
            step = None
            if r < len(c["sched"]):
                cid, what = c["sched"][r]
                k = c["conns"][cid]
                if what == "name" and c["state"][cid] == "new":
                    new = [("open", cid, k["srv"]), ("reg", cid, c["peer"], k["nonce"])]
                    if k["srv"]:
                        new.append(("cs", c["peer"], k["nonce"]))
                    step = (cid, "name")
                elif what == "auth" and c["state"][cid] == "named":
                    new = [("commith", cid), ("cs", c["peer"], k["nonce"])]
                    step = (cid, "auth")
                elif what == "fail" and c["state"][cid] == "ready":
                    new = [("fail", cid)]
                    step = (cid, "fail")
            q = [("el", i) for i in ids]
            lines.append(line(c, new + q))
            metas.append((new, step, len(c["ops"]), ids))
        try:
            outs = run_harness(build, "eng_elect", lines, shards=4)
        except RuntimeError as e:
            print(f"[{chk.prop}] handler engine did not complete: {str(e)[-800:]}")
            return None
        for c, out, (new, step, base, ids) in zip(cases, outs, metas):
            t = parse_term(out)
            res = t[base:base + len(new)]
            el = {i: (x == ("OBool", "true")) for i, x in zip(ids, t[base + len(new):])}
            c["ops"] += new
            if step is None:
                c["last_el"] = el
                continue
            cid, what = step
            k = c["conns"][cid]
            c["log"].append({"step": step, "answers": [show_term(x) for x in res], "elected": sorted(i for i in el if el[i])})
            if what == "fail":
                c["state"][cid] = "closed"
                c["failed"] = c.get("failed", []) + [cid]
                if el.get(cid):
                    c["why"].append(f"connection {cid} FAILED (ActorFailed) and is still reported elected: a dead session stays in the table")
            elif what == "name":
                code = res[-1][1] if k["srv"] else 0
                if code == 2:
                    if not [j for j in c["authed"] if c["state"][j] == "ready" and el.get(j)]:
                        c["why"].append(f"the new connection {cid} is refused (NotOk) although no live authenticated connection to the "
                                        f"peer exists: a dead session is still counted in the election")
                    c["state"][cid] = "closed"
                    c["ops"].append(("rm", cid))
                elif code == 3:
                    c["state"][cid] = "waiting"         # Alive: the handshake never completes
                else:
                    c["state"][cid] = "named"
            else:
                commit, check = res
                stopped = set(commit[2]) if isinstance(commit, tuple) and commit[0] == "OCommitH" else set()
                c["authed"].append(cid)
                c["state"][cid] = "ready"
                closed_now = set(stopped)
                if cid not in stopped and check[1] not in (0, 1):
                    closed_now.add(cid)                     # session_election_lost
                survivors = [j for j in c["authed"] if c["state"][j] == "ready" and j not in closed_now and el.get(j)]
                for j in sorted(closed_now):
                    if j in c["authed"] and not survivors:
                        c["why"].append(f"after connection {cid} authenticated, the authenticated connection {j} is closed "
                                        f"({'stopped by the handler' if j in stopped else 'CheckSession answered %s' % check[1]}) "
                                        f"while no other authenticated connection to the peer survives")
                    if c["state"].get(j) not in ("closed",):
                        c["state"][j] = "closed"
                        c["ops"].append(("rm", j))
            c["last_el"] = el
    nviol = 0
    for c in cases:
        chk.coverage["evaluations"] += 1
        chk.count("lifecycle.connections=%d" % len(c["conns"]))
        chk.count("lifecycle.claimants=%d" % sum(1 for k in c["conns"].values() if k["claimant"]))
        distinct.add(line(c, []))
        live = [j for j in c["authed"] if c["state"][j] == "ready"]
        elected = [j for j in live if c.get("last_el", {}).get(j)]
        if c["authed"] and len(elected) != 1 and not c["why"] and (live or not c.get("failed")):
            c["why"].append(f"connections {c['authed']} authenticated; at the end {len(elected)} elected open sessions {elected} "
                            f"(open authenticated: {live})")
        if c["why"]:
            nviol += 1
            desc = json.dumps({"kind": "handler-lifecycle", "harness_line": line(c, []), "why": c["why"],
                               "connections": list(c["conns"].values()), "schedule": c["sched"], "steps": c["log"]}, indent=1)
            chk.violation("session life cycle against the real node server table: " + c["why"][0][:300],
                          "C18 life-cycle oracle rejects the real NodeServerState / ConnectionAuthenticated handler\n" + desc)
    return len(cases)


# ---------------------------------------------------------------------------------------------
# real TCP: each node has its own listener on a loopback port, dials go through client_connect;
# optionally NodeConnectionMode::Transitive (peers are discovered through a common peer and dialled
# by the library itself). Real time is involved, so the harness waits for the expected end state with a
# generous bound (a miss is an infrastructure verdict) and the oracle judges the events and the direction.

TCP_SHAPES = [
    ("iso", (1, 2), ["d01", "d10"], ["01"]),
    ("iso", (2, 1), ["d01", "d10"], ["01"]),
    ("iso", (1, 2), ["d01", "d01"], ["01"]),
    ("iso", (2, 1), ["d10", "d10", "d01"], ["01"]),
    ("iso", (1, 2), ["d01", "d10", "d01", "d10"], ["01"]),
    ("iso", (2, 1, 3), ["d01", "d10", "d02", "d20", "d21"], ["01", "02", "12"]),
    ("trans", (1, 2, 3), ["d01", "d21"], ["01", "02", "12"]),
    ("trans", (3, 1, 2), ["d10", "d20"], ["01", "02", "12"]),
    ("trans", (2, 3, 1), ["d01", "d12", "d01"], ["01", "02", "12"]),
    ("trans", (1, 2), ["d01", "d10"], ["01"]),
]


def gen_tcp_cases(chk, quick, factor):
    rng = chk.rng
    cases = []
    for mode, names, dials, expect in TCP_SHAPES:
        for rep in range((1 if quick else 6) * factor):
            d = list(dials)
            if rep:
                rng.shuffle(d)
            cases.append({"kind": "tcp/" + mode, "mode": mode, "names": names, "dials": d, "expect": expect})
    return cases


def tcp_line(c):
    return (f"tcp names={','.join(map(str, c['names']))} mode={c['mode']} expect={','.join(c['expect'])} | "
            + " ".join(c["dials"]))


def tcp_oracle(c, t):
    why = []
    events = [tuple(e[1:]) for e in t[1]]
    table = {n[1]: n[2] for n in t[2]}
    survivors = {(node, s[1]) for node, ss in table.items() for s in ss}
    per = {}
    for idx, (node, kind, sid, srv, conn) in enumerate(events):
        per.setdefault((node, sid), []).append(kind)
    for (node, sid), kinds in per.items():
        if kinds != sorted(kinds) or any(kinds.count(k) > 1 for k in (0, 1, 2, 3)):
            why.append(f"node {node} session {sid}: events out of order or repeated: {kinds}")
        if (node, sid) in survivors and kinds.count(2) != 1:
            why.append(f"node {node}: the surviving session {sid} reported ready {kinds.count(2)} times")
        if (node, sid) not in survivors and 2 in kinds and 3 not in kinds:
            why.append(f"node {node}: session {sid} reported ready, is not a survivor and was never disconnected")
    for pr in c["expect"]:
        x, y = int(pr[0]), int(pr[1])
        rx, ry = c["names"][x], c["names"][y]
        sx = [s for s in table.get(x, []) if s[3] == ry]
        sy = [s for s in table.get(y, []) if s[3] == rx]
        if len(sx) != 1 or len(sy) != 1:
            why.append(f"nodes {x}/{y}: {len(sx)} / {len(sy)} sessions for each other")
            continue
        if sx[0][2] == sy[0][2]:
            why.append(f"nodes {x}/{y}: both surviving sessions have is_server={sx[0][2]} — they cannot be the two ends of one connection")
            continue
        initiator = x if sx[0][2] == "false" else y
        later = x if rx > ry else y
        allowed = set()
        if f"d{x}{y}" in c["dials"]:
            allowed.add(x)
        if f"d{y}{x}" in c["dials"]:
            allowed.add(y)
        if len(allowed) == 2 or (c["mode"] == "trans" and len(allowed) == 1):
            allowed = {later} if len(allowed) == 2 else allowed | {later}
        if allowed and initiator not in allowed:
            why.append(f"nodes {x}/{y}: the surviving connection was dialled by node {initiator}; dials {c['dials']}, names {rx}/{ry}: "
                       f"expected the one dialled by {sorted(allowed)} (both directions present: the later-sorting name's dial)")
    return why


def pairs_of(conns):
    out = {}
    for k, (x, y) in enumerate(conns):
        out.setdefault((min(x, y), max(x, y)), []).append(k)
    return out


def stage(chk, build, quick, factor, distinct):
    """Runs the two-node stage; records violations in chk. Returns the number of cases or None on
    infrastructure failure (message printed)."""
    cases = gen_cases(chk, quick, factor)
    lcases = gen_legacy_cases(chk, quick, factor)
    tcases = gen_tcp_cases(chk, quick, factor)
    try:
        allouts = run_harness(build, "eng_elect_net",
                              [line_of(c["names"], c["conns"], c["tokens"]) for c in cases] + [legacy_line(c) for c in lcases]
                              + [tcp_line(c) for c in tcases],
                              shards=4, timeout=2400)
    except RuntimeError as e:
        print(f"[{chk.prop}] two-node election engine did not complete: {str(e)[-1200:]}")
        return None
    # a line `stuck "<why>"`: the real nodes wedged / panicked on this scenario (an observation with the
    # scenario as failing input); `skipped`: not evaluated after that in the same batch
    all_lines = ([line_of(c["names"], c["conns"], c["tokens"]) for c in cases] + [legacy_line(c) for c in lcases]
                 + [tcp_line(c) for c in tcases])
    keep = []
    for idx, out in enumerate(allouts):
        if out.startswith("skipped"):
            chk.count("net.skipped_after_stuck")
            keep.append(False)
        elif out.startswith("stuck"):
            chk.coverage["evaluations"] += 1
            chk.violation("real NodeServers: the run got stuck / crashed: " + out[:200],
                          "C18 two-node engine: the real nodes could not finish the scenario\n"
                          + json.dumps({"kind": "two-node", "harness_line": all_lines[idx], "observation": out}, indent=1))
            keep.append(False)
        else:
            keep.append(True)
    n1, n2 = len(cases), len(cases) + len(lcases)
    outs = [o for o, k in zip(allouts[:n1], keep[:n1]) if k]
    cases = [c for c, k in zip(cases, keep[:n1]) if k]
    louts = [o for o, k in zip(allouts[n1:n2], keep[n1:n2]) if k]
    lcases = [c for c, k in zip(lcases, keep[n1:n2]) if k]
    touts = [o for o, k in zip(allouts[n2:], keep[n2:]) if k]
    tcases = [c for c, k in zip(tcases, keep[n2:]) if k]
    # ---- real TCP / transitive mode
    for c, out in zip(tcases, touts):
        why = tcp_oracle(c, parse_term(out))
        chk.coverage["evaluations"] += 1
        chk.count("net." + c["kind"])
        distinct.add(tcp_line(c))
        if why:
            desc = json.dumps({"kind": "tcp", "harness_line": tcp_line(c), "why": why, "impl": out[:4000]}, indent=1)
            chk.violation("real NodeServers over real TCP: " + why[0][:300],
                          "C18 two-node oracle (TCP listeners, client_connect) rejects what the real NodeServers did\n" + desc)
    # ---- legacy zero / repeated nonce family
    lobs, lexprs, lmeta = [], [], []
    for c, out in zip(lcases, louts):
        t = parse_term(out)
        o = {"events": [tuple(e[1:]) for e in t[2]], "snaps": t[3], "legs": t[4]}
        lobs.append(o)
        e, sid, cand = legacy_expr(c, o)
        lmeta.append((e is not None, sid, cand))
        if e is not None:
            lexprs.append(e)
    lpreds = iter(coq_eval("C18leg%d" % os.getpid(), IMPORTS, lexprs))
    for c, o, out, (has, sid, cand) in zip(lcases, lobs, louts, lmeta):
        pred = parse_term(next(lpreds)) if has else None
        why = legacy_oracle(c, o, pred, sid, cand)
        chk.coverage["evaluations"] += 1
        chk.count("net." + c["kind"])
        distinct.add(legacy_line(c))
        if why:
            desc = json.dumps({"kind": "two-node-legacy", "scenario_kind": c["kind"], "harness_line": legacy_line(c),
                               "why": why, "nonces": c["nonces"], "stalled_for_good": c["forever"], "impl": out[:4000]}, indent=1)
            chk.violation("real NodeServer vs. legacy peer with zero/repeated nonces: " + why[0][:300],
                          "C18 two-node oracle (legacy nonces) rejects what the real NodeServer did\n" + desc)
    obs = []
    exprs = []
    plan = []   # (case index, snapshot index, pair, candidate conn indexes)
    for ci, (c, out) in enumerate(zip(cases, outs)):
        t = parse_term(out)
        assert t[0] == "mkNet", out[:200]
        conns = {x[1]: {"dial": x[2], "acc": x[3], "nonce": x[4]} for x in t[1]}
        o = {"conns": conns, "events": [tuple(e[1:]) for e in t[2]], "snaps": t[3]}
        obs.append(o)
        nsnaps = len(o["snaps"])
        for si in range(nsnaps):
            final = si == nsnaps - 1
            for (x, y), ks in pairs_of(c["conns"]).items():
                cand = [k for k in ks if final or k not in c["stalled"]]
                if not cand:
                    continue
                cs = "[" + "; ".join(
                    f"mkConn {'true' if conns[k]['dial'] == x else 'false'} {conns[k]['nonce']} {k + 1} {k + 1}"
                    for k in cand) + "]"
                rx, ry = c["names"][x], c["names"][y]
                exprs.append(f"(map id_a (elected_a {rx} {ry} {cs}), map id_a (elected_b {rx} {ry} {cs}))")
                plan.append((ci, si, (x, y), cand))
    preds = coq_eval("C18net%d" % os.getpid(), IMPORTS, exprs)
    bad = {}
    for (ci, si, (x, y), cand), p in zip(plan, preds):
        c, o = cases[ci], obs[ci]
        pt = parse_term(p)
        ea, eb = [i - 1 for i in pt[1]], [i - 1 for i in pt[2]]
        nonces = [o["conns"][k]["nonce"] for k in cand]
        if len(set(nonces)) != len(nonces) or 0 in nonces:
            chk.count("net.repeated_or_zero_nonce")     # cannot happen with real sessions (2^-64); not judged
            continue
        why = []
        if ea != eb or len(ea) != 1:
            why.append(f"model: endpoints elect {ea} / {eb}")
            w = None
        else:
            w = ea[0]
        snap = o["snaps"][si]
        sess = {n[1]: n[2] for n in snap[1]}
        ends = {e[1]: (e[2] == "true", e[3] == "true") for e in snap[2]}
        if c.get("cut"):
            # a connection was lost mid-way: the survivor need not be the model's choice (the lost one may
            # already have retired it), but the two nodes must AGREE: the same single connection or none,
            # open at both ends, everything else closed at both ends
            why = []
            mx = [s[1] for s in sess.get(x, []) if s[4] == c["names"][y]]
            my = [s[1] for s in sess.get(y, []) if s[4] == c["names"][x]]
            if len(mx) > 1 or len(my) > 1 or sorted(mx) != sorted(my):
                why.append(f"after the loss of connection {c['cut']} node {x} keeps connections {mx} to the peer and node {y} keeps {my}: "
                           f"they disagree")
            for k in cand:
                d, a = ends[k]
                if k in mx and k in my and not (d and a):
                    why.append(f"the kept connection {k} is closed at one end (dialler open={d}, acceptor open={a})")
                if k not in mx and k not in my and (d or a) and k not in c["cut"]:
                    why.append(f"connection {k} is kept by nobody but still open (dialler open={d}, acceptor open={a})")
            if why:
                bad.setdefault(ci, []).append(f"snapshot {si}, nodes {x}/{y}: " + "; ".join(why))
            continue
        for node, peer in ((x, y), (y, x)):
            mine = [s for s in sess.get(node, []) if s[4] == c["names"][peer]]
            if len(mine) != 1:
                why.append(f"node {node} lists {len(mine)} sessions for peer {peer} (connections {[s[1] for s in mine]})")
            elif w is not None and mine[0][1] != w:
                why.append(f"node {node} keeps connection {mine[0][1]}, the model elects {w}")
        for k in cand:
            d, a = ends[k]
            if k == w and not (d and a):
                why.append(f"the elected connection {k} is closed (dialler end open={d}, acceptor end open={a})")
            if k != w and (d or a):
                why.append(f"losing connection {k} is still open (dialler end open={d}, acceptor end open={a})")
        if why:
            bad.setdefault(ci, []).append(f"snapshot {si}, nodes {x}/{y}, completed connections {cand}: " + "; ".join(why))
    # events
    for ci, (c, o) in enumerate(zip(cases, obs)):
        why = []
        final = o["snaps"][-1]
        sess = {n[1]: n[2] for n in final[1]}
        survivors = {(node, s[2]) for node, ss in sess.items() for s in ss}
        per = {}
        for idx, (node, kind, sid, srv, conn) in enumerate(o["events"]):
            per.setdefault((node, sid), []).append((kind, idx, conn))
        for (node, sid), evs in per.items():
            kinds = [k for k, _, _ in evs]
            if kinds != sorted(kinds) or any(kinds.count(k) > 1 for k in (0, 1, 2, 3)):
                why.append(f"node {node} session {sid}: events out of order or repeated: {kinds}")
            if 2 in kinds and 1 not in kinds:
                why.append(f"node {node} session {sid}: ready without authenticated")
            if (node, sid) in survivors and kinds.count(2) != 1:
                why.append(f"node {node}: the surviving session {sid} reported ready {kinds.count(2)} times")
            if (node, sid) not in survivors and 2 in kinds and 3 not in kinds:
                why.append(f"node {node}: session {sid} reported ready, is not the survivor and was never disconnected")
        for (x, y), ks in pairs_of(c["conns"]).items():
            if c.get("cut"):
                continue        # with a lost connection the last ready session may be the lost one
            # a link is reported ready on one node only if its other end was elected on the peer at some
            # time (the peer runs its synchronisation and sends Ready only for an elected, authenticated
            # link, and that is when it publishes `authenticated`): no ready for a link that lost the
            # election on the peer as soon as it authenticated there
            for node, peer in ((x, y), (y, x)):
                for (n, kind, sid, srv, conn) in o["events"]:
                    if n == node and kind == 2 and conn in ks:
                        if not any(n2 == peer and k2 == 1 and c2 == conn for (n2, k2, s2, v2, c2) in o["events"]):
                            why.append(f"node {node} reports connection {conn} ready, but node {peer} never elected "
                                       f"(published authenticated for) its end of that connection")
            for node in (x, y):
                readies = [(idx, sid) for idx, (n, kind, sid, srv, conn) in enumerate(o["events"])
                           if n == node and kind == 2 and conn in ks]
                chk.count(f"net.ready_events_per_peer={len(readies)}")
                if readies and (node, readies[-1][1]) not in survivors:
                    why.append(f"node {node}: the last ready event for peer is from session {readies[-1][1]}, not the survivor")
        if why:
            bad.setdefault(ci, []).append("events: " + "; ".join(why))
    for ci, (c, o) in enumerate(zip(cases, obs)):
        chk.coverage["evaluations"] += 1
        chk.count("net." + c["kind"].split("/")[0])
        chk.count("net.connections=%d" % len(c["conns"]))
        chk.count("net.nodes=%d" % len(c["names"]))
        distinct.add(line_of(c["names"], c["conns"], c["tokens"]))
        if ci in bad:
            desc = json.dumps({"kind": "two-node", "scenario_kind": c["kind"],
                               "harness_line": line_of(c["names"], c["conns"], c["tokens"]),
                               "why": bad[ci], "connections(k: dialler, acceptor, nonce)": o["conns"],
                               "impl": outs[ci][:6000]}, indent=1, default=str)
            chk.violation("two real nodes: duplicate connections do not converge on the elected link: " + bad[ci][0][:300],
                          "C18 two-node oracle rejects what the real NodeServers did\n" + desc)
        if len(chk.coverage["samples"]) < 8 and c["kind"].startswith("stall") and ci % 37 == 0:
            chk.coverage["samples"].append({"harness_line": line_of(c["names"], c["conns"], c["tokens"]),
                                            "impl": outs[ci][:1500]})
    return len(cases) + len(lcases) + len(tcases)


TRUSTED_NET = [
    "TCP family: real listeners on loopback ports and client_connect, real-time runtime; the harness waits (60 s bound, else infrastructure "
    "failure) for the expected end state before the Python oracle judges events, one session per pair and the surviving direction",
    "handler-level life cycles (lib/c18_net.py lifecycle_stage): the node-server side is the real code (eng_elect table lines, replayed "
    "prefix by prefix); the sessions' reactions to its answers (close on NotOk, wait on Alive, post-authentication CheckSession, removal "
    "of stopped sessions) are replayed in Python after node_session.rs; the oracle 'an authenticated connection is never closed while no "
    "other authenticated connection survives / exactly one elected session once one authenticated' is evaluated in Python",
    "two-node legacy family: the legacy peer is hand-driven by the harness through the wire types and challenge_digest re-exported by the "
    "cfg hook node::verif_auth; the survivor is predicted by `elect` of Cluster/Elect.v on the acceptor's session ids and the announced nonces",
    "two-node stage: eng_elect_net runs 2-3 real NodeServers in ONE process (paused-clock current_thread runtime) over in-memory "
    "duplex pipes whose frames are released one by one by the driver; the connection nonces are read from the Name frames on the wire "
    "by a hand-written protobuf field reader; the survivor is predicted by elected_a/elected_b of Cluster/Elect.v (vm_compute); "
    "the convergence / one-ready-session oracle itself (lib/c18_net.py) is evaluated in Python on the real nodes' observations",
]
