"""C05 — an exiting actor takes its whole subtree with it; links stay consistent
(DESIGN.md section 4/C05).  Engine E1 (eng_tree) against coq/Tree/Model.v."""
import itertools
import json
import os

from common import *

IMPORTS = "Tree.Model"
KINDS = {0: "spawn", 1: "spawn_linked", 2: "spawn_instant", 3: "spawn_linked_instant", 4: "ActorCell::spawn_linked"}
# kind + 10: the actor keeps the default handle_supervisor_evt
CAUSES = ["stop", "kill", "drain", "err", "panic", "abort"]
CHILD_STATES = ["pre", "poststart", "running", "handler", "draining", "poststop", "stopped"]


# ---------------------------------------------------------------------------------------
# scenario = {"n": int, "ops": [tuple]}

def op_text(o):
    k = o[0]
    if k == "spawn":
        _, a, kind, sup, pre, post, ps = o
        return f"spawn {a} {kind} {'-' if sup is None else sup} {int(pre)} {int(post)} {int(ps)}"
    return " ".join(str(x) for x in o)


def scn_line(s):
    return f"{s['n']} | " + " ; ".join(op_text(o) for o in s["ops"])


def b(x):
    return "true" if x else "false"


def op_term(o, n):
    k = o[0]
    if k == "spawn":
        _, a, kind, sup, pre, post, ps = o
        t = f"OSpawn {a} {'None' if sup is None else '(Some ' + str(sup) + ')'} {b(pre)} {b(post)} {b(ps)}"
        return t + (f"; ODefSup {a}" if kind >= 10 else "")
    if k in ("stopkids", "stopkidsw"):
        return f"OStopKids {o[1]}"
    if k in ("drainkids", "drainkidsw"):
        return f"ODrainKids {o[1]}"
    if k == "send":
        return f"OSend {o[1]} " + {"blk": "MBlock", "err": "MErr", "panic": "MPanic"}[o[2]]
    if k in ("stop", "kill", "drain", "abort", "dropstart"):
        return {"stop": "OStop", "kill": "OKill", "drain": "ODrain", "abort": "OAbort", "dropstart": "ODropNow"}[k] + f" {o[1]}"
    if k == "link":
        return f"OLink {o[1]} {o[2]}"
    if k == "unlink":
        return f"OUnlink {o[1]} {o[2]}"
    if k == "open":
        return f"OOpen {o[1]} " + {"pre": "GPre", "post": "GPost", "h": "GH", "ps": "GPs"}[o[2]]
    if k == "flush":
        return f"OFlush {n}%nat"
    if k == "settle":
        return f"OSettle {n}%nat"
    raise ValueError(o)


def scn_term(s):
    return "[" + "; ".join(op_term(o, s["n"]) for o in s["ops"]) + "]"


class Builder:
    """Builds an operation list; keeps a rough shadow (only to aim the generator — the
    model, not this shadow, predicts the outcome)."""

    def __init__(self, n):
        self.n = n
        self.ops = []
        self.next = 0
        self.sup = {}
        self.flags = {}
        self.kind = {}
        self.depth = {}

    def emit(self, *o, settle=True):
        self.ops.append(tuple(o))
        if settle:
            self.ops.append(("settle",))

    def spawn(self, sup, kind=None, pre=False, post=False, ps=False, rng=None, settle=True, defsup=None):
        a = self.next
        if a >= self.n:
            return None
        self.next += 1
        if kind is None:
            kind = rng.choice([1, 1, 3, 4]) if sup is not None else rng.choice([0, 0, 2])
        if sup is None and kind in (1, 3):
            kind -= 1
        if sup is None and kind == 4:
            kind = 0
        if sup is not None and kind in (0, 2):
            kind += 1
        if defsup is None:
            defsup = rng is not None and rng.random() < 0.2
        if defsup:
            kind += 10
        self.sup[a], self.kind[a], self.flags[a] = sup, kind, (pre, post, ps)
        self.depth[a] = 0 if sup is None else self.depth.get(sup, 0) + 1
        self.emit("spawn", a, kind, sup, pre, post, ps, settle=settle)
        return a

    def scenario(self, tag):
        return {"n": self.n, "ops": self.ops, "tag": tag}


def put_child_in_state(bld, p, state, rng):
    """spawn a child of p and bring it to `state`; returns its id"""
    if state == "pre":
        # linked while still inside pre_start: instant spawn, explicit link before the first poll
        c = bld.spawn(None, kind=2, pre=True, settle=False)
        if c is None:
            return None
        bld.emit("link", c, p)
        return c
    if state == "poststart":
        return bld.spawn(p, post=True, rng=rng)
    if state == "poststop":
        c = bld.spawn(p, ps=True, rng=rng)
        if c is not None:
            bld.emit(rng.choice(["stop", "drain"]), c)
        return c
    c = bld.spawn(p, rng=rng, ps=rng.random() < 0.4)
    if c is None:
        return None
    if state == "handler":
        bld.emit("send", c, "blk")
    elif state == "draining":
        bld.emit("send", c, "blk")
        bld.emit("drain", c)
    elif state == "stopped":
        bld.emit(rng.choice(["stop", "kill"]), c)
    return c


def do_exit(bld, p, cause):
    if cause in ("stop", "kill", "drain", "abort"):
        bld.emit(cause, p)
    else:
        bld.emit("send", p, cause)


def gen_systematic():
    """parent with one child in each status x each exit cause of the parent x an operation issued
    while the parent is parked inside its exit (post_stop gate)"""
    import random
    rng = random.Random(7)
    out = []
    for state in CHILD_STATES:
        for cause in CAUSES:
            for mid in ("none", "link_new", "unlink_child", "spawn_linked", "relink_child", "grandchild"):
                parked = cause in ("stop", "drain")
                if mid != "none" and not parked and mid != "grandchild":
                    continue
                bld = Builder(5)
                other = bld.spawn(None, kind=0)
                p = bld.spawn(None, kind=0, ps=parked)
                c = put_child_in_state(bld, p, state, rng)
                g = None
                if mid == "grandchild":
                    g = bld.spawn(c, kind=1) if state not in ("pre", "stopped") else None
                do_exit(bld, p, cause)
                if parked:
                    if mid == "link_new":
                        x = bld.spawn(None, kind=0)
                        bld.emit("link", x, p)
                    elif mid == "unlink_child":
                        bld.emit("unlink", c, p)
                    elif mid == "relink_child":
                        bld.emit("link", c, other)
                    elif mid == "spawn_linked":
                        bld.spawn(p, kind=rng.choice([1, 3]))
                    bld.emit("open", p, "ps")
                bld.emit("flush")
                out.append(bld.scenario(f"sys:{state}:{cause}:{mid}"))
    return out


def gen_stopping_middle():
    """depth >= 3: an intermediate node is already Stopping (parked in a gated post_stop) and still holds
    live children when an ancestor exits, by each cause; the ancestor is the parent or the grandparent of
    the stopping node; the nodes below it are in assorted statuses"""
    import random
    rng = random.Random(11)
    out = []
    for cause in CAUSES:
        for top in ("parent", "grandparent"):
            for how in ("stop", "drain"):
                for below in ("running", "handler", "draining", "deep"):
                    bld = Builder(7)
                    parked = cause in ("stop", "drain")
                    if top == "grandparent":
                        r = bld.spawn(None, kind=0, ps=parked)
                        x = bld.spawn(r, kind=1)
                    else:
                        r = bld.spawn(None, kind=rng.choice([0, 2]), ps=parked)
                        x = r
                    m = bld.spawn(x, kind=rng.choice([1, 3]), ps=True)
                    g1 = bld.spawn(m, kind=rng.choice([1, 3]))
                    g2 = bld.spawn(m, kind=1)
                    if below == "handler":
                        bld.emit("send", g1, "blk")
                    elif below == "draining":
                        bld.emit("send", g1, "blk")
                        bld.emit("drain", g1)
                    elif below == "deep":
                        bld.spawn(g1, kind=1)
                        bld.spawn(g2, kind=3, ps=True)
                    # the middle node starts stopping and parks inside post_stop, children still linked
                    bld.emit(how, m)
                    do_exit(bld, r, cause)
                    if parked:
                        bld.emit("open", r, "ps")
                    bld.emit("flush")
                    out.append(bld.scenario(f"mid:{cause}:{top}:{how}:{below}"))
    return out


def gen_exit_during_pre_start():
    """spawn_linked / spawn_linked_instant whose supervisor exits (each cause; directly or because an
    ancestor exits) while the child is still parked inside pre_start; then pre_start completes"""
    out = []
    for cause in CAUSES:
        for kind in (1, 3):
            for parked in (False, True):
                for via in ("self", "ancestor"):
                    if parked and cause not in ("stop", "drain"):
                        continue
                    bld = Builder(5)
                    top = bld.spawn(None, kind=0, ps=(parked and via == "ancestor"))
                    p = top if via == "self" else bld.spawn(top, kind=1)
                    if via == "self" and parked:
                        bld = Builder(5)
                        p = top = bld.spawn(None, kind=0, ps=True)
                    sib = bld.spawn(p, kind=1)
                    c = bld.spawn(p, kind=kind, pre=True)
                    do_exit(bld, top, cause)
                    if parked:
                        # the supervisor is still Stopping inside post_stop when pre_start completes
                        bld.emit("open", c, "pre")
                        bld.emit("open", top, "ps")
                    else:
                        bld.emit("open", c, "pre")
                    bld.emit("send", c, "blk")
                    bld.emit("flush")
                    out.append(bld.scenario(f"prestart:{cause}:{kind}:{via}:{'parked' if parked else 'gone'}"))
    return out


def gen_link_into_closed():
    """link / re-link into a supervisor S whose child set has already been closed by an ancestor's
    terminate() while S itself has not yet observed its Kill (status still < Draining).  The window is
    produced without any hook: the ancestor A is still inside pre_start (S was linked under it
    explicitly) and the driver drops A's start future itself, so A's cleanup runs inline and S is not
    polled before the link operations that follow in the same window."""
    out = []
    for s_state in ("idle", "handler", "with_child"):
        for a_kind in (0, 1):
            for links in (("moved",), ("fresh",), ("moved", "fresh"), ("fresh", "moved", "back")):
                bld = Builder(8)
                keeper = bld.spawn(None, kind=0)
                root = bld.spawn(None, kind=0) if a_kind == 1 else None
                a = bld.spawn(root, kind=a_kind, pre=True)
                s_ = bld.spawn(None, kind=rng_kind(len(out)))
                bld.emit("link", s_, a)
                if s_state == "handler":
                    bld.emit("send", s_, "blk")
                elif s_state == "with_child":
                    bld.spawn(s_, kind=1)
                moved = bld.spawn(keeper, kind=1)
                fresh = bld.spawn(None, kind=0)
                bld.emit("dropstart", a, settle=False)
                for what in links:
                    if what == "moved":
                        bld.emit("link", moved, s_, settle=False)
                    elif what == "fresh":
                        bld.emit("link", fresh, s_, settle=False)
                    else:
                        bld.emit("link", moved, keeper, settle=False)
                bld.ops.append(("settle",))
                bld.emit("send", moved, "blk")
                bld.emit("stop", moved)
                bld.emit("flush")
                out.append(bld.scenario(f"closedlink:{s_state}:{a_kind}:{'+'.join(links)}"))
    return out


def gen_unstarted_child():
    """a child that is still Unstarted (spawn_instant, linked by hand before its start task is ever polled) when
    its supervisor exits in the same window without the child being polled: the supervisor is still inside
    pre_start and the driver drops its start future (inline exit)"""
    out = []
    for via in ("self", "ancestor"):
        for extra in ("none", "sibling", "grandchild"):
            for sup_kind in (0, 1):
                bld = Builder(7)
                root = bld.spawn(None, kind=0, defsup=False)
                top = bld.spawn(root if sup_kind == 1 else None, kind=sup_kind, pre=True, defsup=False)
                mid = top
                if via == "ancestor":
                    mid = bld.spawn(None, kind=0, defsup=False)
                    bld.emit("link", mid, top)
                if extra == "sibling":
                    s_ = bld.spawn(None, kind=0, defsup=False)
                    bld.emit("link", s_, mid)
                c = bld.spawn(None, kind=2, settle=False, defsup=False)
                bld.emit("link", c, mid, settle=False)
                if extra == "grandchild":
                    g = bld.spawn(None, kind=2, settle=False, defsup=False)
                    bld.emit("link", g, c, settle=False)
                bld.emit("dropstart", top)
                bld.emit("send", c, "blk")
                bld.emit("flush")
                out.append(bld.scenario(f"unstarted:{via}:{extra}:{sup_kind}"))
    return out


def rng_kind(i):
    return (0, 2)[i % 2]


def gen_children_wide():
    """stop_children / drain_children (_and_wait) on a supervisor whose children are in assorted statuses,
    followed by link attempts into the now draining/stopping children, and by the supervisor's own exit;
    and the default supervision handler: a child exits by each cause below a chain of supervisors that
    keep the library's default handle_supervisor_evt (each stops, and takes its other children with it)"""
    import random
    rng = random.Random(23)
    out = []
    for op in ("stopkids", "drainkids", "stopkidsw", "drainkidsw"):
        for variant in range(6):
            bld = Builder(8)
            p = bld.spawn(None, kind=0, ps=variant % 2 == 1, defsup=False)
            kids = []
            for st_ in rng.sample(["running", "handler", "poststop", "poststart", "pre", "draining", "stopped"], 3):
                c = put_child_in_state(bld, p, st_, rng)
                if c is not None:
                    kids.append(c)
            if kids and bld.next < 8:
                bld.spawn(kids[0], kind=4, defsup=False)
            other = bld.spawn(None, kind=0, defsup=False)
            bld.emit(op, p)
            for c in kids[:2]:
                bld.emit("link", other, c)          # a draining / stopping child must not adopt
            bld.emit("open", kids[0], "h")
            do_exit(bld, p, rng.choice(CAUSES))
            bld.emit("flush")
            out.append(bld.scenario(f"kids:{op}:{variant}"))
    for cause in CAUSES:
        for depth in (1, 2):
            for parked in (False, True):
                bld = Builder(8)
                top = bld.spawn(None, kind=0, defsup=True, ps=parked)
                mid = top if depth == 1 else bld.spawn(top, kind=rng.choice([1, 4]), defsup=True)
                sib = bld.spawn(mid, kind=1, defsup=False)
                bld.spawn(sib, kind=3, defsup=False)
                victim = bld.spawn(mid, kind=rng.choice([1, 3, 4]), defsup=False, ps=rng.random() < 0.3)
                up = bld.spawn(top, kind=1, defsup=False)
                do_exit(bld, victim, cause)
                bld.emit("open", victim, "ps")
                if parked:
                    bld.emit("link", up, sib)
                    bld.emit("open", top, "ps")
                bld.emit("flush")
                out.append(bld.scenario(f"defsup:{cause}:{depth}:{'parked' if parked else 'free'}"))
    return out


def gen_random(rng, count):
    out = []
    for _ in range(count):
        n = rng.choice([3, 4, 5, 6, 7, 8])
        bld = Builder(n)
        # phase A: a tree of depth <= 4
        k0 = rng.randint(2, max(2, n - 1))
        for i in range(k0):
            cands = [a for a in range(bld.next) if bld.depth[a] < 3]
            sup = rng.choice(cands) if cands and rng.random() < 0.8 else None
            r = rng.random()
            if r < 0.10 and sup is not None:
                # instant spawn, linked (or killed/drained) before its task is first polled
                c = bld.spawn(None, kind=2, pre=rng.random() < 0.5, ps=rng.random() < 0.3, settle=False)
                early = rng.choice(["link", "link", "kill", "drain", "stop"])
                if early == "link":
                    bld.emit("link", c, sup)
                    bld.sup[c] = sup
                    bld.depth[c] = bld.depth[sup] + 1
                else:
                    bld.emit(early, c)
            else:
                bld.spawn(sup, pre=rng.random() < 0.12, post=rng.random() < 0.12, ps=rng.random() < 0.35, rng=rng)
        # phase B
        steps = rng.randint(4, 14)
        for _ in range(steps):
            live = list(range(bld.next))
            if not live:
                break
            a = rng.choice(live)
            r = rng.random()
            if r < 0.12:
                bld.emit("send", a, "blk")
            elif r < 0.20:
                bld.emit("drain", a)
            elif r < 0.30:
                bld.emit("stop", a)
            elif r < 0.38:
                bld.emit("kill", a)
            elif r < 0.43:
                bld.emit("abort", a)
            elif r < 0.49:
                bld.emit("send", a, rng.choice(["err", "panic"]))
            elif r < 0.62:
                c = rng.choice(live)
                bld.emit("link", c, a)
            elif r < 0.70:
                c = rng.choice(live)
                p = bld.sup.get(c) if rng.random() < 0.7 and bld.sup.get(c) is not None else a
                bld.emit("unlink", c, p)
            elif r < 0.74:
                bld.emit(rng.choice(["stopkids", "drainkids", "stopkidsw", "drainkidsw"]), a)
            elif r < 0.86:
                bld.emit("open", a, rng.choice(["pre", "post", "h", "ps", "ps"]))
            else:
                if bld.next < n:
                    bld.spawn(a, pre=rng.random() < 0.2, post=rng.random() < 0.1, ps=rng.random() < 0.3, rng=rng)
        bld.emit("flush")
        out.append(bld.scenario("rnd"))
    return out


def gen_targeted(rng, count):
    """a supervisor with several children in assorted statuses and grandchildren exits by a random
    cause; tree operations are issued while it is parked in post_stop"""
    out = []
    for _ in range(count):
        n = rng.choice([5, 6, 7, 8])
        bld = Builder(n)
        root = bld.spawn(None, kind=rng.choice([0, 2]))
        cause = rng.choice(CAUSES)
        parked = cause in ("stop", "drain") and rng.random() < 0.8
        p = bld.spawn(root if rng.random() < 0.6 else None, ps=parked, rng=rng)
        kids = []
        for _ in range(rng.randint(1, 3)):
            c = put_child_in_state(bld, p, rng.choice(CHILD_STATES), rng)
            if c is not None:
                kids.append(c)
        for c in list(kids):
            if rng.random() < 0.5 and bld.next < n:
                g = put_child_in_state(bld, c, rng.choice(CHILD_STATES), rng)
                if g is not None:
                    kids.append(g)
        # an intermediate node that is already Stopping (parked in post_stop) with live children
        inner = [c for c in kids if bld.flags[c][2] and any(bld.sup.get(k) == c for k in kids)]
        if inner and rng.random() < 0.7:
            bld.emit(rng.choice(["stop", "drain"]), rng.choice(inner))
        do_exit(bld, p, cause)
        if parked:
            for _ in range(rng.randint(0, 3)):
                r = rng.random()
                if r < 0.3 and bld.next < n:
                    bld.spawn(p, kind=rng.choice([1, 3]), rng=rng)
                elif r < 0.5 and kids:
                    bld.emit("unlink", rng.choice(kids), p)
                elif r < 0.7 and kids:
                    bld.emit("link", rng.choice(kids), rng.choice([root, p] + kids))
                elif r < 0.85:
                    bld.emit("link", root, p)
                elif kids:
                    bld.emit(rng.choice(["kill", "stop", "drain"]), rng.choice(kids))
            fin = rng.choice(["open", "open", "kill", "abort"])
            if fin == "open":
                bld.emit("open", p, "ps")
            else:
                bld.emit(fin, p)
        bld.emit("flush")
        out.append(bld.scenario(f"tgt:{cause}"))
    return out


# ---------------------------------------------------------------------------------------

def canon(term):
    """[(snapshot, results)]: sort the child lists (HashMap order); results: Ok / not Ok.
    The results of the last window are not compared when it is the `flush` window (many gates
    open at once: the order in which tasks run inside that window decides spawn results)."""
    snaps, ress = [], []
    for pair in term:
        sn, res = pair[1], pair[2]
        snaps.append([("tuple", x[1], sorted(x[2]), x[3]) for x in sn])
        ress.append([1 if r == ("Some", "true") else 0 for r in res])
    return snaps, ress[:-1]


def is_panic(term):
    return (len(term) == 1 and isinstance(term[0], tuple) and len(term[0]) > 1
            and isinstance(term[0][1], tuple) and term[0][1][0] == "HarnessPanic")


def snaps_term(snaps):
    return show_term(snaps)


def exits_with_children(snaps):
    """(number of windows in which an actor with >=1 observed child became Stopped, histogram keys)"""
    k = 0
    keys = []
    for pre, post in zip(snaps, snaps[1:]):
        for a, (x, y) in enumerate(zip(pre, post)):
            if y[1] == 6 and x[1] != 6 and x[2]:
                k += 1
                for c in x[2]:
                    if c < len(pre):
                        keys.append(f"child_status_at_exit={pre[c][1]}")
    return k, keys


def load_corpus():
    d = os.path.join(ROOT, "corpus", "C05")
    out = []
    if os.path.isdir(d):
        for f in sorted(os.listdir(d)):
            if f.endswith(".json"):
                s = json.load(open(os.path.join(d, f)))
                s["ops"] = [tuple(o) for o in s["ops"]]
                s["tag"] = "corpus:" + f
                out.append(s)
    return out


def run(chk):
    quick = chk.tier == "quick"
    ok_proofs = chk.proofs()
    factor = 1 if ok_proofs else 5
    if os.environ.get("RV_C05_BIN_DIR"):
        # mutation experiments: a harness prebuilt against a scratch copy of /repo
        build = {"ok": True, "dir": os.environ["RV_C05_BIN_DIR"], "log": "", "wall_s": 0}
    else:
        build = cargo_build(["eng_tree"])
    if not build["ok"]:
        ok, log = repo_builds_without_hooks()
        if not ok:
            return infrastructure_failure(chk.prop, "/repo does not compile even without hooks:\n" + log[-1500:])
        chk.violation("harness no longer builds against /repo",
                      "correspondence E1:eng_tree cannot be built against the current tree\n" + build["log"][-3000:],
                      failing_input=False)
        return chk.finish(trusted_base=TRUSTED)

    if chk.replay:
        scns = []
        for line in open(chk.replay):
            if line.startswith("scenario-json: "):
                s = json.loads(line[len("scenario-json: "):])
                s["ops"] = [tuple(o) for o in s["ops"]]
                s["tag"] = "replay"
                scns.append(s)
    else:
        scns = load_corpus() + gen_systematic() + gen_stopping_middle() + gen_exit_during_pre_start() + gen_link_into_closed() + gen_children_wide() + gen_unstarted_child()
        scns += gen_targeted(chk.rng, (250 if quick else 3000) * factor)
        scns += gen_random(chk.rng, (250 if quick else 3000) * factor)

    lines = [scn_line(s) for s in scns]
    impl = run_harness(build, "eng_tree", lines, shards=8)
    impl_t = [parse_term(x) for x in impl]

    exprs = [f"model_run rule_fixed {s['n']}%nat {scn_term(s)}" for s in scns]
    for s, it in zip(scns, impl_t):
        if is_panic(it):
            exprs.append("true")
            continue
        reqs = "[" + "; ".join(f"({o[1]}, {o[3]})" for o in s["ops"] if o[0] == "spawn" and o[3] is not None) + "]"
        pairs = show_term([("tuple", x[1], x[2]) for x in it])
        lk = show_term([("tuple", x[1], x[3] if len(x) > 3 else []) for x in it])
        exprs.append(f"check_C05_full {reqs} {pairs} && check_links {lk}")
    vals = coq_eval("C05", IMPORTS, exprs)
    N = len(scns)
    distinct = set()
    for i, s in enumerate(scns):
        mt = parse_term(vals[i])
        oracle = vals[N + i].strip()
        if is_panic(impl_t[i]):
            chk.coverage["evaluations"] += 1
            chk.violation("the harness panicked while driving this scenario",
                          "correspondence E1:eng_tree could not drive the scenario (harness panic, no observation)\n"
                          f"scenario: {scn_line(s)}\nscenario-json: {json.dumps({'n': s['n'], 'ops': s['ops']})}\n"
                          f"impl : {impl[i]}\n", failing_input=False)
            continue
        mv, iv = canon(mt), canon(impl_t[i])
        chk.coverage["evaluations"] += 1
        chk.count("scenarios." + s["tag"].split(":")[0])
        for o in s["ops"]:
            if o[0] != "settle":
                chk.count("op." + o[0] + ("." + str(o[2]) if o[0] == "send" else ""))
        nex, keys = exits_with_children(iv[0])
        for k in keys:
            chk.count(k)
        if nex:
            distinct.add(scn_line(s))
        desc = (f"scenario: {scn_line(s)}\n"
                f"scenario-json: {json.dumps({'n': s['n'], 'ops': s['ops']})}\n"
                f"tag: {s['tag']}\n"
                f"impl : {impl[i]}\nmodel: {vals[i]}\n")
        if oracle != "true":
            why = explain(iv[0], s, impl_t[i])
            chk.violation("check_C05 rejects the implementation's snapshots: " + why,
                          "C05 oracle check_C05 rejects the implementation's quiescent snapshots\n"
                          + why + "\n" + desc
                          + "replay: echo '<scenario line>' | harness/target/debug/eng_tree ; "
                            "python3 bin/check.py C05 --replay <this file>\n")
        elif mv != iv:
            chk.coverage["disagreements_checked"] += 1
            first = next((j for j, (x, y) in enumerate(zip(mv[0], iv[0])) if x != y), "results")
            chk.violation("model/implementation views differ",
                          f"correspondence E1:tree-view differs (oracle accepts); first differing snapshot #{first}\n" + desc,
                          failing_input=False)
        if len(chk.coverage["samples"]) < 3 and nex and i % 37 == 1:
            chk.coverage["samples"].append({"scenario": scn_line(s), "impl": impl[i], "model": vals[i]})
    chk.coverage["traces_validated_against_impl"] = N
    chk.coverage["distinct_nontrivial"] = len(distinct)
    chk.coverage["rule"] = ("corpus + systematic (child status x parent exit cause x operation while the parent is parked in "
                            "post_stop) + seeded targeted and random scenarios; non-trivial = some actor with >= 1 linked child "
                            "became Stopped in a window; distinct = distinct scenario texts")
    chk.coverage["exhaustive_part"] = "7 child statuses x 6 exit causes x mid-exit operation (systematic list)"
    return chk.finish(trusted_base=TRUSTED)


def explain(snaps, s=None, raw=None):
    """human-readable reason, mirroring check_C05_full (the verdict itself is Coq's)"""
    if raw is not None:
        for k, x in enumerate(raw):
            for cp in (x[3] if len(x) > 3 else []):
                c, p = cp[1], cp[2]
                sn = x[1]
                if sn[c][3] != ("Some", p) and sn[c][1] < 5:
                    return (f"snapshot {k}: link of actor {c} under {p} was accepted in this window, but at its end actor {c} "
                            f"is alive (status rank {sn[c][1]}) with supervisor {sn[c][3]} (actor {p}: status rank {sn[p][1]})")
    if s is not None and raw is not None:
        prev = None
        for k, pair in enumerate(raw):
            sn, res = pair[1], pair[2]
            for o in s["ops"]:
                if o[0] == "spawn" and o[3] is not None:
                    c, p = o[1], o[3]
                    ok = res[c] == ("Some", "true")
                    was = prev is not None and prev[c] == ("Some", "true")
                    if ok and not was and sn[c][3] != ("Some", p) and sn[c][1] < 5:
                        return (f"snapshot {k}: spawn_linked of actor {c} under {p} returned Ok but actor {c} is alive "
                                f"(status rank {sn[c][1]}) with supervisor {sn[c][3]}: an orphan")
            prev = res
    for k, sn in enumerate(snaps):
        for a, x in enumerate(sn):
            _, r, kids, sup = x
            if r == 6 and (kids or sup != "None"):
                return f"snapshot {k}: stopped actor {a} is not bare ({kids}, {sup})"
            if sup != "None":
                p = sup[1]
                if p < len(sn) and a not in sn[p][2]:
                    return f"snapshot {k}: actor {a} names supervisor {p} which does not list it"
            for c in kids:
                if c < len(sn) and sn[c][3] != ("Some", a):
                    return f"snapshot {k}: actor {a} lists child {c} whose supervisor is {sn[c][3]}"
    for k, (pre, post) in enumerate(zip(snaps, snaps[1:])):
        for a, (x, y) in enumerate(zip(pre, post)):
            if x[1] >= 4 and any(c not in x[2] for c in y[2]):
                return f"window {k}->{k+1}: actor {a} (status rank {x[1]}) gained a child: {x[2]} -> {y[2]}"
            if y[1] == 6 and x[1] != 6:
                seen, todo = [], list(x[2])
                while todo:
                    c = todo.pop()
                    if c in seen or c >= len(pre) or (post[c][1] != 6 and post[c][3] != "None" and post[c][3] != pre[c][3]):
                        continue
                    seen.append(c)
                    todo += pre[c][2]
                for c in seen:
                    if post[c][1] < 5:
                        return (f"window {k}->{k+1}: actor {a} exited; actor {c} was linked beneath it with status rank "
                                f"{pre[c][1]} and is still alive afterwards (status rank {post[c][1]})")
    return "(see snapshots)"


TRUSTED = [
    "Coq 8.16.1 kernel (coqc); vm_compute for evaluating the model and the oracle on cases and for Examples",
    "no axioms: every property theorem prints 'Closed under the global context'",
    "hand-written model coq/Tree/Model.v tied to ractor/src/actor/{supervision,actor_cell}.rs and actor.rs by the E1 runs of this check",
    "atomicity of link/unlink/take_children (TREE_MUTATION_LOCK) and of single status/signal operations is modelled, not verified; "
    "status reads inside link are treated as part of the atomic section (sound because statuses only increase)",
    "tokio current_thread + paused clock: sleep(1ns) as quiescence barrier; JoinHandle::abort drops the future at an await point",
    "fair scheduling / termination of user callbacks for the progress theorem",
    "Rust harness eng_tree, lib/common.py term parser and comparison",
]
