"""C10 — a name maps to at most one live actor and is released on exit (DESIGN.md section 4/C10).

Engines: E1 task-level histories on the paused clock (named spawns incl. failing and parked starts,
remote-id handles with clashing names, lookups, exits, waits, re-spawns while the predecessor is
parked in post_stop) compared event by event with the Coq model Registry/Model.v; real OS threads
racing same-name spawns (`race`) and hammering a few names (`hammer`).  Oracle = check_C10 /
check_race / check_hammer evaluated inside Coq on the implementation's answers.
"""
import json
import os

from common import *

IMPORTS = "Registry.Model"


# ------------------------------------------------------------------------------------------
# abstract histories: list of ops
#   ["sp", a, name|None, kind, ps]   kind ok|fail|lfail|park|remote|remotepark|tlok|tlfail|tllfail|tlpark ; ps 0|1
#        (tl* = spawned through the thread-local API: ActorCell::new_thread_local enrols the cell in the same
#         two registries, name then pid, so the model actor is an ordinary local one)
#   ["go", a, ok] ["stop", a] ["kill", a] ["err", a] ["panic", a] ["drain", a] (exit causes)
#   ["ldrain", a]  a late drain(): the actor has already begun to stop — no model step, no event
#   ["rel", a] ["wait", a] ["wh", name] ["whp", a]

def base_kind(kind):
    k = kind[2:] if kind.startswith("tl") else kind
    # lfail = linked spawn under a supervisor that has already stopped: start() fails after the cell
    # was enrolled; same labels and events as a failing pre_start
    return "fail" if k == "lfail" else k


def translate(ops):
    """ops -> harness line, model actors/labels, expected spawn results (given the model's ESpawn flags)"""
    acts = {}      # a -> dict(name, remote, kind, ps, phase, waiters)
    labels = []
    hops = []

    def finished(a):
        x = acts[a]
        x["phase"] = "stopped"
        labels.extend([f"LWaitRet {a}"] * x["waiters"])
        x["waiters"] = 0

    for op in ops:
        k = op[0]
        if k == "sp":
            _, a, name, kind, ps = op
            remote = kind.startswith("remote")
            acts[a] = {"name": name, "remote": remote, "kind": kind, "ps": ps, "phase": "pre", "waiters": 0,
                       "go": None}
            hops.append(f"sp {a} {name if name is not None else '-'} {kind} {ps}")
            labels += [f"LStep {a}", f"LStep {a}"]
            if base_kind(kind) in ("ok", "remote"):
                labels.append(f"LStart {a} true")
                acts[a]["phase"] = "run"
            elif base_kind(kind) == "fail":
                labels += [f"LStart {a} false", f"LStep {a}", f"LStep {a}", f"LFinish {a}"]
                acts[a]["phase"] = "stopped"
        elif k == "go":
            _, a, ok = op
            hops.append(f"go {a} {'ok' if ok else 'fail'}")
            acts[a]["go"] = ok
            if ok:
                labels.append(f"LStart {a} true")
                acts[a]["phase"] = "run"
            else:
                labels += [f"LStart {a} false", f"LStep {a}", f"LStep {a}", f"LFinish {a}"]
                finished(a)
        elif k == "ldrain":
            hops.append(f"ldrain {op[1]}")
        elif k in ("stop", "kill", "err", "panic", "drain"):
            a = op[1]
            hops.append(f"{k} {a}")
            if acts[a]["phase"] == "pre":
                # kill while pre_start is parked: the start fails ("killed during startup")
                acts[a]["go"] = False
                labels += [f"LStart {a} false", f"LStep {a}", f"LStep {a}", f"LFinish {a}"]
                finished(a)
                continue
            labels += [f"LStop {a}", f"LStep {a}", f"LStep {a}"]
            if k in ("stop", "drain") and acts[a]["ps"]:
                acts[a]["phase"] = "psparked"
            else:
                labels.append(f"LFinish {a}")
                finished(a)
        elif k == "rel":
            a = op[1]
            hops.append(f"rel {a}")
            labels.append(f"LFinish {a}")
            finished(a)
        elif k in ("wait", "whp") and acts[op[1]]["kind"].endswith("lfail"):
            continue   # the spawn returned Err before pre_start: the driver never gets a handle on that cell
        elif k == "wait":
            a = op[1]
            hops.append(f"wait {a}")
            if acts[a]["phase"] == "stopped":
                labels.append(f"LWaitRet {a}")
            else:
                acts[a]["waiters"] += 1
        elif k == "wh":
            hops.append(f"wh {op[1]}")
            labels.append(f"LWhere {op[1]}%N")
        elif k == "whp":
            hops.append(f"whp {op[1]}")
            labels.append(f"LWherePid {op[1]}")
        else:
            raise ValueError(op)
    n = (max(acts) + 1) if acts else 0
    alist = []
    for a in range(n):
        x = acts[a]
        nm = f"Some {x['name']}%N" if x["name"] is not None else "None"
        alist.append(f"({nm}, {'true' if x['remote'] else 'false'})")
    return {"line": "hist " + " ; ".join(hops), "acts": "[" + "; ".join(alist) + "]",
            "labels": "[" + "; ".join(labels) + "]", "info": acts}


def expected_results(tr, model_hist):
    ok = {}
    for e in model_hist:
        if isinstance(e, tuple) and e[0] == "ESpawn":
            ok[e[1]] = (e[4] == "true")
    res = []
    for a in sorted(tr["info"]):
        x = tr["info"][a]
        if not ok.get(a, True):
            res.append("AlreadyRegistered")
        elif base_kind(x["kind"]) in ("ok", "remote"):
            res.append("Ok")
        elif base_kind(x["kind"]) == "fail":
            res.append("StartupFailed")
        else:
            res.append("Pending" if x["go"] is None else ("Ok" if x["go"] else "StartupFailed"))
    return res


def gen_history(rng):
    ops = []
    acts = {}      # a -> dict(phase, name, remote, ps, cell)
    holder = {}    # name -> a (python-side bookkeeping only to produce interesting, valid op lists)
    names = [1, 2, 3][:rng.choice([1, 2, 2, 3])]
    if rng.random() < 0.3:
        # special name shapes of the harness pool: 90 = the EMPTY name, 91 one character, 92 very long, 93 non-ASCII
        names = names[:1] + [rng.choice([90, 90, 91, 92, 93])]
    n_ops = rng.choice([5, 8, 12, 16, 22, 30])
    # share of thread-local spawns in this history (none in half of them: the spawner's OS thread is slower)
    tl_p = rng.choice([0, 0, 0.25, 0.5])
    nxt = 0
    for _ in range(n_ops):
        r = rng.random()
        pre = [a for a, x in acts.items() if x["phase"] == "pre"]
        run = [a for a, x in acts.items() if x["phase"] == "run"]
        psp = [a for a, x in acts.items() if x["phase"] == "psparked"]
        cells = [a for a, x in acts.items() if x["cell"]]
        late = [a for a, x in acts.items() if x["cell"] and not x["remote"] and x["phase"] in ("psparked", "stopped")]
        if r < 0.07 and late:
            # drain() reaching an actor that has already begun to stop (mostly one parked in post_stop)
            ops.append(["ldrain", rng.choice([a for a in late if acts[a]["phase"] == "psparked"] or late)])
        elif r < 0.30 or not acts:
            name = rng.choice(names + names + [None]) if rng.random() < 0.9 else None
            kind = rng.choice(["ok", "ok", "ok", "park", "park", "fail", "lfail", "remote", "remotepark"])
            if name is None and kind.startswith("remote"):
                kind = "ok"
            ps = rng.choice([0, 0, 1])
            a = nxt
            nxt += 1
            remote = kind.startswith("remote")
            taken = (not remote) and name is not None and name in holder
            acts[a] = {"phase": "failed" if taken else {"ok": "run", "remote": "run", "fail": "stopped", "lfail": "stopped",
                                                          "park": "pre", "remotepark": "pre"}[kind],
                       "name": name, "remote": remote, "ps": ps, "cell": not taken and kind != "lfail"}  # lfail: no handle at all
            if not remote and tl_p and rng.random() < tl_p:
                kind = "tl" + kind
            if not taken and not remote and name is not None and base_kind(kind) != "fail":
                holder[name] = a
            ops.append(["sp", a, name, kind, ps])
        elif r < 0.40 and pre:
            a = rng.choice(pre)
            ok = rng.random() < 0.65
            acts[a]["phase"] = "run" if ok else "stopped"
            if not ok and holder.get(acts[a]["name"]) == a:
                del holder[acts[a]["name"]]
            ops.append(["go", a, ok])
        elif r < 0.44 and pre:
            a = rng.choice(pre)
            acts[a]["phase"] = "stopped"
            if holder.get(acts[a]["name"]) == a:
                del holder[acts[a]["name"]]
            ops.append(["kill", a])
        elif r < 0.58 and run:
            a = rng.choice(run)
            # (a remote-id handle cannot be sent a plain message: only stop/kill for those)
            k = rng.choice(["stop", "stop", "kill"] + ([] if acts[a]["remote"] else ["err", "panic", "drain"]))
            acts[a]["phase"] = "psparked" if (k in ("stop", "drain") and acts[a]["ps"]) else "stopped"
            if holder.get(acts[a]["name"]) == a and not acts[a]["remote"]:
                del holder[acts[a]["name"]]
            ops.append([k, a])
        elif r < 0.64 and psp:
            a = rng.choice(psp)
            acts[a]["phase"] = "stopped"
            ops.append(["rel", a])
        elif r < 0.74 and cells:
            ops.append(["wait", rng.choice(cells)])
        elif r < 0.80 and cells:
            ops.append(["whp", rng.choice(cells)])
        else:
            ops.append(["wh", rng.choice(names)])
    for nme in names:
        ops.append(["wh", nme])
    return ops


def directed():
    """small systematic families run on every seed (source 'directed')"""
    out = []
    # (a) a spawn under a TAKEN name is rejected without side effects, whichever API (Send / thread-local) the
    # holder and the rejected spawn come through and whatever the holder is doing (running, parked in pre_start);
    # afterwards the name is still taken for everybody, and free again only after the holder's exit
    for hk in ("ok", "tlok", "park", "tlpark"):
        for dk in ("ok", "tlok", "tlpark", "tlfail", "fail", "lfail", "tllfail"):
            for third in ("ok", "tlok"):
                ops = [["sp", 0, 1, hk, 0], ["wh", 1], ["sp", 1, 1, dk, 0], ["wh", 1], ["whp", 0], ["sp", 2, 1, third, 0], ["wh", 1]]
                if base_kind(hk) == "park":
                    ops += [["go", 0, True], ["wh", 1]]
                ops += [["stop", 0], ["wait", 0], ["wh", 1], ["sp", 3, 1, dk, 0], ["wh", 1], ["whp", 3]]
                out.append(ops)
    # (c) a spawn that fails in start() after the cell was enrolled (linked under a supervisor that has already
    # stopped; Send and thread-local) releases name and pid: lookup finds nothing, the name can be taken at once
    for fk in ("lfail", "tllfail", "fail", "tlfail"):
        for nk in ("ok", "tlok", "lfail", "tllfail"):
            h = 1 if nk in ("ok", "tlok") else 2   # who holds the name after the three spawns
            out.append([["sp", 0, 1, fk, 0], ["wh", 1], ["sp", 1, 1, nk, 0], ["wh", 1], ["sp", 2, 1, "ok", 0],
                        ["wh", 1], ["whp", h], ["stop", h], ["wait", h], ["wh", 1], ["sp", 3, 1, fk, 0], ["wh", 1],
                        ["sp", 4, 1, "tlok", 0], ["wh", 1]])
    # (d) special name shapes (empty, one character, very long, non-ASCII): full life cycle under the name
    for nmk in (90, 91, 92, 93):
        for k in ("ok", "tlok"):
            out.append([["sp", 0, nmk, k, 0], ["wh", nmk], ["sp", 1, nmk, "ok", 0], ["wh", nmk], ["stop", 0], ["wait", 0],
                        ["wh", nmk], ["sp", 2, nmk, k, 0], ["wh", nmk], ["kill", 2], ["wait", 2], ["wh", nmk]])
    # two names: the rejected spawn must not disturb the other name either
    for dk in ("tlok", "ok"):
        out.append([["sp", 0, 1, "ok", 0], ["sp", 1, 2, "tlok", 0], ["sp", 2, 1, dk, 0], ["sp", 3, 2, dk, 0], ["wh", 1], ["wh", 2],
                    ["kill", 1], ["wh", 2], ["sp", 4, 2, dk, 0], ["wh", 2], ["wh", 1]])
    # (b) a successor takes the name while the predecessor is parked in post_stop; a drain() request that
    # reaches the predecessor in that window (it is already Stopping) must not make its exit release again
    for ak in ("ok", "tlok"):
        for cause in ("stop", "drain"):
            for bk in ("ok", "park", "tlok"):
                for when in ("before", "after", "both", "none"):
                    ops = [["sp", 0, 1, ak, 1], ["wait", 0], [cause, 0], ["wh", 1]]
                    if when in ("before", "both"):
                        ops.append(["ldrain", 0])
                    ops += [["sp", 1, 1, bk, 0], ["wh", 1]]
                    if when in ("after", "both"):
                        ops.append(["ldrain", 0])
                    ops += [["wh", 1], ["whp", 0], ["rel", 0], ["wh", 1], ["whp", 1], ["sp", 2, 1, "ok", 0], ["wh", 1]]
                    if bk == "park":
                        ops += [["go", 1, True], ["wh", 1]]
                    ops += [["ldrain", 0], ["wh", 1], ["stop", 1], ["wait", 1], ["wh", 1], ["sp", 3, 1, "ok", 0], ["wh", 1]]
                    out.append(ops)
    return out


# ------------------------------------------------------------------------------------------
# controlled OS threads: ops
#   ["tsp", a, name, plan] plan none|name      ["tstop", a, plan] plan none|publish|pid|both
#   ["res", a]  ["twait", a]  ["wh", name]  ["whp", a]

def thr_translate(ops):
    st = {}       # a -> state: failed | paused_spawn | run | paused_publish(pid_next) | paused_pid | exited
    holder = {}
    name_of = {}
    labels, hops = [], []
    for op in ops:
        k = op[0]
        if k == "tsp":
            _, a, n, plan = op
            hops.append(f"tsp {a} {n} {plan}")
            name_of[a] = n
            if n in holder:
                labels.append(f"LStep {a}")
                st[a] = "failed"
            else:
                holder[n] = a
                if plan == "name":
                    labels.append(f"LStep {a}")
                    st[a] = "paused_spawn"
                else:
                    labels += [f"LStep {a}", f"LStep {a}", f"LStart {a} true"]
                    st[a] = "run"
        elif k == "res":
            a = op[1]
            hops.append(f"res {a}")
            if st[a] == "paused_spawn":
                labels += [f"LStep {a}", f"LStart {a} true"]
                st[a] = "run"
            elif st[a] == "paused_publish+pid":
                labels.append(f"LStep {a}")
                st[a] = "paused_pid"
            elif st[a] == "paused_publish":
                labels += [f"LStep {a}", f"LStep {a}", f"LFinish {a}"]
                st[a] = "exited"
                holder.pop(name_of[a], None)
            elif st[a] == "paused_pid":
                labels += [f"LStep {a}", f"LFinish {a}"]
                st[a] = "exited"
                holder.pop(name_of[a], None)
        elif k == "tstop":
            _, a, plan = op
            hops.append(f"tstop {a} {plan}")
            if st[a] != "run":
                continue
            labels.append(f"LStop {a}")
            if plan in ("publish", "both"):
                st[a] = "paused_publish+pid" if plan == "both" else "paused_publish"
            elif plan == "pid":
                labels.append(f"LStep {a}")
                st[a] = "paused_pid"
            else:
                labels += [f"LStep {a}", f"LStep {a}", f"LFinish {a}"]
                st[a] = "exited"
                holder.pop(name_of[a], None)
        elif k == "twait":
            a = op[1]
            hops.append(f"twait {a}")
            if st[a] == "exited":
                labels.append(f"LWaitRet {a}")
        elif k == "wh":
            hops.append(f"wh {op[1]}")
            labels.append(f"LWhere {op[1]}%N")
        elif k == "whp":
            hops.append(f"whp {op[1]}")
            if st.get(op[1]) not in (None, "failed", "paused_spawn"):
                labels.append(f"LWherePid {op[1]}")
    n = (max(st) + 1) if st else 0
    acts = "[" + "; ".join(f"(Some {name_of[a]}%N, false)" for a in range(n)) + "]"
    exp = []
    for a in range(n):
        exp.append({"failed": "AlreadyRegistered", "paused_spawn": "Pending"}.get(st[a], "Ok"))
    return {"line": "thr " + " ; ".join(hops), "acts": acts, "labels": "[" + "; ".join(labels) + "]", "expected": exp}


def gen_thr(rng):
    ops, st, nxt = [], {}, 0
    names = [1, 2][:rng.choice([1, 1, 2])]
    for _ in range(rng.choice([4, 7, 10, 14, 18])):
        r = rng.random()
        paused = [a for a, x in st.items() if x.startswith("paused")]
        run = [a for a, x in st.items() if x == "run"]
        exited = [a for a, x in st.items() if x == "exited"]
        if r < 0.28 or not st:
            plan = rng.choice(["none", "name", "name"])
            n = rng.choice(names)
            ops.append(["tsp", nxt, n, plan])
            st[nxt] = "new"     # real state is decided by thr_translate's bookkeeping; mirror it roughly
            # mirror: holder bookkeeping
            held = [a for a, x in st.items() if x in ("run", "paused_spawn", "paused_publish", "paused_publish+pid", "paused_pid")
                    and a != nxt and gen_thr.names.get(a) == n]
            gen_thr.names[nxt] = n
            st[nxt] = "failed" if held else ("paused_spawn" if plan == "name" else "run")
            nxt += 1
        elif r < 0.45 and paused:
            a = rng.choice(paused)
            ops.append(["res", a])
            st[a] = {"paused_spawn": "run", "paused_publish+pid": "paused_pid", "paused_publish": "exited",
                     "paused_pid": "exited"}[st[a]]
        elif r < 0.60 and run:
            a = rng.choice(run)
            plan = rng.choice(["none", "publish", "pid", "both", "both"])
            ops.append(["tstop", a, plan])
            st[a] = {"none": "exited", "publish": "paused_publish", "pid": "paused_pid", "both": "paused_publish+pid"}[plan]
        elif r < 0.68 and exited:
            ops.append(["twait", rng.choice(exited)])
        elif r < 0.80 and st:
            ops.append(["whp", rng.choice(list(st))])
        else:
            ops.append(["wh", rng.choice(names)])
    for n in names:
        ops.append(["wh", n])
    return ops


gen_thr.names = {}


def run(chk):
    quick = chk.tier == "quick"
    ok_proofs = chk.proofs()
    factor = 1 if ok_proofs else 10
    build = cargo_build(["eng_reg"])
    if not build["ok"]:
        ok, log = repo_builds_without_hooks()
        if not ok:
            return infrastructure_failure(chk.prop, "/repo does not compile even without hooks:\n" + log[-1500:])
        chk.violation("harness no longer builds against /repo",
                      "correspondence E1:eng_reg cannot be built against the current tree\n" + build["log"][-3000:],
                      failing_input=False)
        return chk.finish(trusted_base=TRUSTED)

    hists = []
    corpus_thr = []
    replay_thr = None
    if getattr(chk, "replay", None):
        txt = open(chk.replay).read()
        j = json.loads(txt[txt.index("{"):])
        if "thread_ops" in j:
            replay_thr = j["thread_ops"]
            hists = [("replay", [["wh", 1]])]
        else:
            hists = [("replay", j.get("ops", j))]
    cdir = os.path.join(ROOT, "corpus", "C10")
    if os.path.isdir(cdir) and not hists:
        for f in sorted(os.listdir(cdir)):
            if f.endswith(".json"):
                for l in open(os.path.join(cdir, f)):
                    if l.strip() and not l.startswith("#"):
                        j = json.loads(l)
                        if "thread_ops" in j:
                            corpus_thr.append(j["thread_ops"])
                        else:
                            hists.append(("corpus:" + f, j["ops"]))
    n_corpus = len(hists)
    replaying = bool(hists) and hists[0][0] == "replay"
    if not replaying:
        hists += [("directed", o) for o in directed()]
        hists += [("random", gen_history(chk.rng)) for _ in range((1200 if quick else 15000) * factor)]
    tr = [translate(o) for _, o in hists]
    lines = [t["line"] for t in tr]
    # thread engines
    # (third component: "tl" = every odd thread spawns through the thread-local API)
    races = [] if replaying else ([(k, (30 if quick else 300) * factor, "") for k in (2, 3, 4, 8, 16)]
                                  + [(k, (15 if quick else 150) * factor, "tl") for k in (2, 3, 4, 8)])
    hammers = [] if replaying else [(16, 4, (300 if quick else 4000) * factor, ""), (8, 1, (200 if quick else 3000) * factor, ""),
                                    (8, 2, (150 if quick else 2000) * factor, "tl")]
    tlines = [f"race{m} {k} {r}" for k, r, m in races] + [f"hammer{m} {t} {n} {i}" for t, n, i, m in hammers]
    impl = run_harness(build, "eng_reg", lines, shards=8) if lines else []
    timpl = run_harness(build, "eng_reg", tlines, shards=1) if tlines else []
    impl_t = [parse_term(x) for x in impl]

    exprs = []
    for t, it in zip(tr, impl_t):
        exprs.append(f"(history false {t['labels']} (init {t['acts']}), check_C10 {show_hist(it[1])})")
    race_rounds = []
    race_mode = []
    for (k, r, m), out in zip(races, timpl[:len(races)]):
        for tup in parse_term(out):
            race_rounds.append(tup)
            race_mode.append(m)
            exprs.append(f"check_race {tup[1]} {tup[2]} {tup[3]} {tup[4]} {tup[5]} {tup[6]}")
    hammer_out = []
    for (t_, n_, i_, m_), out in zip(hammers, timpl[len(races):]):
        tup = parse_term(out)
        hammer_out.append(tup)
        exprs.append(f"check_hammer {tup[3]} {tup[4]} {tup[5]}")
    # controlled OS threads (hook points new.after_name, status.after_publish, cleanup.after_pid)
    thr_ops = []
    if not replaying:
        thr_ops = list(corpus_thr)
        for _ in range((150 if quick else 2000) * factor):
            gen_thr.names = {}
            thr_ops.append(gen_thr(chk.rng))
    elif replay_thr is not None:
        thr_ops = [replay_thr]
    ttr = [thr_translate(o) for o in thr_ops]
    thr_impl = [parse_term(x) for x in run_harness(build, "eng_reg", [t["line"] for t in ttr], shards=8, timeout=600)] if ttr else []
    n_main = len(exprs)
    for t, it in zip(ttr, thr_impl):
        exprs.append(f"(history false {t['labels']} (init {t['acts']}), check_C10 {show_hist(it[1])})")
    model = coq_eval("C10", IMPORTS, exprs, scope=None)
    model_t = [parse_term(x) for x in model]
    thr_model = model_t[n_main:]
    model_t = model_t[:n_main]

    distinct = set()
    found = []
    for (src, ops), t, it, mt in zip(hists, tr, impl_t, model_t):
        chk.coverage["evaluations"] += 1
        m_hist, oracle = mt[1], mt[2]
        i_hist, i_res = it[1], it[2]
        exp_res = expected_results(t, m_hist)
        if len(it) > 3 and it[3]:
            # pid lifecycle subscription (pid_registry::monitor) disagrees with the pid table: not part of
            # C10's statement, reported as a correspondence difference
            chk.violation("pid lifecycle events disagree with the pid table ((actor, spawn events), (terminate events, expected)), or a typed lookup returned a wrongly typed reference ((name, 997), _)",
                          "correspondence E1:reg pid lifecycle subscriber differs\n" + json.dumps({"ops": ops}) + "\n" + show_term(it[3]),
                          failing_input=False)
        chk.count("source." + src.split(":")[0])
        for o in ops:
            chk.count("op." + o[0] + ("." + o[3] if o[0] == "sp" else ""))
        kinds = {o[1]: o[3] for o in ops if o[0] == "sp"}
        if any(k.startswith("tl") for k in kinds.values()):
            chk.count("history.with_thread_local_spawn")
        for a, r in zip(sorted(kinds), i_res):
            if str(r) == "AlreadyRegistered":
                chk.count("rejected_spawn." + ("thread_local" if kinds[a].startswith("tl") else "send"))
        if any(o[0] == "ldrain" for o in ops):
            chk.count("history.with_late_drain")
        for r in i_res:
            chk.count("spawn_result." + str(r))
        for e in i_hist:
            if e[0] == "EWhere":
                chk.count("where_is." + ("None" if e[2] == "None" else str(e[2][1][2])))
        if any(o[0] == "sp" and o[2] is not None for o in ops):
            distinct.add(json.dumps(ops))
        desc = json.dumps({"ops": ops, "harness_line": t["line"], "model_actors": t["acts"], "model_labels": t["labels"],
                           "impl_history": show_term(i_hist), "impl_spawn_results": show_term(i_res),
                           "model_history": show_term(m_hist), "expected_spawn_results": exp_res}, indent=1)
        if oracle != "true":
            found.append((len(ops), True, "the name/pid registry history violates C10",
                          "C10 oracle check_C10 rejects the implementation's history (two holders of a name, a failing "
                          "spawn of a free name, a lookup that misses a live holder, or one that returns an actor whose "
                          "wait() had returned)\n" + desc))
        elif i_hist != m_hist or [str(x) for x in i_res] != exp_res:
            chk.coverage["disagreements_checked"] += 1
            first = next((j for j, (x, y) in enumerate(zip(i_hist, m_hist)) if x != y), min(len(i_hist), len(m_hist)))
            found.append((len(ops), False, "model/implementation disagree (registry history)",
                          f"correspondence E1:eng_reg history differs at event #{first} (or spawn results differ); "
                          "the oracle accepts the implementation's history\n" + desc))
        if len(chk.coverage["samples"]) < 3 and src == "random" and len(ops) >= 12:
            chk.coverage["samples"].append(json.loads(desc))
    base = len(hists)
    for j, tup in enumerate(race_rounds):
        chk.coverage["evaluations"] += 1
        chk.count(f"race{race_mode[j]}.k={tup[1]}")
        if model_t[base + j] != "true":
            found.append((10**6, True, "concurrent same-name spawns from OS threads: not exactly one winner"
                          + (" (every odd thread spawning through the thread-local API)" if race_mode[j] else ""),
                          "C10 oracle check_race rejects (k, ok, already_registered, other, where_is = winner, "
                          "name free and registrable after the winner's wait): " + show_term(tup) + "\n"
                          + json.dumps({"ops": [], "race": show_term(tup), "harness_line": f"race{race_mode[j]} {tup[1]} 1"})))
    base += len(race_rounds)
    for j, tup in enumerate(hammer_out):
        chk.coverage["evaluations"] += 1
        chk.coverage.setdefault("hammer", []).append(show_term(tup))
        if model_t[base + j] != "true":
            found.append((10**6 + 1, True, "threads hammering a few names: a live holder was not found / a waited actor was found"
                          + (" (every odd thread spawning through the thread-local API)" if hammers[j][3] else ""),
                          "C10 oracle check_hammer rejects (spawn_ok, already_registered, live_holder_not_found, "
                          "found_after_wait, other): " + show_term(tup) + "\n" + json.dumps({"ops": [], "hammer": show_term(tup)})))
    for ops, t, it, mt in zip(thr_ops, ttr, thr_impl, thr_model):
        chk.coverage["evaluations"] += 1
        for o in ops:
            chk.count("thr.op." + o[0] + ("." + str(o[-1]) if o[0] in ("tsp", "tstop") else ""))
        distinct.add("thr" + json.dumps(ops))
        m_hist, oracle = mt[1], mt[2]
        desc = json.dumps({"thread_ops": ops, "harness_line": t["line"], "model_actors": t["acts"], "model_labels": t["labels"],
                           "impl_history": show_term(it[1]), "impl_spawn_results": show_term(it[2]),
                           "model_history": show_term(m_hist), "expected_spawn_results": t["expected"]}, indent=1)
        if oracle != "true":
            found.append((len(ops), True, "controlled threads: the registry history violates C10",
                          "C10 oracle check_C10 rejects the implementation's history under a controlled thread schedule "
                          "(hook points)\n" + desc))
        elif it[1] != m_hist or [str(x) for x in it[2]] != t["expected"]:
            chk.coverage["disagreements_checked"] += 1
            found.append((len(ops), False, "model/implementation disagree (registry history, controlled threads)",
                          "correspondence E2:eng_reg thr history differs (a planned hook point not reached or a micro-step "
                          "reordered); the oracle accepts\n" + desc))
    chk.coverage["thread_schedules"] = len(thr_ops)
    # deterministic histories first (shortest first), then the uncontrolled thread engines
    found.sort(key=lambda x: x[0])
    for _, fi, what, payload in found[:40]:
        chk.violation(what, payload, failing_input=fi)
    chk.coverage["failing_cases"] = sum(1 for f in found if f[1])
    chk.coverage["disagreeing_cases"] = sum(1 for f in found if not f[1])
    chk.coverage["traces_validated_against_impl"] = len(hists) + len(thr_ops)
    chk.coverage["distinct_nontrivial"] = len(distinct)
    chk.coverage["corpus_scenarios"] = n_corpus
    chk.coverage["race_rounds"] = len(race_rounds)
    chk.coverage["rule"] = ("directed families + random histories of named/anonymous/remote-id spawns through the Send and the "
                            "thread-local API (ok, failing pre_start, parked pre_start), go/stop/kill/err/panic/drain, late "
                            "drain() on an actor already stopping, release-post_stop/wait/where_is/where_is_pid over <= 3 names; "
                            "non-trivial = at least one named spawn; distinct = distinct op lists. plus OS-thread races of "
                            "k in {2,3,4,8,16} same-name spawns (and mixed Send/thread-local ones) and three hammer runs")
    for f in chk.known_findings.get("fixed", []):
        if f.get("property") == "C10":
            chk.notes.append(f"fixed finding {f.get('id')} (commit {f.get('commit')}): {f.get('what')} — regression history in corpus/C10")
    return chk.finish(trusted_base=TRUSTED)


def show_hist(h):
    """re-print the implementation's history for Coq (N literals for names)"""
    out = []
    for e in h:
        if e[0] == "ESpawn":
            nm = "None" if e[2] == "None" else f"(Some {e[2][1]}%N)"
            out.append(f"ESpawn {e[1]} {nm} {e[3]} {e[4]}")
        elif e[0] == "EWhere":
            r = "None" if e[2] == "None" else f"(Some ({e[2][1][1]}, {e[2][1][2]}))"
            out.append(f"EWhere {e[1]}%N {r}")
        elif e[0] == "EWherePid":
            r = "None" if e[2] == "None" else f"(Some {e[2][1]})"
            out.append(f"EWherePid {e[1]} {r}")
        else:
            out.append(f"{e[0]} {e[1]}")
    return "[" + "; ".join(out) + "]"


TRUSTED = [
    "Coq 8.16.1 kernel (coqc); vm_compute used for evaluating the model on histories and for Examples",
    "no axioms: every property theorem prints 'Closed under the global context'",
    "DashMap entry/remove/get operations are atomic per key (modelled as one step each)",
    "that a wait() returns only after status Stopped is C06's theorem; the model's LWaitRet is enabled only then",
    "hand-written model coq/Registry/Model.v tied to ractor/src/registry.rs, registry/pid_registry.rs, "
    "actor/actor_cell.rs by deterministic E1 histories and OS-thread races (this check)",
    "hook points ractor/src/actor/verif.rs (cfg slawlor_ractor_verif): new.after_name, status.after_publish, "
    "cleanup.after_pid — used by the controlled-thread engine",
    "Rust harness eng_reg, lib/c10.py translation of operations to model labels, lib/common.py term parser",
    "thread-local actors are modelled as ordinary local actors (ActorCell::new_thread_local = name then pid enrolment); "
    "the harness waits for their lifecycle steps on the spawner's OS thread by observing state (start outcome, "
    "post_stop entered, JoinHandle completed), never by a time-out",
]
