"""C16 — output ports fan out in order without duplicates (DESIGN.md section 4/C16).

E1 (deterministic executor): the REAL OutputPort, both feature builds, is driven by
scenarios (publish / subscribe / settle / stop / gate operations, converters that drop
some messages, handlers that fail on a given item).  Per subscription the sequence the
receiver's handler saw is compared with the Coq models (OutPort/V1.v with the measured
ring size, OutPort/V2.v) run under the canonical scheduler, and the executable oracle
`check_C16` (the property itself, independent of the models) is evaluated inside Coq on
the implementation's sequences."""
import glob
import itertools
import json

from common import *

IMPORTS = "OutPort.Spec OutPort.Harness"
CONV_ALL = (1, 0, 1, 0)


# ---------------------------------------------------------------- scenario syntax
def op_line(o):
    return " ".join(str(x) for x in o)


def sc_line(sc):
    p = " ".join(f"{a}:{r}" for a, r in sc["poison"]) or "-"
    return p + " | " + " ; ".join(op_line(o) for o in sc["ops"])


def parse_line(line):
    p, ops = line.split("|", 1)
    poison = [tuple(int(x) for x in w.split(":")) for w in p.split() if w != "-"]
    out = []
    for o in ops.split(";"):
        w = o.split()
        if w:
            out.append(tuple([w[0]] + [int(x) for x in w[1:]]))
    return {"poison": poison, "ops": out}


def op_term(o):
    k = o[0]
    if k == "P":
        return f"[OPub {o[1]}]"
    if k == "B":
        return f"burst {o[1]} {o[2]}%nat"
    if k == "S":
        return f"[OSub {o[1]} (mkC {o[2]} {o[3]} {o[4]} {o[5]})]"
    if k == "T":
        return "[OSettle]"
    if k == "K":
        return f"[OKill {o[1]}]"
    if k == "H":
        return f"[OHold {o[1]}]"
    if k == "G":
        return f"[OGive {o[1]} {o[2]}%nat]"
    if k == "O":
        return f"[OOpen {o[1]}]"
    if k == "R":
        return f"[OStart {o[1]}]"
    if k == "RF":
        return f"[OFailStart {o[1]}]"
    if k == "ST":
        return f"[OSub {o[1]} (mkC 1 0 1 0)]"
    if k == "D":
        return "[ODrop]"
    if k == "SS":
        return f"[OSub {o[1]} (mkC {o[2]} {o[3]} {o[4]} {o[5]}); OSettle]"
    raise ValueError(o)


def running_from_start(sc):
    """receivers the harness spawns and lets reach Running before the first operation: every
    actor mentioned that has no R / RF / SS operation (those start parked in pre_start)"""
    late = {o[1] for o in sc["ops"] if o[0] in ("R", "RF", "SS")}
    seen = []
    for o in sc["ops"]:
        if o[0] in ("S", "ST", "K", "H", "G", "O") and o[1] not in late and o[1] not in seen:
            seen.append(o[1])
    return seen


def sc_term(sc):
    p = "[" + "; ".join(f"({a}, {r})" for a, r in sc["poison"]) + "]"
    pre = [f"[OStart {a}]" for a in running_from_start(sc)]
    ops = "[" + "; ".join(pre + [op_term(o) for o in sc["ops"]]) + "]"
    return f"(mkScen {p} (List.concat {ops}))"


def n_pubs(sc):
    return sum(1 if o[0] == "P" else o[2] if o[0] == "B" else 0 for o in sc["ops"])


# ---------------------------------------------------------------- generators
def renumber(ops):
    """give publishes fresh increasing sequence numbers (symbolic ops 'p' / ('b', n))"""
    out, seq = [], 0
    for o in ops:
        if o == "p":
            out.append(("P", seq))
            seq += 1
        elif isinstance(o, tuple) and o[0] == "b":
            out.append(("B", seq, o[1]))
            seq += o[1]
        else:
            out.append(o)
    return out


def gen_exhaustive(cap, maxlen):
    """every sequence of length <= maxlen over a small alphabet, then a settle.
    actor 0 may be subscribed twice (no gate, no poison); actor 1 at most once and gated."""
    big = ("b", cap + 2)
    alpha = ["p", big, ("S", 0) + CONV_ALL, ("S", 1, 2, 0, 1, 0), ("T",), ("K", 0), ("H", 1), ("G", 1, 1)]
    cases = []
    for n in range(1, maxlen + 1):
        for seq in itertools.product(alpha, repeat=n):
            if sum(1 for o in seq if o[:2] == ("S", 1)) > 1:
                continue
            if not any(o[0] == "S" for o in seq if isinstance(o, tuple)):
                continue
            cases.append({"poison": [], "ops": renumber(list(seq) + [("T",)]), "kind": "exh"})
    return cases


def gen_exhaustive_starting(cap, maxlen):
    """subscribers that are subscribed before they are Running: actor 2 is spawned with
    spawn_instant and parked in pre_start (subscribed from the driver), actor 3 subscribes itself
    from inside pre_start; R/RF let a parked pre_start succeed/fail."""
    big = ("b", cap + 2)
    alpha = ["p", big, ("S", 2) + CONV_ALL, ("SS", 3, 2, 0, 1, 0), ("R", 2), ("R", 3), ("RF", 2), ("T",), ("K", 2)]
    cases = []
    for n in range(1, maxlen + 1):
        for seq in itertools.product(alpha, repeat=n):
            tup = [o for o in seq if isinstance(o, tuple)]
            if sum(1 for o in tup if o[0] == "SS") > 1:
                continue
            if not any(o[0] in ("S", "SS") for o in tup):
                continue
            # R/RF at most once per actor, R 3 only after SS 3
            bad = False
            done = set()
            spawned3 = False
            for o in tup:
                if o[0] == "SS":
                    spawned3 = True
                if o[0] in ("R", "RF"):
                    if o[1] in done or (o[1] == 3 and not spawned3):
                        bad = True
                    done.add(o[1])
            if bad:
                continue
            ops = list(seq) + [("T",)]
            if not any(o[0] in ("R", "RF") and o[1] == 2 for o in tup):
                # actor 2 is of the parked kind in every case of this family
                ops = ops + [("R", 2)]
            cases.append({"poison": [], "ops": renumber(ops), "kind": "exh.starting"})
    return cases


def gen_exhaustive_drop(cap, maxlen):
    """the port is dropped: D at most once, nothing is published / subscribed after it. Covers a
    burst followed by the drop with no settle in between, with forwarders that already ran."""
    big = ("b", cap + 2)
    alpha = ["p", big, ("S", 0) + CONV_ALL, ("S", 1, 2, 0, 1, 0), ("T",), ("D",), ("K", 0)]
    cases = []
    for n in range(2, maxlen + 1):
        for seq in itertools.product(alpha, repeat=n):
            if sum(1 for o in seq if o == ("D",)) != 1:
                continue
            d = seq.index(("D",))
            if any(o == "p" or o == big or o[0] == "S" for o in seq[d + 1:]):
                continue
            if not any(isinstance(o, tuple) and o[0] == "S" for o in seq[:d]):
                continue
            cases.append({"poison": [], "ops": renumber(list(seq) + [("T",)]), "kind": "exh.drop"})
    return cases


def gen_exhaustive_churn(n):
    """exactly n operations over {publish, subscribe a0, subscribe a1, subscribe a1 through the
    OutputPortSubscriber trait (once), stop a0, settle}: subscriber
    churn inside one batch (a subscriber found dead while a later subscription is queued behind it)"""
    alpha = ["p", ("S", 0) + CONV_ALL, ("S", 1) + CONV_ALL, ("ST", 1), ("K", 0), ("T",)]
    cases = []
    for seq in itertools.product(alpha, repeat=n):
        if not any(isinstance(o, tuple) and o[0] in ("S", "ST") for o in seq) or "p" not in seq:
            continue
        if sum(1 for o in seq if o == ("ST", 1)) > 1:
            continue
        cases.append({"poison": [], "ops": renumber(list(seq) + [("T",)]), "kind": "exh.churn"})
    return cases


def gen_random(rng, cap, n):
    cases = []
    sizes = [1, 1, 2, 3, 5, max(1, cap - 1), cap, cap + 1, cap + 1, cap + 5, 2 * cap + 3, 40]
    for _ in range(n):
        n_act = rng.choice([1, 2, 3, 4])
        multi = {a for a in range(n_act) if rng.random() < 0.4}   # may be subscribed repeatedly
        # start-up kind: 'run' Running before the first operation; 'park' spawn_instant, parked in
        # pre_start until R/RF; 'self' spawned by its first subscription, which it makes itself
        kind = {a: rng.choice(["run", "run", "run", "park", "park", "self"]) for a in range(n_act)}
        unstarted = {a for a in range(n_act) if kind[a] == "park"}   # spawned, still Starting
        unspawned = {a for a in range(n_act) if kind[a] == "self"}
        subscribed = set()
        trait_subscribed = set()
        convs = {}
        ops = []
        L = rng.choice([6, 10, 16, 24, 40])
        style = rng.choice(["mixed", "mixed", "bursty", "churn", "gated"])
        for _ in range(L):
            r = rng.random()
            if not subscribed or r < (0.30 if style == "churn" else 0.15):
                cands = [a for a in range(n_act) if a in multi or a not in subscribed]
                if cands:
                    a = rng.choice(cands)
                    md = rng.choice([1, 1, 1, 2, 2, 3, 0])
                    conv = (md, rng.randrange(md) if md else 0, rng.choice([1, 1, 2]), rng.choice([0, 0, 7]))
                    subscribed.add(a)
                    convs.setdefault(a, []).append(conv)
                    if a in unspawned:
                        unspawned.discard(a)
                        unstarted.add(a)
                        ops.append(("SS", a) + conv)
                    elif a not in trait_subscribed and rng.random() < 0.15:
                        # through OutputPortSubscriberTrait (From<u64>): converter is k -> Some(k)
                        trait_subscribed.add(a)
                        convs[a][-1] = CONV_ALL
                        ops.append(("ST", a))
                    else:
                        ops.append(("S", a) + conv)
                    continue
            if unstarted and rng.random() < 0.12:
                a = rng.choice(sorted(unstarted))
                unstarted.discard(a)
                ops.append(("R", a) if rng.random() < 0.8 else ("RF", a))
                continue
            if r < 0.55:
                if style == "bursty" or rng.random() < 0.35:
                    ops.append(("b", rng.choice(sizes)))
                else:
                    ops.append("p")
            elif r < 0.75:
                ops.append(("T",))
            elif r < (0.88 if style in ("churn", "mixed") else 0.80):
                live = [a for a in range(n_act) if a not in unspawned]
                ops.append(("K", rng.choice(live)) if live else "p")
            else:
                single = [a for a in range(n_act) if a not in multi]
                if single and (style == "gated" or rng.random() < 0.5):
                    a = rng.choice(single)
                    k = rng.random()
                    ops.append(("H", a) if k < 0.4 else ("G", a, rng.choice([1, 1, 2, 5])) if k < 0.8 else ("O", a))
                else:
                    ops.append("p")
        if rng.random() < 0.3:
            for a in range(n_act):
                if a not in multi:
                    ops.append(("O", a))
        for a in sorted(unstarted):
            if rng.random() < 0.7:
                ops.append(("R", a))
        # an actor of the parked kind needs an R/RF op for the harness to spawn it that way
        for a in range(n_act):
            if kind[a] == "park" and not any(o[0] in ("R", "RF") and o[1] == a for o in ops if isinstance(o, tuple)):
                ops.append(("R", a))
        if rng.random() < 0.25 and len(ops) > 2:
            # drop the port somewhere (often right after a publish, no settle in between);
            # nothing is published or subscribed afterwards
            pubs_at = [i for i, o in enumerate(ops) if o == "p" or (isinstance(o, tuple) and o[0] == "b")]
            d = (rng.choice(pubs_at) + 1) if pubs_at and rng.random() < 0.7 else rng.randrange(1, len(ops))
            rest = [o for o in ops[d:] if not (o == "p" or (isinstance(o, tuple) and o[0] in ("b", "S", "SS", "ST")))]
            # a self-subscribing actor that was never spawned must not be referenced later
            spawned = {o[1] for o in ops[:d] if isinstance(o, tuple) and o[0] == "SS"}
            never = {a for a in range(n_act) if kind[a] == "self" and a not in spawned}
            rest = [o for o in rest if not (isinstance(o, tuple) and len(o) > 1 and o[1] in never)]
            ops = ops[:d] + [("D",)] + rest
        ops.append(("T",))
        ops = renumber(ops)
        total = n_pubs({"ops": ops})
        poison = []
        for a in range(n_act):
            if a not in multi and a in convs and total and rng.random() < 0.3:
                md, rs, mul, add = convs[a][0]
                k = rng.randrange(total)
                if md and k % md != rs:
                    k = k - (k % md) + rs
                poison.append((a, k * mul + add))
        if rng.random() < 0.08:
            # repeated payloads: the model comparison stays exact, the oracle's no-dup clause is off
            ops = [("P", o[1] % 3) if o[0] == "P" else o for o in ops]
            poison = []
        cases.append({"poison": poison, "ops": ops, "kind": "rnd." + style})
    return cases


def load_corpus():
    cases = []
    for p in sorted(glob.glob(os.path.join(ROOT, "corpus", "C16", "*.txt"))):
        for line in open(p):
            line = line.strip()
            if line and not line.startswith("#"):
                sc = parse_line(line)
                sc["kind"] = "corpus"
                cases.append(sc)
    return cases


# ---------------------------------------------------------------- the check
def build_or_report(chk, features):
    build = cargo_build(["eng_outport"], features=features)
    if build["ok"]:
        return build
    ok, log = repo_builds_without_hooks()
    if not ok:
        return infrastructure_failure(chk.prop, "/repo does not compile even without hooks:\n" + log[-1500:])
    chk.violation("harness no longer builds against /repo" + (" (" + ",".join(features) + ")" if features else ""),
                  "correspondence E1:eng_outport cannot be built against the current tree\n" + build["log"][-3000:],
                  failing_input=False)
    return None


def measure_cap(build, args=""):
    """ring size of the port, or None when the publisher never came back from a burst (watchdog)"""
    rc, out = sh(os.path.join(build["dir"], "eng_outport") + " --cap " + args, timeout=900)
    if rc != 0:
        raise RuntimeError("eng_outport --cap failed:\n" + out[-2000:])
    last = out.strip().split("\n")[-1]
    if last.startswith("blocked"):
        return None, int(last.split()[1])
    return int(last), None


def gen_big_bursts(rng, quick=True):
    """publisher publishes far more than any internal bound (1500, 5000) without yielding: publishing
    never blocks, the default port delivers the last ring-full, the v2 port everything"""
    cases = [
        [("S", 0) + CONV_ALL, ("T",), ("b", 1500), ("T",)],
        [("S", 0, 2, 0, 1, 0), ("b", 5000), ("T",), "p", ("T",)],
        [("b", 1500), ("S", 0) + CONV_ALL, ("b", 1100), ("S", 1, 3, 1, 1, 0), "p", ("T",)],
        [("S", 0) + CONV_ALL, ("S", 1, 2, 1, 1, 0), ("T",), ("K", 0), ("b", 1500), ("T",), ("b", 3), ("T",)],
        [("SS", 0) + CONV_ALL, ("b", 1200), ("R", 0), ("b", 1030), ("D",), ("T",)],
    ]
    n = rng.choice([1025, 1300, 2049])
    cases.append([("S", 0) + CONV_ALL, ("ST", 1), ("b", n), ("T",), ("b", n), ("T",)])
    if quick:
        cases = [cases[0], cases[1], cases[4]]
    return [{"poison": [], "ops": renumber(c), "kind": "big_burst"} for c in cases]


def run(chk):
    quick = chk.tier == "quick"
    ok_proofs = chk.proofs()
    factor = 1 if ok_proofs else 3
    b1 = build_or_report(chk, ())
    if isinstance(b1, int):
        return b1
    b2 = build_or_report(chk, ("output-port-v2",))
    if isinstance(b2, int):
        return b2
    if b1 is None or b2 is None:
        return chk.finish(trusted_base=TRUSTED)

    blocked_cfg = {}
    caps = {}
    for name, build, args in (("default", b1, ""), ("output-port-v2", b2, ""),
                              ("output-port-v2, allow_duplicate_subscription=false", b2, "--nodup")):
        c_, blk = measure_cap(build, args)
        caps[name] = c_
        if blk is not None:
            blocked_cfg[name] = blk
            chk.violation(f"{name} port: the publisher never returned from a burst of {blk} publishes",
                          "C16 publishing never blocks the publisher (C16_v1_publish_nonblocking / C16_v2_publish_nonblocking): "
                          "the driver did not come back within the watchdog bound\n"
                          f"build: {name}\nharness line (eng_outport stdin): - | S 0 1 0 1 0 ; T ; B 0 {blk} ; T\n"
                          "implementation: Blocked\n")
    cap1 = caps["default"] or 0
    cap2 = caps["output-port-v2"] or 0
    chk.notes.append(f"measured ring size: default port {caps['default']}, v2 port {caps['output-port-v2']} "
                     "(0 = nothing skipped in a burst of 4096; None = publisher blocked)")
    if cap2 != 0:
        chk.violation("v2 port skipped messages of a burst into a parked subscriber",
                      f"C16: v2 build: a single subscriber received only {cap2} of 4096 back-to-back publishes\n"
                      "harness line: - | S 0 1 0 1 0 ; T ; B 0 4096 ; T\n")
    cap = cap1 if cap1 else 1000000   # a default port that skips nothing still satisfies the property
    gen_cap = cap1 if 0 < cap1 <= 64 else 16

    cases = load_corpus()
    cases += gen_big_bursts(chk.rng, quick)
    cases += gen_exhaustive(gen_cap, 4 if quick else 5)
    cases += gen_exhaustive_starting(gen_cap, 4 if quick else 5)
    cases += gen_exhaustive_drop(gen_cap, 5 if quick else 6)
    cases += gen_exhaustive_churn(5 if quick else 6)
    cases += gen_random(chk.rng, gen_cap, (1000 if quick else 20000) * factor)
    lines = [sc_line(c) for c in cases]
    impl1 = run_harness(b1, "eng_outport", lines, shards=8)
    impl2 = run_harness(b2, "eng_outport", lines, shards=8)
    # v2 port created with allow_duplicate_subscription = false (cfg-gated hook constructor)
    impl3 = run_harness(b2, "eng_outport", lines, shards=8, args="--nodup")

    def split_calls(lines_):
        res, calls = [], []
        for l in lines_:
            if " # " in l:
                r, k = l.split(" # ", 1)
            else:
                r, k = l, None          # Blocked / Panicked
            res.append(r)
            calls.append(k)
        return res, calls

    impl1, calls1 = split_calls(impl1)
    impl2, calls2 = split_calls(impl2)
    impl3, calls3 = split_calls(impl3)

    def obs(i):
        return "Blocked" if i in ("Blocked", "Panicked") else f"(Done {i})"

    def okc(k):
        return "true" if k is None else f"check_C16_calls sc {k}"

    exprs = []
    for c, i1, i2, i3, k1, k2, k3 in zip(cases, impl1, impl2, impl3, calls1, calls2, calls3):
        t = sc_term(c)
        exprs.append(f"let sc := {t} in let b1 := X1.both {cap}%nat sc in let b2 := X2.both true sc in "
                     f"let b3 := X2.both false sc in let m1 := fst b1 in let m2 := fst b2 in let m3 := fst b3 in "
                     f"(m1, check_C16_obs false false {cap}%nat sc {obs(i1)}, check_C16 false {cap}%nat sc m1, "
                     f"m2, check_C16_obs true false {cap}%nat sc {obs(i2)}, check_C16 true {cap}%nat sc m2, "
                     f"m3, check_C16_obs true true {cap}%nat sc {obs(i3)}, check_C16_nodup {cap}%nat sc m3, "
                     f"(snd b1, {okc(k1)}), (snd b2, {okc(k2)}), (snd b3, {okc(k3)}))")
    model = coq_eval("C16", IMPORTS, exprs)

    distinct = set()
    lagged = 0
    for c, i1, i2, i3, k1, k2, k3, mv in zip(cases, impl1, impl2, impl3, calls1, calls2, calls3, model):
        t = parse_term(mv)
        m1, o1, om1, m2, o2, om2, m3, o3, om3, cc1, cc2, cc3 = t[1:]
        chk.coverage["evaluations"] += 3
        chk.count("kind." + c["kind"])
        for o in c["ops"]:
            chk.count("op." + o[0])
        if c["poison"]:
            chk.count("with_poison")
        if any(o[0] == "D" for o in c["ops"]):
            chk.count("with_port_dropped")
        if any(o[0] in ("R", "RF", "SS") for o in c["ops"]):
            chk.count("with_subscriber_subscribed_before_Running")
        line = sc_line(c)
        nontrivial = any(len(x) > 0 for x in m2)
        if nontrivial:
            distinct.add(line)
        if m1 != m2:
            lagged += 1
        if m3 != m2:
            chk.count("cases_where_a_subscription_was_replaced")
        # converter invocations: sids whose count is causally determined (no failing handler on the
        # receiver, converter is a harness closure)
        sub_ops = [o for o in c["ops"] if o[0] in ("S", "SS", "ST")]
        poisoned = {a for a, _ in c["poison"]}
        judged = [j for j, o in enumerate(sub_ops) if o[0] != "ST" and o[1] not in poisoned]
        for ver, kk, cc in (("default", k1, cc1), ("output-port-v2", k2, cc2),
                            ("output-port-v2, allow_duplicate_subscription=false", k3, cc3)):
            if kk is None:
                continue
            mcount, korc = cc[1], cc[2]
            kv = parse_term(kk)
            cdesc = (f"build: {ver}\nharness line (eng_outport stdin): {line}\ncoq scenario: {sc_term(c)}\n"
                     f"implementation, converter inputs per subscription: {kk[:3000]}\n"
                     f"model, converter invocations per subscription: {show_term(mcount)}\n")
            if korc != "true":
                chk.violation(f"{ver} port: a stopped subscriber is not dropped (its converter keeps running)",
                              "C16 oracle check_C16_calls rejects the converter invocations: after the receiver has stopped "
                              "at most one further message may reach the converter's Some branch (dead subscriber inert)\n" + cdesc)
            elif any(len(kv[j]) != mcount[j] for j in judged if j < len(kv) and j < len(mcount)):
                chk.coverage["disagreements_checked"] += 1
                chk.violation(f"model/implementation disagree on converter invocations ({ver} port)",
                              "correspondence E1:outport converter invocation counts differ (oracle accepts)\n" + cdesc,
                              failing_input=False)
        for ver, impl, mres, orc, orc_m in (("default", i1, m1, o1, om1), ("output-port-v2", i2, m2, o2, om2),
                                            ("output-port-v2, allow_duplicate_subscription=false", i3, m3, o3, om3)):
            if impl in ("Blocked", "Panicked"):
                what = ("the driver never came back from a publish/subscribe call (watchdog)" if impl == "Blocked"
                        else "the scenario thread panicked inside the library")
                chk.violation(f"{ver} port: {what}",
                              "C16 oracle check_C16_obs rejects the observation: publishing never blocks the publisher "
                              "(C16_v1_publish_nonblocking / C16_v2_publish_nonblocking)\n"
                              f"build: {ver}\nharness line (eng_outport stdin): {line}\ncoq scenario: {sc_term(c)}\n"
                              f"implementation: {impl}\nmodel, received per subscription: {show_term(mres)[:2000]}\n")
                continue
            iv = parse_term(impl)
            desc = (f"build: {ver}   ring size passed to the model: {cap}\n"
                    f"harness line (eng_outport stdin): {line}\n"
                    f"coq scenario: {sc_term(c)}\n"
                    f"implementation, received per subscription: {impl}\n"
                    f"model,          received per subscription: {show_term(mres)}\n")
            if orc != "true":
                chk.violation(f"{ver} port: a subscriber's sequence violates order/no-duplicate/completeness",
                              "C16 oracle check_C16 rejects the implementation's per-subscription sequences\n" + desc)
            elif iv != mres:
                chk.coverage["disagreements_checked"] += 1
                chk.violation(f"model/implementation disagree ({ver} port)",
                              "correspondence E1:outport differs (oracle accepts)\n" + desc, failing_input=False)
            if orc_m != "true":
                chk.violation(f"oracle rejects the model's own run ({ver})",
                              "internal: check_C16 rejects the model run\n" + desc, failing_input=False)
        if len(chk.coverage["samples"]) < 4 and c["kind"].startswith("rnd") and m1 != m2 and len(line) < 400:
            chk.coverage["samples"].append({"line": line, "impl_default": impl1[cases.index(c)],
                                            "model_default": show_term(m1), "impl_v2": i2,
                                            "model_v2": show_term(m2)})
    chk.count("cases_where_default_port_lagged", lagged)
    chk.coverage["traces_validated_against_impl"] = 3 * len(cases)
    chk.coverage["distinct_nontrivial"] = len(distinct)
    chk.coverage["rule"] = ("exhaustive: all operation sequences of length <= %d over {publish, burst of ring+2, subscribe a0, "
                            "subscribe a1 (even only), settle, stop a0, hold a1, give a1 1} followed by a settle, and the same lengths over "
                            "{publish, burst, subscribe parked a2, self-subscribing a3, start a2, start a3, fail start a2, settle, stop a2}, and length <= 5 over {publish, burst, subscribe a0, subscribe a1, settle, drop the port (once, nothing published after), stop a0}, and exactly 5 operations over {publish, subscribe a0, subscribe a1, stop a0, settle}; random: seeded "
                            "scenarios of 6-40 operations over up to 4 receivers (re-subscription, bursts around the ring size, "
                            "stops, gated handlers, failing handlers, dropping converters, receivers that are still Starting when subscribed / that subscribe from pre_start / whose pre_start fails, the port dropped right after a burst, subscription through the OutputPortSubscriber trait, bursts of 1025-5000 publishes without a settle); every case on the default build, the v2 build and the v2 build with allow_duplicate_subscription=false (hook constructor). "
                            "non-trivial = some subscription receives at least one item; distinct = distinct scenario lines"
                            % (4 if quick else 5))
    chk.coverage["exhaustive_part"] = "operation sequences of length <= %d over an 8-letter alphabet" % (4 if quick else 5)
    return chk.finish(trusted_base=TRUSTED)


TRUSTED = [
    "Coq 8.16.1 kernel (coqc); vm_compute used for evaluating the models/oracle on cases and for Examples",
    "no axioms: every property theorem prints 'Closed under the global context'",
    "hand-written models coq/OutPort/V1.v, V2.v tied to ractor/src/port/output.rs by differential runs (this check), both feature builds",
    "tokio broadcast/mpsc and the ractor actor loop are not modelled beyond: ring of `cap` items with Lagged skip-ahead "
    "(cap measured on the real port each run), FIFO mailbox, cast fails once the actor has terminated",
    "deterministic executor: tokio current_thread runtime with paused clock; sleep(1ns) as quiescence barrier",
    "Rust harness eng_outport (public API; one cfg-gated hook: v2 constructor with allow_duplicate_subscription=false), lib/common.py term parser and comparison",
]
