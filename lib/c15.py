"""C15 — Factory capacity controls: limits, rate, pool size, draining (DESIGN.md section 4/C15).

Part 1 (E3): the leaky bucket of ractor/src/factory/ratelim.rs, real LeakyBucketRateLimiter on
tokio's paused clock vs. the Coq model Ratelim/Model.v; oracle check_C15_bucket (window bound,
cap, zero interval, unrepresentable deadline) evaluated inside Coq on the implementation's trace.
Part 2 (E1): the real Factory under a deterministic schedule, see c15_factory.py.
"""
import itertools
import json

from common import *
import c15_factory

USIZE_MAX = 2**64 - 1
NS = 10**9
# Instants are relative to the creation of the virtual clock.  std's Instant overflows when its
# seconds exceed i64::MAX; the absolute origin (uptime) is unknown but far below 2^32 s, so the
# model's bound is put in the gap and cases that come near the gap are not generated.
IMAX_S = 2**63 - 2**32
IMAX = IMAX_S * NS + (NS - 1)
AMBIG_LO_S = 2**63 - 2**33
DUR_MAX = (2**64 - 1) * NS + 999_999_999

BUCKET_IMPORTS = "Ratelim.Model"


def split_dur(ns):
    return f"{ns // NS}:{ns % NS}"


class Ambiguous(Exception):
    pass


def py_bucket(c, ops):
    """Python port of the model, used ONLY to discard cases that come near the unknown
    absolute-clock boundary and to count what a case exercises (never for the verdict)."""
    def cadd(t, d):
        s = (t + d) // NS
        if AMBIG_LO_S <= s < 2**63:
            raise Ambiguous()
        return t + d if s < AMBIG_LO_S else None
    maxb = c["maxb"]
    bal = min(c["initial"] if c["initial"] is not None else maxb, maxb)
    dl = cadd(0, c["interval"])
    now = 0
    stats = {"refills": 0, "rejects": 0, "admits": 0, "lost_deadline": dl is None, "clamped": 0}
    I = c["interval"]
    for o in ops:
        if o[0] == "a":
            now += o[1]
            if now // NS >= AMBIG_LO_S:
                raise Ambiguous()
        elif o[0] == "c":
            if dl is not None and now >= dl:
                if I == 0:
                    nb = min(min(bal + c["refill"], USIZE_MAX), maxb)
                    dl = now
                else:
                    since = now - dl
                    periods = min(since // I + 1, USIZE_MAX)
                    raw = periods * c["refill"]
                    tokens = min(min(raw, USIZE_MAX), USIZE_MAX // 2)
                    if tokens != raw or bal + tokens > USIZE_MAX:
                        stats["clamped"] += 1
                    rem = since % I
                    dl = cadd(now, I - rem)
                    if dl is None:
                        stats["lost_deadline"] = True
                    nb = min(min(bal + tokens, USIZE_MAX), maxb)
                if nb > bal:
                    stats["refills"] += 1
                bal = nb
            if bal == 0:
                stats["rejects"] += 1
        else:
            if bal > 0:
                bal -= 1
                stats["admits"] += 1
    return stats


def gen_bucket_random(rng):
    style = rng.choice(["zero", "tiny", "tiny", "subms", "ms", "ms", "secs", "huge61", "huge62", "never", "durmax"])
    if style == "zero":
        I = 0
    elif style == "tiny":
        I = rng.randint(1, 10)
    elif style == "subms":
        I = rng.choice([500_000, 999_999, 1_250, 333])
    elif style == "ms":
        I = rng.randint(1, 2000) * 1_000_000 + rng.choice([0, 0, 1, 999_999])
    elif style == "secs":
        I = rng.randint(1, 5000) * NS + rng.choice([0, 1, 999_999_999, 123_456_789])
    elif style == "huge61":
        I = 2**61 * NS + rng.choice([0, 7, 999_999_999])
    elif style == "huge62":
        I = 2**62 * NS + rng.choice([0, 5])
    elif style == "never":
        I = rng.choice([2**63, 2**63 + 12345, 2**64 - 1]) * NS + rng.choice([0, 1])
    else:
        I = DUR_MAX
    refill = rng.choice([0, 1, 1, 1, 2, 3, 7, 1000, 2**31, 2**63 - 1, 2**63, USIZE_MAX])
    maxs = rng.choice([None, None, 0, 1, 1, 2, 3, 10, 10, 1000, 2**63 - 1, 2**63, USIZE_MAX])
    maxb = USIZE_MAX // 2 if maxs is None else maxs
    initial = rng.choice([None, None, 0, 0, 1, 2, 5, maxb, min(maxb + 1, USIZE_MAX), USIZE_MAX])
    n = rng.choice([4, 8, 12, 20, 30, 40])
    ops = []
    protocol = rng.random() < 0.5
    unit = I if 0 < I < 2**61 * NS else rng.choice([1, 1000, NS])
    while len(ops) < n:
        r = rng.random()
        if r < 0.30:
            if I >= 2**61 * NS and rng.random() < 0.6:
                dt = rng.choice([I, 2**61 * NS, 2**61 * NS + 7, I // 2, I + 1]) if I < 2**63 * NS else rng.choice([2**61 * NS, 2**62 * NS])
            else:
                dt = rng.choice([0, 1, unit - 1 if unit > 0 else 0, unit, unit + 1, 2 * unit, (5 * unit) // 2,
                                 10 * unit, rng.randint(0, 3 * unit + 1), 1000 * unit + 3])
            ops.append(("a", dt))
        elif protocol:
            ops.append(("c",))
            if rng.random() < 0.8:
                ops.append(("b",))
        elif r < 0.65:
            ops.append(("c",))
        else:
            ops.append(("b",))
    return {"refill": refill, "interval": I, "max": maxs, "maxb": maxb, "initial": initial, "ops": ops,
            "style": style}


def gen_bucket_exhaustive(seq_len):
    cases = []
    alphabet = [("a", 1), ("a", 2), ("c",), ("b",)]
    for refill, I, maxs, initial in itertools.product([0, 1, 2], [0, 1, 2], [0, 1, 2], [None, 0, 1, 3]):
        for seq in itertools.product(alphabet, repeat=seq_len):
            if not any(o[0] == "c" for o in seq):
                continue
            cases.append({"refill": refill, "interval": I, "max": maxs, "maxb": maxs, "initial": initial,
                          "ops": list(seq), "style": "exh"})
    return cases


def bucket_line(c):
    ops = " ; ".join(("a " + split_dur(o[1])) if o[0] == "a" else o[0] for o in c["ops"])
    return (f"bucket {c['refill']} {split_dur(c['interval'])} {'-' if c['max'] is None else c['max']} "
            f"{'-' if c['initial'] is None else c['initial']} ; {ops}")


def bucket_cfg_term(c):
    return f"(mkCfg {c['refill']} {c['interval']} {c['maxb']} {USIZE_MAX} {IMAX})"


def bucket_ops_term(c):
    m = {"a": lambda o: f"TAdv {o[1]}", "c": lambda o: "TCheck", "b": lambda o: "TBump"}
    return "[" + "; ".join(m[o[0]](o) for o in c["ops"]) + "]"


def bucket_part(chk, build, factor):
    quick = chk.tier == "quick"
    rng = chk.rng
    cases = gen_bucket_exhaustive(3 if quick else 4)
    n_exh = len(cases)
    want = (3000 if quick else 40000) * factor
    tries = 0
    while len(cases) < n_exh + want and tries < want * 3:
        tries += 1
        c = gen_bucket_random(rng)
        try:
            c["stats"] = py_bucket(c, c["ops"])
        except Ambiguous:
            chk.count("bucket.generator.discarded_near_clock_boundary")
            continue
        cases.append(c)
    impl = run_harness(build, "eng_bucket", [bucket_line(c) for c in cases], shards=8)
    exprs = []
    for c, iv in zip(cases, impl):
        init = "None" if c["initial"] is None else f"(Some {c['initial']})"
        cfg = bucket_cfg_term(c)
        ops = bucket_ops_term(c)
        # iv is "(b0, [outs])": hand it to the oracle as (b0, ops, outs)
        t = parse_term(iv)
        assert t[0] == "tuple"
        obs = f"({show_term(t[1])}, {ops}, {show_term(t[2])})"
        exprs.append(f"(bucket_run {cfg} {init} 0 {ops}, check_C15_bucket {cfg} 0 {obs})")
    model = coq_eval(f"C15bp{os.getpid()}", BUCKET_IMPORTS, exprs)
    distinct = set()
    for k, (c, iv, mv) in enumerate(zip(cases, impl, model)):
        it = parse_term(iv)
        mt = parse_term(mv)
        # Coq prints ((b0, outs), oracle) as the flat tuple (b0, outs, oracle)
        assert mt[0] == "tuple" and len(mt) == 4, mv
        m_run, oracle = ("tuple", mt[1], mt[2]), mt[3]
        chk.coverage["evaluations"] += 1
        chk.count("bucket.style." + c["style"])
        st = c.get("stats")
        if st:
            for key in ("refills", "rejects", "admits", "clamped"):
                if st[key]:
                    chk.count("bucket.cases_with_" + key)
            if st["lost_deadline"]:
                chk.count("bucket.cases_with_unrepresentable_deadline")
            if st["refills"] or st["rejects"]:
                distinct.add(bucket_line(c))
        else:
            distinct.add(bucket_line(c))
        desc = json.dumps({"kind": "bucket", "harness_line": bucket_line(c), "coq_cfg": bucket_cfg_term(c),
                           "coq_ops": bucket_ops_term(c), "impl": show_term(it), "model": show_term(m_run)}, indent=1)
        if oracle != "true":
            chk.violation("leaky bucket admits more than balance + refill per elapsed interval (or exceeds max)",
                          "C15 oracle check_C15_bucket rejects the implementation's trace\n" + desc)
        elif it != m_run:
            chk.coverage["disagreements_checked"] += 1
            first = None
            if isinstance(it, tuple) and isinstance(m_run, tuple) and it[1] == m_run[1]:
                first = next((j for j, (a, b) in enumerate(zip(it[2], m_run[2])) if a != b), None)
            chk.violation("model/implementation disagree (LeakyBucketRateLimiter)",
                          f"correspondence E3:bucket differs at op #{first} (oracle accepts)\n" + desc,
                          failing_input=False)
        if k in (n_exh + 3, n_exh + 17) and len(chk.coverage["samples"]) < 4:
            chk.coverage["samples"].append(json.loads(desc))
    chk.coverage["traces_validated_against_impl"] += len(cases)
    chk.coverage["bucket_exhaustive_cases"] = n_exh
    return distinct


def run(chk):
    ok_proofs = chk.proofs()
    factor = 1 if ok_proofs else 10
    bins = ["eng_bucket", "eng_capacity"]
    build = cargo_build(bins)
    if not build["ok"]:
        ok, log = repo_builds_without_hooks()
        if not ok:
            return infrastructure_failure(chk.prop, "/repo does not compile even without hooks:\n" + log[-1500:])
        chk.violation("harness no longer builds against /repo",
                      "correspondence E3:eng_bucket cannot be built against the current tree\n"
                      + build["log"][-3000:], failing_input=False)
        return chk.finish(trusted_base=TRUSTED)
    distinct = bucket_part(chk, build, factor)
    distinct |= c15_factory.factory_part(chk, build, factor)
    chk.coverage["distinct_nontrivial"] = len(distinct)
    chk.coverage["rule"] = (
        "bucket: all (refill, interval, max in {0,1,2}; initial in {None,0,1,3}) x all op sequences of length 3 "
        "(quick) / 4 (thorough) over {advance 1, advance 2, check, bump} containing a check (exhaustive) + seeded "
        "random configurations incl. zero, sub-millisecond, huge (2^61 s, 2^62 s), never-representable and "
        "Duration::MAX intervals, refill/max/initial up to usize::MAX, with advance/check/bump sequences (half of "
        "them in the router's check-then-bump protocol). non-trivial = at least one refill or one rejected check")
    import shutil
    for tag in ("C15b", "C15f"):
        shutil.rmtree(os.path.join(WORK, f"{tag}p{os.getpid()}"), ignore_errors=True)
    chk.coverage["exhaustive_part"] = "bucket configs over {0,1,2}^3 x initial {None,0,1,3}, op sequences of fixed small length"
    return chk.finish(trusted_base=TRUSTED)


TRUSTED = [
    "Coq 8.16.1 kernel (coqc); vm_compute used for evaluating the model/oracle on cases and for Examples",
    "no axioms: every property theorem prints 'Closed under the global context'",
    "hand-written model coq/Ratelim/Model.v tied to ractor/src/factory/ratelim.rs by differential runs (this check)",
    "tokio's paused clock (Instant::now / time::advance) as the virtual time source; std Instant::checked_add",
    "the absolute origin of the monotonic clock is unknown: the model's largest instant is placed in a gap "
    "[2^63-2^33 s, 2^63 s) that generated cases never touch",
    "Rust harness eng_bucket, lib/common.py term parser and comparison",
]
