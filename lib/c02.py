"""C02 - Mailbox delivers accepted messages once, in order (DESIGN.md 4/C02)."""
import json

from common import *
import admission as A


def verdicts(chk, results, kind, distinct):
    for r in results:
        chk.coverage["evaluations"] += 1
        st = A.scenario_stats(r["acts"]) if "acts" in r else None
        if st and st["sends"] >= 2:
            distinct.add(r["line"])
        A.log_hist(chk, r, kind)
        if r["bad"]:
            chk.violation(f"implementation produced {r['bad']} (a send result outside Ok / SendErr(m) / InvalidActorType, or a hung thread)",
                          "C02 engine E1/E2: out-of-vocabulary observation\n" + A.describe(r))
            continue
        if not r["c02"]:
            chk.violation("mailbox property violated on the implementation's event log "
                          "(duplicate / rejected-but-handled / out of real-time order / lost while alive)",
                          "C02 oracle check_C02 rejects the implementation's event log\n"
                          + A.describe(r, {"alive_idle_at_end": r.get("alive_idle")}))
        elif "model_t" in r and r["model_t"] != r["impl_t"]:
            chk.coverage["disagreements_checked"] += 1
            mlog, ilog = r["model_t"][1], r["impl_t"][1]
            first = next((j for j, (a, b) in enumerate(zip(mlog, ilog)) if a != b), min(len(mlog), len(ilog)))
            chk.violation("model/implementation disagree on the event log",
                          f"correspondence E1/E2:eng_adm differs from Admission.Model at event #{first} (oracle accepts)\n"
                          + A.describe(r), failing_input=False)


def run(chk):
    quick = chk.tier == "quick"
    ok_proofs = chk.proofs()
    factor = 1 if ok_proofs else 5
    build, rc = A.build_or_fail(chk, A.TRUSTED)
    if build is None:
        return rc
    distinct = set()

    # regression corpus (corpus/C02/*.txt and --replay FILE: raw harness lines) runs first
    extra = A.load_corpus("C02")
    if getattr(chk, "replay", None):
        extra = [l.split("harness_line:", 1)[-1].strip().strip('",') for l in open(chk.replay)
                 if ("do " in l or "start " in l or "stress " in l) and "replay_cmd" not in l]
    verdicts(chk, A.run_lines(chk, build, extra, "C02"), "corpusfile", distinct)
    res = A.run_scenarios(chk, build, A.CORPUS, "C02c")
    verdicts(chk, res, "corpus", distinct)
    chk.coverage["samples"].append(json.loads(A.describe(res[2])))

    # ---- exhaustive part: every order of start/release of 1..3 parked senders with other
    # atomic blocks: un-gated sends, stop, kill, drain, a self-sending handler's message
    ex = []
    blocksets = [(), (A.T,), (A.K,), (A.S(90),), (A.S(90), A.T), (A.S(90), A.S(91)), (A.D,),
                 (A.S(90, "", [], [A.S(92), A.S(93)]),), (A.S(90, "w"),), (A.S(90, "f"), A.S(91))]
    # wrong-typed request through each public entry point (0 cell.send_message, 1 ActorRef.send_message,
    # 2 ActorRef.cast, 3 ActorRef.call, 4 ActorRef.call with timeout, 5 rpc::cast, 6 rpc::call, 7 ActorRef.call_and_forward,
    # 8 rpc::call_and_forward, 9 rpc::multi_call), followed by a
    # correct message that must still be handled; and correctly typed cast / call
    entry_blocks = ([(A.S(90, f"w{k}"), A.S(91)) for k in "0123456789drzy"] + [(A.S(90, k), A.S(91)) for k in "zy"] + [(A.S(90, str(k)),) for k in (2, 3, 4, 6)]
                    # DerivedActorRef (get_derived: converter closure, TryFrom back-conversion of a refused message) and
                    # typed registry lookup (ActorRef::where_is + is_message_type_of)
                    + [(A.S(90, k), A.S(91)) for k in "dr"] + [(A.S(90, "d"), A.D, A.S(91, "d")), (A.S(90, "r"), A.T, A.S(91, "r"))]
                    # a request through call_and_forward / multi_call followed by another send of the same sender:
                    # the request must be in the mailbox when the call returns (real-time order)
                    + [(A.S(90, str(k)), A.S(91)) for k in (7, 8, 9)]
                    # serialized entry (ActorCell::send_serialized): Cast, Call whose reply receiver is already dropped,
                    # Call whose caller still waits: accepted => handled exactly once
                    + [(A.S(90, k), A.S(91)) for k in "scq"] + [(A.S(90, "c", [], [A.S(92, "c")]),)])
    for ns in (1, 2):
        for bs in entry_blocks:
            ex += A.gen_exhaustive(ns, 0, "plain", blocks=bs)
    for ns in (1, 2, 3):
        for bs in blocksets:
            if ns == 3 and len(bs) == 2 and quick:
                continue
            ex += A.gen_exhaustive(ns, 0, "plain", blocks=bs)
    # remote-id target (spawn_linked_remote): serializable vs. non-serializable message types
    ex += A.remote_exhaustive()
    res = A.run_scenarios(chk, build, ex, "C02e")
    verdicts(chk, res, "exhaustive", distinct)
    chk.count("exhaustive.scenarios", len(ex))
    chk.coverage["samples"].append(json.loads(A.describe(res[len(res) // 3])))

    # ---- long standing backlogs (the loop's behaviour over many consecutive dequeues): 200 queued messages with the
    # target's children exiting while it works through positions 58..70 (supervision events interleaved with the
    # mailbox), full oracle; 1040 queued messages, oracle without the cubic real-time clause
    window = tuple(range(58, 71))
    lres = A.run_scenarios(chk, build, [A.long_backlog(200, kids=13, kid_window=window),
                                        A.long_backlog(200, kids=13, kid_window=window, chunk=50),
                                        A.long_backlog(130, kids=13, kid_window=tuple(range(120, 131)), chunk=7)], "C02L")
    verdicts(chk, lres, "long", distinct)
    lres = A.run_scenarios(chk, build, [A.long_backlog(1040)], "C02M", lite=True, only="C02")
    verdicts(chk, lres, "long", distinct)

    n_rand = (700 if quick else 8000) * factor
    rnd = [A.gen_random(chk.rng, "order" if i % 4 else "drain") for i in range(n_rand)]
    rnd += [A.gen_remote(chk.rng) for _ in range(n_rand // 4)]
    res = A.run_scenarios(chk, build, rnd, "C02r")
    verdicts(chk, res, "random", distinct)
    chk.coverage["samples"].append(json.loads(A.describe(res[11])))

    # ---- uncontrolled multi-thread stress: per-sender order + exactly-once among Ok
    n_st = (24 if quick else 300) * factor
    specs = []
    for i in range(n_st):
        senders = chk.rng.choice([2, 4, 6, 8])
        per = chk.rng.choice([4, 8, 15])
        after = chk.rng.randrange(0, senders * per)
        specs.append((senders, per, after, i % 3))
    sres = A.run_stress(chk, build, specs, "C02")
    for r in sres:
        chk.coverage["evaluations"] += 1
        A.log_hist(chk, r, f"stress.mode{r['spec'][3]}")
        if r["bad"]:
            chk.violation(f"stress: implementation produced {r['bad']}", "C02 engine E5\n" + A.describe(r))
        elif not r["c02"]:
            chk.violation("mailbox property violated on an uncontrolled multi-thread run",
                          "C02 oracle check_C02 rejects the event log of an uncontrolled run (not replayable deterministically)\n"
                          + A.describe(r))

    chk.coverage["traces_validated_against_impl"] = len(A.CORPUS) + len(ex) + len(rnd)
    chk.coverage["distinct_nontrivial"] = len(distinct)
    chk.coverage["rule"] = (
        "exhaustive: every interleaving of {start_i, release_i} of 1..3 sender threads parked inside the send path with "
        "atomic blocks (un-gated sends, stop, kill, drain, wrong-typed send, failing handler, self-sending handler; "
        "wrong-typed and correctly typed requests through every public entry point: ActorCell::send_message, "
        "ActorRef::<T>::from(cell).send_message / cast / call / call with timeout / call_and_forward, rpc::cast, rpc::call, "
        "rpc::call_and_forward, rpc::multi_call, DerivedActorRef::send_message (get_derived), ActorRef::where_is + send; ActorCell::send_serialized Cast / Call with dropped or live reply receiver); "
        "long backlogs: 200 queued messages with 13 children of the target exiting while it handles positions 58..70, 1040 "
        "queued messages (oracle without the real-time clause); remote-id target (spawn_linked_remote): all action sequences of length <= 3 over serializable / non-serializable "
        "sends, drain, stop, run, plus seeded random ones; "
        "random: seeded structured scenarios (up to 3 parked threads, handler scripts with self-sends / drain / stop / kill, "
        "re-entrant sends from box_message, wrong type, failing box/handler); stress: 2..8 uncontrolled OS threads x 4..15 "
        "messages with a racing drain / stop / nothing (oracle only; mode 2 checks exactly-once while alive). "
        "non-trivial = at least two sends; distinct = distinct scenario texts. Every controlled scenario: implementation "
        "event log == model event log, and check_C02 on the implementation's log")
    chk.coverage["exhaustive_part"] = "all orders of start/release of <=3 parked senders x 10 block sets"
    return chk.finish(trusted_base=A.TRUSTED)
