"""C13 — Factory: every job meets exactly one fate, never runs twice (DESIGN.md section 4/C13)."""
import json

from factory_model import *

TRUSTED = [
    "Coq 8.16.1 kernel (coqc); vm_compute for evaluating the model and the oracles on cases and for Examples",
    "no axioms: every property theorem prints 'Closed under the global context'",
    "hand-written model coq/Factory/Model.v tied to ractor/src/factory/*.rs by per-op event-view comparison on every run (this check)",
    "scheduling policy of the deterministic engine (coq/Factory/Scenario.v: factory turn, then workers, then finalize); "
    "theorems hold for every label order, the policy only selects which runs are compared",
    "tokio current_thread runtime with paused clock; sleep(1ns) as quiescence barrier; mpsc FIFO; priority of the stop/supervision/message ports",
    "pending_key_counts is represented by its specification (key pending iff in message_queue or curr_jobs)",
    "dead-man's switch, pings, stats layer, lifecycle hooks, RetriableMessage are not modelled (scenarios keep the clock below the 10 s ping timer)",
    "Rust harness eng_factory, lib/common.py term parser, lib/factory_model.py",
]


def classify(chk, s, r, an, findings):
    """map one C13 anomaly to ('ok' | 'known' | 'violation', text)"""
    kind = an[0] if isinstance(an, tuple) else an
    if kind in ("AActiveOver", "AQueuedWhileFree", "AShedKeyRunning") and oracle_only(s):
        return "ok", "not judged: the clause is validated on the model's run, which does not carry this scenario"
    if kind == "ASilentLoss" and oracle_only(s):
        j, opi = an[1], an[2]
        started = any(isinstance(e, tuple) and e[0] == "EStart" and e[1] == j for evs in r["impl"][:opi + 1] for e in evs)
        if started and s["ops"][opi][0] in ("t", "hold", "rel"):
            return "ok", "lost together with a worker the dead man's switch killed as stuck (it was in that worker's handler)"
        return "violation", f"job {j} disappeared in op #{opi} of a dead-man's-switch history without being in a handler"
    if kind == "ASilentLoss":
        j, opi = an[1], an[2]
        cause = model_cause(r["model"], j)
        ck = cause[0] if isinstance(cause, tuple) else cause
        reached = any(isinstance(e, tuple) and e[0] in ("EAcc", "EStart") and e[1] == j for evs in r["impl"] for e in evs)
        if ck == "CInbox" and not reached:
            return "ok", "never reached the factory (message still in its inbox when it exited)"
        started = any(isinstance(e, tuple) and e[0] == "EStart" and e[1] == j for evs in r["impl"] for e in evs)
        stopping = any(op[0] in ("stop", "drain") for op in s["ops"][:opi + 1])
        if cause is None and not started and stopping and s["ops"][opi][0] not in ("k", "f", "p") and "F4" in findings:
            # the model has no drop for this job (its history diverged from the implementation's, reported separately):
            # fall back to the signature read off the implementation's log
            ck, cause = "CWorkerQueue", ("CWorkerQueue", "?")
        if ck == "CWorkerQueue" and "F4" in findings:
            return "known", ("F4", "jobs waiting in a per-worker queue vanish when the factory stops "
                                   "(not handled, not discarded(Shutdown), not returned); e.g. corpus/C13/f4_stop_drops_worker_queue.scn")
        if ck == "CStopExit" and "F9" in findings and not r["stale"] and not started \
                and any(op[0] in ("stop", "drain") for op in s["ops"][:opi + 1]):
            return "known", ("F9", "a job already handed to a worker (in its mailbox, handler not started) is dropped when the stopping "
                                   "factory stops that worker: not handled, not discarded(Shutdown), not returned; "
                                   "e.g. corpus/C13/f9_stop_drops_unstarted_mailbox_job.scn")
        if ck in ("CMailbox", "CStopExit", "CDeath") and "F3" in findings:
            aid = cause[1]
            wid = actor_wid(r["impl"], aid)
            sig = f3_signature(s, r, wid) if wid is not None else None
            if wid is None:
                # the actor never started a job, so the log does not show its worker: try the workers with a stale completion
                for pair in r["stale"]:
                    sig = sig or f3_signature(s, r, pair[1], job_key(s, j))
            if sig:
                return "known", ("F3", "a stale Finished(w,k) of a dead incarnation is taken for the replacement's same-key job; "
                                       "the replacement then holds two jobs and its death (or stop) loses more than one; "
                                       "e.g. corpus/C13/f3_two_lost_with_one_death.scn")
        return "violation", f"job {j} disappeared silently in op #{opi} (model cause: {show_term(cause) if cause else 'none'})"
    if kind == "AActiveOver":
        opi = an[1]
        if any(isinstance(m, tuple) and m[0] == "AActiveOver" and m[1] == opi for m in r["m13"]):
            return "ok", "the model's own run has the same settled point (a worker in its exit window, or F3 damage)"
        return "violation", (f"settled point at op #{opi}: {an[2]} worker(s) counted as working but only {an[3]} really running a job: "
                             "an accepted job waits at a live worker that runs nothing (e.g. the replacement of a dead worker was "
                             "not given its predecessor's queue)")
    if kind == "AShedKeyRunning":
        j, k, opi = an[1], an[2], an[3]
        if any(isinstance(m, tuple) and m[0] == "AShedKeyRunning" and m[1] == j for m in r["m13"]):
            return "ok", "the model's own run sheds the same job (it was still in the factory queue when its key started elsewhere)"
        return "violation", (f"job {j} (key {k}) was discarded with reason Loadshed in op #{opi} while key {k} was being processed under "
                             "sticky-queuer routing: it was parked at that worker, whose private queue has no limit under a "
                             "factory-queueing router -- the applicable queue (the factory queue) was not at its limit; the model's "
                             "run of the same scenario does not shed it")
    if kind == "AQueuedWhileFree":
        opi = an[1]
        if any(isinstance(m, tuple) and m[0] == "AQueuedWhileFree" and m[1] == opi for m in r["m13"]):
            return "ok", ("the model's own run has the same settled point (sticky routing: the queued job's key is being "
                          "processed elsewhere; or F3 damage)")
        return "violation", (f"settled point at op #{opi}: {an[2]} accepted job(s) wait in the factory queue while {an[3]} worker(s) "
                             "are idle, alive and not draining, and nothing is pending that would hand them a job: these jobs "
                             "have no fate (e.g. a replacement worker that was never announced to the router as available)")
    return "violation", f"{show_term(an)}"


def run(chk):
    quick = chk.tier == "quick"
    ok_proofs = chk.proofs()
    factor = 1 if ok_proofs else 5
    # RV_FACTORY_BIN_DIR: use an eng_factory binary built elsewhere (mutation experiments against a scratch worktree)
    alt = os.environ.get("RV_FACTORY_BIN_DIR")
    build = {"ok": True, "dir": alt} if alt else cargo_build(["eng_factory"])
    if not build["ok"]:
        ok, log = repo_builds_without_hooks()
        if not ok:
            return infrastructure_failure(chk.prop, "/repo does not compile:\n" + log[-1500:])
        chk.violation("harness no longer builds against /repo",
                      "correspondence E1:eng_factory cannot be built against the current tree\n" + build["log"][-3000:],
                      failing_input=False)
        return chk.finish(trusted_base=TRUSTED)

    findings = {f["id"] for f in chk.finding_entries()} - set(os.environ.get("RV_IGNORE_FINDINGS", "").split(","))
    if getattr(chk, "replay", None):
        scns = scenarios_from_replay(chk.replay)
    else:
        scns = load_corpus("C13") + load_corpus("C14")
        n = (700 if quick else 12000) * factor
        scns += [gen_scenario(chk.rng) for _ in range(n)]
        scns += [gen_window_scenario(chk.rng) for _ in range(n // 4)]
        scns += [gen_settings_scenario(chk.rng) for _ in range(n // 4)]
        scns += [gen_long_scenario(chk.rng) for _ in range(n // 5)]
        scns += [gen_stuck_scenario(chk.rng) for _ in range(n // 8)]
        scns += [gen_empty_pool_scenario(chk.rng) for _ in range(n // 8)]
        scns += [gen_shrink_window_scenario(chk.rng) for _ in range(n // 6)]
        scns += [gen_backlog_scenario(chk.rng) for _ in range(n // 6)]
        scns += [gen_cursor_scenario(chk.rng) for _ in range(n // 8)]
        scns += [gen_shed_update_scenario(chk.rng) for _ in range(n // 8)]
    res, htbl = evaluate("C13", build, scns)

    distinct = set()
    for s, r in zip(scns, res):
        chk.coverage["evaluations"] += 1
        scn_stats(chk, s, r)
        if nontrivial(s, r):
            distinct.add(scn_line(s))
        desc = ("scenario: " + scn_line(s) + "\n"
                + "implementation events per op: " + show_term(r["impl"]) + "\n"
                + "model events per op:          " + show_term(r["model"]) + "\n")
        real = False
        for an in r["a13"]:
            verdict, info = classify(chk, s, r, an, findings)
            chk.count("anomaly." + (an[0] if isinstance(an, tuple) else an) + "." + verdict)
            if verdict == "known":
                chk.known_finding(info[0], info[1])
            elif verdict == "violation":
                real = True
                chk.violation("C13 violated: " + info,
                              "C13 oracle check_C13 rejects the implementation's history: " + info + "\n" + desc)
        d = None if oracle_only(s) else first_diff(s, r["impl"], r["model"])
        if d is not None and not real:
            chk.coverage["disagreements_checked"] += 1
            k, a, b = d
            chk.violation("model/implementation disagree (factory events)",
                          f"correspondence E1:eng_factory differs at op #{k} {s['ops'][k] if k < len(s['ops']) else ''}: "
                          f"impl {show_term(a) if a is not None else '-'} model {show_term(b) if b is not None else '-'}\n" + desc,
                          failing_input=False)
        if len(chk.coverage["samples"]) < 3 and nontrivial(s, r) and chk.coverage["evaluations"] % 97 == 5:
            chk.coverage["samples"].append({"scenario": scn_line(s), "impl": show_term(r["impl"])[:1500],
                                            "model": show_term(r["model"])[:1500], "check_C13": show_term(r["a13"])})
    chk.coverage["traces_validated_against_impl"] = len(scns)
    chk.coverage["distinct_nontrivial"] = len(distinct)
    chk.coverage["rule"] = ("seeded structured histories over 5 routers x 2 queues (styles: plain, faulty, resize, ttl, shed, hold, rate, "
                            "shutdown) + corpus/C13, corpus/C14; per op the sorted event view {accept/return, start/end with worker and "
                            "incarnation, discard with reason, drop, send error, queue depth / active workers / capacity} of the real "
                            "Factory is compared with the model's; check_C13 (one start, one fate, return only with discard, no silent "
                            "loss; at settled points: no worker counted as working that runs nothing, no job in the factory queue next to "
                            "a free worker -- these two where the model's own run is free of them) is evaluated in Coq on the "
                            "implementation's log. non-trivial = >= 2 jobs started and a death / "
                            "resize / hold / ttl / stop op; distinct = distinct scenario lines")
    return chk.finish(trusted_base=TRUSTED,
                      explanation="Known deviations of the unchanged code are reported as KNOWN-FINDING only when the drop matches the "
                                  "recorded signature (model cause CWorkerQueue for F4; stale completion on that worker for F3).")
