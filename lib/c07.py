"""C07 - Drain processes everything accepted and admits nothing afterwards (DESIGN.md 4/C07)."""
import json

from common import *
import admission as A


def verdicts(chk, results, kind, distinct):
    for r in results:
        chk.coverage["evaluations"] += 1
        st = A.scenario_stats(r["acts"]) if "acts" in r else None
        if st and st["drains"] and st["sends"]:
            distinct.add(r["line"])
        A.log_hist(chk, r, kind)
        if r["bad"]:
            chk.violation(f"implementation produced {r['bad']} (a send result or exit reason outside the property's vocabulary, or a hung thread)",
                          "C07 engine E1/E2: out-of-vocabulary observation\n" + A.describe(r))
            continue
        if not r["c07"]:
            chk.violation("drain property violated on the implementation's event log / status moved backwards after the exit",
                          "C07 oracle check_C07 && check_status rejects the implementation's event log and final status\n" + A.describe(r))
        elif "model_t" in r and r["model_t"] != r["impl_t"]:
            chk.coverage["disagreements_checked"] += 1
            mlog, ilog = r["model_t"][1], r["impl_t"][1]
            first = next((j for j, (a, b) in enumerate(zip(mlog, ilog)) if a != b), min(len(mlog), len(ilog)))
            chk.violation("model/implementation disagree on the event log",
                          f"correspondence E1/E2:eng_adm differs from Admission.Model at event #{first} (oracle accepts)\n"
                          + A.describe(r), failing_input=False)
        if "model_complete" in r and not r["model_complete"]:
            chk.notes.append("generator produced a scenario the model does not consider complete: " + r["line"])


def run(chk):
    quick = chk.tier == "quick"
    ok_proofs = chk.proofs()
    factor = 1 if ok_proofs else 5
    build, rc = A.build_or_fail(chk, A.TRUSTED)
    if build is None:
        return rc
    distinct = set()

    # ---- regression corpus first
    # regression corpus (corpus/C07/*.txt and --replay FILE: raw harness lines) runs first
    extra = A.load_corpus("C07")
    if getattr(chk, "replay", None):
        extra = [l.split("harness_line:", 1)[-1].strip().strip('",') for l in open(chk.replay)
                 if ("do " in l or "start " in l or "stress " in l) and "replay_cmd" not in l]
    verdicts(chk, A.run_lines(chk, build, extra, "C07"), "corpusfile", distinct)
    res = A.run_scenarios(chk, build, A.CORPUS, "C07c")
    verdicts(chk, res, "corpus", distinct)
    chk.coverage["samples"].append(json.loads(A.describe(res[0])))

    # ---- exhaustive part: every order of start/release of 1..3 gated senders and 1..2 drains
    ex = []
    combos = [(1, 1), (1, 2), (2, 1), (2, 2), (3, 1), (3, 2)]
    for ns, nd in combos:
        for variant in ("plain", "redrain", "resend"):
            if (ns, nd) == (3, 2) and variant != "plain" and quick:
                continue
            ex += A.gen_exhaustive(ns, nd, variant)
        if ns <= 2:
            ex += A.gen_exhaustive(ns, nd, "late")
        chk.count(f"exhaustive.senders={ns}.drains={nd}", 0)
    # post_stop family: the actor is allowed to run in the middle (one `run` token in every position) and the
    # target's post_stop releases every parked sender, so a sender admitted before the drain can complete between
    # a (premature) loop exit and the drop of the ports
    for ns, nd in ((1, 1), (1, 2), (2, 1), (2, 2)):
        ex += A.gen_exhaustive(ns, nd, "plain", blocks=("run",), ps=tuple(range(ns)))
    ex += A.gen_exhaustive(1, 1, "plain", blocks=("run", "run"), ps=(0,))
    # the other public drain entry points (supervisor.drain_children, drain_and_wait with / without timeout)
    for ns, nd in ((1, 1), (1, 2), (2, 1), (2, 2)):
        ex += A.gen_exhaustive(ns, nd, "dvar")
        ex += A.gen_exhaustive(ns, nd, "dvar", blocks=("run",))
    # drains (every public form) on a reference held after the exit / while Stopping, followed by waits
    ex += A.after_exit_scenarios()
    # drain while the actor is still in pre_start (spawn_instant, pre_start parked at a gate)
    ex += A.instant_scenarios(chk.rng, 60 if quick else 600)
    res = A.run_scenarios(chk, build, ex, "C07e")
    verdicts(chk, res, "exhaustive", distinct)
    chk.count("exhaustive.scenarios", len(ex))
    chk.coverage["samples"].append(json.loads(A.describe(res[len(res) // 2])))

    # ---- long standing backlog drained: everything accepted before the drain is handled
    lres = A.run_scenarios(chk, build, [A.long_backlog(1040, drain=True)], "C07L", lite=True, only="C07")
    verdicts(chk, lres, "long", distinct)

    # ---- seeded random scenarios (drains at every phase, re-entrant calls, stop/kill/failure)
    n_rand = (600 if quick else 8000) * factor
    rnd = [A.gen_random(chk.rng, "drain" if i % 3 else "order") for i in range(n_rand)]
    res = A.run_scenarios(chk, build, rnd, "C07r")
    verdicts(chk, res, "random", distinct)
    chk.coverage["samples"].append(json.loads(A.describe(res[7])))

    # ---- uncontrolled multi-thread stress: traces only fed to the oracle
    n_st = (24 if quick else 300) * factor
    specs = []
    for i in range(n_st):
        senders = chk.rng.choice([2, 3, 4, 6])
        per = chk.rng.choice([5, 10, 20])
        after = chk.rng.randrange(0, senders * per)
        specs.append((senders, per, after, 0))
    sres = A.run_stress(chk, build, specs, "C07")
    for r in sres:
        chk.coverage["evaluations"] += 1
        A.log_hist(chk, r, "stress")
        if r["bad"]:
            chk.violation(f"stress: implementation produced {r['bad']}", "C07 engine E5\n" + A.describe(r))
        elif not r["c07"]:
            chk.violation("drain property violated on an uncontrolled multi-thread run",
                          "C07 oracle check_C07 rejects the event log of an uncontrolled run (not replayable deterministically)\n"
                          + A.describe(r))
        elif not r["exited"]:
            chk.violation("stress: no terminal event observed within the wall-clock bound after drain",
                          "C07 engine E5: actor did not report an exit (wall-clock bounded wait; not a deterministic verdict)\n"
                          + A.describe(r), failing_input=False)

    # ---- race rounds: senders that are REFUSED while the drain takes its marker decision. Not timing based: per
    # round all threads are done and drain() has returned, then the actor runs to the quiescence barrier and must
    # have exited with reason Drained having handled everything accepted
    n_rounds = (3000 if quick else 30000) * factor
    rres = A.run_race(chk, build, [(n_rounds // 2, 8, chk.seed), (n_rounds // 2, 6, chk.seed + 1)], "C07")
    for r in rres:
        chk.coverage["evaluations"] += r["rounds"]
        chk.count("race.rounds", r["rounds"])
        chk.count("race.bad_rounds", r["bad"])
        for log, (v7, v2) in zip(r["bad_logs"], r["bad_verdicts"]):
            payload = json.dumps({"harness_line": r["line"], "rounds": r["rounds"], "bad_rounds": r["bad"],
                                  "event_log_of_a_bad_round": log,
                                  "replay_cmd": f"echo '{r['line']}' | harness/target/debug/{A.BIN}   (race: re-runs the family)"},
                                 indent=1)
            if not v7:
                chk.violation("drain left the actor running / lost an accepted message in a race round",
                              "C07 oracle check_C07 rejects the event log of a race round (all senders joined, drain() returned, "
                              "actor run to quiescence)\n" + payload)
            else:
                chk.violation("race round flagged by the harness but accepted by the oracle",
                              "C07 race: harness/oracle disagree\n" + payload, failing_input=False)
        for log, (v7, v2) in zip(r["good_logs"], r["good_verdicts"]):
            if not (v7 and v2):
                chk.violation("oracle rejects a race round the harness considers fine",
                              "C07 race: oracle rejects\n" + json.dumps({"harness_line": r["line"], "log": log}, indent=1))

    chk.coverage["traces_validated_against_impl"] = len(A.CORPUS) + len(ex) + len(rnd)
    chk.coverage["distinct_nontrivial"] = len(distinct)
    chk.coverage["rule"] = (
        "exhaustive: every interleaving of {start_i, release_i} of 1..3 sender threads parked inside the send path "
        "(box_message door: ticket taken, not yet enqueued) with 1..2 drain() calls, in variants plain / re-entrant drain "
        "from box_message / re-entrant send from box_message / an extra un-gated send, each followed by run, a late send, run; "
        "post_stop family: 1..2 senders x 1..2 drains with the actor run at every intermediate position and the target's "
        "post_stop releasing the parked senders; after-exit family: every public drain form on a reference held after a "
        "drained / stopped / killed / failed exit or while Stopping, followed by wait() and drain_and_wait (status must stay "
        "Stopped, waits must return); a drained standing backlog of 1040 messages; drain-entry family: the same orders with the drains issued through "
        "supervisor.drain_children / drain_and_wait(Some) / drain_and_wait(None); instant family: spawn_instant target parked in pre_start, all sequences of "
        "length <= 3 over {send, drain, parked sender thread, send whose handler drains} before the start gate opens; race: "
        "3000 rounds of 6..8 pooled sender threads casting until refused against one drain() (verdict after quiescence); "
        "random: seeded structured scenarios (gated threads, handler scripts with self-sends/drain/stop/kill, wrong type, "
        "failing box/handler, drains at every phase, repeated drains); stress: uncontrolled OS threads racing a double drain "
        "(oracle only). non-trivial = at least one send and one drain; distinct = distinct scenario texts. "
        "Every scenario: implementation event log == model event log, and check_C07 on the implementation's log")
    chk.coverage["exhaustive_part"] = "all orders of start/release of <=3 parked senders x <=2 drains (4 variants)"
    return chk.finish(trusted_base=A.TRUSTED)
