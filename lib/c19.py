"""C19 — Wire decoding is total, bounded and round-trips (DESIGN.md section 4/C19).

Model: coq/Cluster/Codec.v (BytesConvertable impls, derive-macro packing, derived enum
decoder, job metadata) and coq/Cluster/Frame.v (incremental frame reader).
Implementation: harness/src/bin/eng_codec.rs drives the real code of /repo.
"""
import itertools
import json
import re
import struct

from common import *

IMPORTS = "Cluster.Codec Cluster.Frame"
U64 = 1 << 64

# --------------------------------------------------------------------------------------
# types

SCALARS = {
    "u8": ("EU 1", "u", 1), "u16": ("EU 2", "u", 2), "u32": ("EU 4", "u", 4), "u64": ("EU 8", "u", 8),
    "u128": ("EU 16", "u", 16),
    "i8": ("EI 1", "i", 1), "i16": ("EI 2", "i", 2), "i32": ("EI 4", "i", 4), "i64": ("EI 8", "i", 8),
    "i128": ("EI 16", "i", 16),
    "f32": ("EU 4", "u", 4), "f64": ("EU 8", "u", 8),
    "bool": ("EBool", "b", 1), "char": ("EChar", "c", 4),
}
TYPES = list(SCALARS) + ["str", "unit"] + ["v" + s for s in SCALARS]


def coq_ty(t):
    if t in SCALARS:
        return f"(TE ({SCALARS[t][0]}))"
    if t in ("str", "boom"):
        return "TStr"
    if t == "unit":
        return "TUnit"
    return f"(TVec ({SCALARS[t[1:]][0]}))"


def zlit(n):
    return f"({n})%Z" if n < 0 else f"{n}%Z"


def ev_coq(kind, x):
    if kind == "i":
        return f"VZ {zlit(x)}"
    if kind == "b":
        return f"VB {'true' if x else 'false'}"
    return f"VN {x}"


def val_coq(t, v):
    if t in SCALARS:
        return f"(VE ({ev_coq(SCALARS[t][1], v)}))"
    if t in ("str", "boom"):
        return f"(VStr {blist(v)})"
    if t == "unit":
        return "VUnit"
    k = SCALARS[t[1:]][1]
    return "(VVec [" + "; ".join(ev_coq(k, x) for x in v) + "])"


def val_line(t, v):
    if t in SCALARS:
        return str(int(v))
    if t in ("str", "boom"):
        return hexs(v)
    if t == "unit":
        return "-"
    return ",".join(str(int(x)) for x in v) if v else "-"


def blist(b):
    return "[" + "; ".join(str(x) for x in b) + "]"


def hexs(b):
    return bytes(b).hex() if len(b) else "-"


CHAR_EDGES = [0, 0x41, 0x7F, 0x80, 0x7FF, 0x800, 0xD7FF, 0xE000, 0xFFFF, 0x10000, 0x10FFFF, 0x1F496]


def gen_scalar(rng, t):
    _, kind, w = SCALARS[t]
    bits = 8 * w
    if kind == "u":
        edges = [0, 1, (1 << bits) - 1, 1 << (bits - 1), (1 << (bits - 1)) - 1, 255, 256]
        if t == "f32":
            edges += [0x7FC00000, 0x7F800001, 0xFF800000, 0x80000000, 0x3F800000]
        if t == "f64":
            edges += [0x7FF8000000000000, 0x7FF0000000000001, 0xFFF0000000000000, 1 << 63]
        return rng.choice(edges) % (1 << bits) if rng.random() < 0.3 else rng.getrandbits(bits)
    if kind == "i":
        lo, hi = -(1 << (bits - 1)), (1 << (bits - 1)) - 1
        return rng.choice([0, 1, -1, lo, hi, lo + 1, -128, 127]) if rng.random() < 0.35 else rng.randint(lo, hi)
    if kind == "b":
        return rng.random() < 0.5
    if rng.random() < 0.4:
        return rng.choice(CHAR_EDGES)
    while True:
        c = rng.randint(0, 0x10FFFF)
        if not 0xD800 <= c <= 0xDFFF:
            return c


def gen_string(rng):
    n = rng.choice([0, 1, 2, 3, 5, 9])
    return "".join(chr(gen_scalar(rng, "char")) for _ in range(n)).encode("utf-8")


def gen_value(rng, t):
    if t in SCALARS:
        v = gen_scalar(rng, t)
        if SCALARS[t][1] in ("i", "u"):
            # clamp edges that do not fit the width
            bits = 8 * SCALARS[t][2]
            if SCALARS[t][1] == "i":
                v = max(-(1 << (bits - 1)), min((1 << (bits - 1)) - 1, v))
            else:
                v %= 1 << bits
        return v
    if t in ("str", "boom"):
        return gen_string(rng)
    if t == "unit":
        return None
    n = rng.choice([0, 0, 1, 2, 3, 6])
    return [gen_value(rng, t[1:]) for _ in range(n)]


def py_encode(t, v):
    """reference encoding used only to build mutated-valid inputs"""
    if t in SCALARS:
        _, kind, w = SCALARS[t]
        if kind == "b":
            return bytes([1 if v else 0])
        return (int(v) % (1 << (8 * w))).to_bytes(w, "big")
    if t in ("str", "boom"):
        return bytes(v)
    if t == "unit":
        return b""
    return b"".join(py_encode(t[1:], x) for x in v)


# the harness enum (eng_codec.rs: HMsg): tag, is_call, data field types
HMSG = [
    ("Unit", False, []),
    ("Tup", False, ["u32", "str"]),
    ("St", False, ["i16", "vu64", "bool"]),
    ("Chr", False, ["char", "vchar"]),
    ("Wide", False, ["u128", "i128", "f64"]),
    ("Bomb", False, ["boom"]),
    ("Bytes", False, ["vu8", "unit"]),
    ("CallFirst", True, ["u16", "str"]),
    ("CallMid", True, ["i32", "vi8"]),
    ("CallLast", True, ["u64", "bool"]),
    ("CallOnly", True, []),
    ("CallSt", True, ["u8", "f32"]),
    ("EmptySt", False, []),
    ("Many", False, ["u8", "i64", "str", "vu16", "bool", "unit"]),
    ("CallMany", True, ["str", "vu8", "char"]),
]
REPLY_TY = {7: "u8", 8: "str", 9: "vu8", 10: "unit", 11: "u32", 14: "vi32"}
PRIMS = ["u8", "u32", "i64", "u128", "f64", "bool", "char", "str", "unit", "vu8", "vi16", "vchar"]
GINST = ["u16", "str", "vi64"]


def gtbl(t):
    """variant table of the generic harness enum GMsg<T>"""
    return (f"[mkVar {blist(b'V')} false [{coq_ty(t)}]; mkVar {blist(b'Ask')} true [{coq_ty(t)}]; "
            f"mkVar {blist(b'Two')} false [{coq_ty(t)}; {coq_ty(t)}]]")


GVARS = [("V", False, 1), ("Ask", True, 1), ("Two", False, 2)]
TBL = "[" + "; ".join(
    f"mkVar {blist(tag.encode())} {'true' if call else 'false'} [{'; '.join(coq_ty(t) for t in tys)}]"
    for tag, call, tys in HMSG) + "]"
KEYS = ["u64", "str", "vu8", "unit", "i16"]


def pack(fields):
    return b"".join(len(f).to_bytes(8, "big") + f for f in fields)


def smsg_coq(kind, tag, args, meta):
    m = "None" if meta is None else f"(Some {blist(meta)})"
    if kind == "reply":
        return "SReply"
    # "callt" = a call whose reply port carries a timeout: the same message on the wire
    return f"({'SCast' if kind == 'cast' else 'SCall'} {blist(tag)} {blist(args)} {m})"


def smsg_line(kind, tag, args, meta):
    return f"{kind} {hexs(tag)} {hexs(args)} {'none' if meta is None else hexs(meta)}"


def smsg_actor(kind, tag, args, meta):
    return f"{kind}:{hexs(tag)}:{hexs(args)}:{'none' if meta is None else hexs(meta)}"


def mutate(rng, b):
    b = bytearray(b)
    for _ in range(rng.choice([1, 1, 1, 2, 3])):
        op = rng.choice(["flip", "del", "ins", "trunc", "ext", "len", "set"])
        if op == "flip" and b:
            i = rng.randrange(len(b))
            b[i] ^= 1 << rng.randrange(8)
        elif op == "del" and b:
            del b[rng.randrange(len(b))]
        elif op == "ins":
            b.insert(rng.randint(0, len(b)), rng.randrange(256))
        elif op == "trunc" and b:
            del b[rng.randrange(len(b)):]
        elif op == "ext":
            b.extend(rng.randrange(256) for _ in range(rng.choice([1, 2, 8])))
        elif op == "len" and len(b) >= 8:
            # hit a length prefix: the first one, or any 8-aligned guess
            i = rng.choice([0, 0, rng.randrange(len(b) - 7)])
            b[i:i + 8] = rng.choice([0, 1, 2, 7, 8, 255, U64 - 1, U64 - 8, 1 << 63, len(b), len(b) - 8]).to_bytes(8, "big")
        elif op == "set" and b:
            b[rng.randrange(len(b))] = rng.choice([0, 1, 2, 0x7F, 0x80, 0xFF, 0xC0, 0xD8, 0xED])
    return bytes(b)


def rand_bytes(rng, maxlen=24):
    n = rng.choice([0, 1, 2, 3, 4, 7, 8, 9, 15, 16, 17, maxlen])
    style = rng.random()
    if style < 0.3:
        return bytes(rng.choice([0, 0, 0, 1, 2, 8, 255]) for _ in range(n))
    return bytes(rng.randrange(256) for _ in range(n))


ALL1_COQ = "([] :: map (fun a => [a]) (map N.of_nat (seq 0 256)))"


def all2_exprs(fn, full):
    """Coq expressions whose values, concatenated, are [fn x] for x in all_upto(2 or 1)
    (in that order); lists are kept to 257 elements (Coq's printer/VM stack)"""
    out = [f"map {fn} {ALL1_COQ}"]
    if full:
        for a0 in range(0, 256, 16):
            out.append(f"flat_map (fun a => map (fun b => {fn} [a; b]) (map N.of_nat (seq 0 256))) "
                       f"(map N.of_nat (seq {a0} 16))")
    return out


def all_upto(n):
    out = [b""]
    if n >= 1:
        out += [bytes([a]) for a in range(256)]
    if n >= 2:
        out += [bytes([a, b]) for a in range(256) for b in range(256)]
    return out


# --------------------------------------------------------------------------------------
# Coq evaluation helpers

COQ_TIMES = {}


def norm(s):
    return re.sub(r"%(Z|N|nat)\b", "", s)


def coq_many(tag, exprs, batch=None, prelude=""):
    """Evaluate many expressions of ONE type: batched into list literals (so that every core
    gets work); returns the parsed value of each. [prelude] is put in front of every batch
    (e.g. "let tbl := ... in")."""
    if not exprs:
        return []
    if batch is None:
        batch = max(1, min(60, -(-len(exprs) // (2 * NCPU))))
    groups = [exprs[i:i + batch] for i in range(0, len(exprs), batch)]
    t0 = time.time()
    outs = coq_eval(tag, IMPORTS, [prelude + "[" + "; ".join(g) + "]" for g in groups],
                    shards=min(NCPU, len(groups)))
    COQ_TIMES[tag] = round(COQ_TIMES.get(tag, 0) + time.time() - t0, 1)
    res = []
    for g, o in zip(groups, outs):
        t = parse_term(norm(o))
        if not isinstance(t, list) or len(t) != len(g):
            raise RuntimeError(f"coq batch size mismatch in {tag}: {len(g)} vs {o[:200]}")
        res.extend(t)
    return res


def pt(s):
    return parse_term(norm(s))


class Plan:
    """All Coq evaluations of a run go through ONE sharded coq_eval call (coqc start-up and
    library loading dominate otherwise)."""

    def __init__(self):
        self.jobs, self.exprs, self.res = {}, [], None

    def raw(self, key, exprs):
        self.jobs[key] = ("raw", len(self.exprs), len(exprs), None)
        self.exprs += exprs

    def many(self, key, exprs, prelude=""):
        batch = max(1, min(40, -(-len(exprs) // (2 * NCPU)))) if exprs else 1
        groups = [exprs[i:i + batch] for i in range(0, len(exprs), batch)]
        self.jobs[key] = ("many", len(self.exprs), len(groups), groups)
        self.exprs += [prelude + "[" + "; ".join(g) + "]" for g in groups]

    def run(self, tag):
        # interleave so that every shard gets a similar mix
        self.res = coq_eval(tag, IMPORTS, self.exprs, shards=NCPU) if self.exprs else []

    def get_raw(self, key):
        _, start, n, _ = self.jobs[key]
        return self.res[start:start + n]

    def get(self, key):
        _, start, n, groups = self.jobs[key]
        out = []
        for g, o in zip(groups, self.res[start:start + n]):
            t = parse_term(norm(o))
            if not isinstance(t, list) or len(t) != len(g):
                raise RuntimeError(f"coq batch size mismatch in {key}: {len(g)} vs {o[:200]}")
            out.extend(t)
        return out


# --------------------------------------------------------------------------------------
# protobuf payloads for frames (enough of prost's wire format to build valid messages)

def varint(n):
    out = bytearray()
    while True:
        b = n & 0x7F
        n >>= 7
        if n:
            out.append(b | 0x80)
        else:
            out.append(b)
            return bytes(out)


def fld_bytes(num, b):
    return varint((num << 3) | 2) + varint(len(b)) + b


def fld_varint(num, n):
    return varint(num << 3) + varint(n)


def gen_payload(rng):
    r = rng.random()
    what = bytes(rng.randrange(256) for _ in range(rng.choice([0, 1, 3, 8, 20, 60])))
    if r < 0.1:
        return b""
    if r < 0.2:
        return fld_bytes(2, b"")
    if r < 0.55:
        body = fld_varint(1, rng.choice([1, 42, U64 - 1])) + (fld_bytes(2, what) if what else b"") \
            + fld_bytes(3, rng.choice([b"A", b"Tup", b"variant"]))
        if rng.random() < 0.4:
            body += fld_bytes(6, what[:5])
        return fld_bytes(2, fld_bytes(1, body))
    if r < 0.75:
        body = fld_varint(1, 7) + (fld_bytes(2, what) if what else b"") + fld_varint(3, rng.randrange(1, 1000)) \
            + (fld_varint(4, 500) if rng.random() < 0.5 else b"") + fld_bytes(5, b"CallMid")
        return fld_bytes(2, fld_bytes(2, body))
    if r < 0.9:
        body = fld_varint(1, 9) + fld_varint(2, rng.randrange(1, 99)) + (fld_bytes(3, what) if what else b"")
        return fld_bytes(2, fld_bytes(3, body))
    return mutate(rng, fld_bytes(2, fld_bytes(1, fld_varint(1, 5) + fld_bytes(2, what))))


def frame(p, declared=None):
    return (len(p) if declared is None else declared).to_bytes(8, "big") + p


def py_frames(data, maxv, validtbl):
    """candidate payloads of the complete frames of a stream, up to the first framing error
    (only used to index the raw payloads; the verdicts come from Coq)"""
    out, pos = [], 0
    while len(data) - pos >= 8:
        n = int.from_bytes(data[pos:pos + 8], "big")
        if n > maxv or n > (1 << 63) - 1 or len(data) - pos - 8 < n:
            break
        p = data[pos + 8:pos + 8 + n]
        out.append(p)
        pos += 8 + n
        if validtbl is not None and validtbl.get(p) is None:
            break
    return out


def gen_stream(rng):
    maxv = rng.choice([0, 1, 2, 4, 16, 64, 100, 1000, 16 * 1024 * 1024, (1 << 63) - 1, 1 << 63, U64 - 1])
    parts = []
    n = rng.choice([0, 1, 1, 2, 2, 3, 4])
    for _ in range(n):
        p = gen_payload(rng)
        parts.append(frame(p))
    data = b"".join(parts)
    if parts and rng.random() < 0.2:
        maxv = len(parts[0]) - 8                                     # first frame exactly at the limit
    r = rng.random()
    if r < 0.12 and data:
        data = data[:rng.randrange(len(data))]                      # truncated
    elif r < 0.24:
        big = rng.choice([maxv + 1, maxv + 2, 1 << 20, 1 << 26, 1 << 40, 1 << 62, 1 << 63, U64 - 1]) % U64
        data += frame(bytes(rng.randrange(256) for _ in range(rng.choice([0, 3, 30]))), declared=big)
        data += b"".join(frame(gen_payload(rng)) for _ in range(rng.choice([0, 1])))
    elif r < 0.34:
        data += frame(bytes([0xFF] * rng.choice([1, 2, 9])))         # undecodable payload
        data += frame(gen_payload(rng))
    elif r < 0.42:
        data = mutate(rng, data)
    elif r < 0.47:
        data += rand_bytes(rng, 12)
    return maxv, data


def compositions(total, rng, how):
    """chunk-size lists"""
    if total == 0:
        return [[]]
    if how == "all":
        out = []
        for mask in range(1 << (total - 1)):
            sizes, run = [], 1
            for i in range(total - 1):
                if mask >> i & 1:
                    sizes.append(run)
                    run = 1
                else:
                    run += 1
            sizes.append(run)
            out.append(sizes)
        return out
    if how == "cuts12":
        out = [[total]]
        for a in range(1, total):
            out.append([a, total - a])
        for a in range(1, total):
            for b in range(a + 1, total):
                out.append([a, b - a, total - b])
        return out
    out = [[total], [1] * total]
    for _ in range(how):
        sizes, left = [], total
        while left:
            k = min(left, rng.choice([1, 1, 2, 3, 7, 8, 9, 16, 100, 9000]))
            sizes.append(k)
            left -= k
        out.append(sizes)
    return out


def chunks_of(data, sizes):
    out, pos = [], 0
    for s in sizes:
        out.append(data[pos:pos + s])
        pos += s
    if pos < len(data):
        out.append(data[pos:])
    return out


# --------------------------------------------------------------------------------------

TRUSTED = [
    "Coq 8.16.1 kernel (coqc); vm_compute used for evaluating the model on cases and for Examples",
    "no axioms: every property theorem prints 'Closed under the global context'",
    "hand-written models coq/Cluster/Codec.v and Frame.v tied to ractor/src/serialization.rs, "
    "ractor_cluster_derive/src/codegen.rs, ractor/src/factory/job.rs and ractor_cluster/src/net/session.rs "
    "by differential runs (this check)",
    "prost's protobuf decoder is not modelled: the model's `valid` is a table filled by asking the real decoder",
    "UTF-8 validity: Coq function utf8_ok, compared with String::from_utf8 on every generated byte string",
    "hook ractor_cluster/src/net/session/verif.rs (cfg slawlor_ractor_verif) calls the real private functions",
    "usize is 64 bit (the model's checked_add overflows at 2^64)",
    "Rust harness eng_codec (in-memory fragmenting AsyncRead, allocation meter), lib/common.py term parser",
]


class Cases:
    """cases of one kind: harness lines + model expressions (all of one Coq type)"""

    def __init__(self, kind):
        self.kind = kind
        self.lines, self.models, self.meta = [], [], []

    def add(self, line, model, meta=None):
        self.lines.append(line)
        self.models.append(model)
        self.meta.append(meta)


def run(chk):
    if getattr(chk, "replay", None):
        # every generator is seeded: a replay re-runs the recorded seed and tier (same cases,
        # same order) and must reproduce the recorded violation
        import random
        txt = open(chk.replay).read()
        m = re.search(r"^seed: (\d+) tier: (\w+)$", txt, re.M)
        if m:
            chk.seed, chk.tier = int(m.group(1)), m.group(2)
            chk.rng = random.Random(chk.seed)
    quick = chk.tier == "quick"
    ok_proofs = chk.proofs()
    factor = 1 if ok_proofs else 4
    build = cargo_build(["eng_codec"])
    if not build["ok"]:
        ok, log = repo_builds_without_hooks()
        if not ok:
            return infrastructure_failure(chk.prop, "/repo does not compile even without hooks:\n" + log[-1500:])
        chk.violation("harness no longer builds against /repo with hooks on",
                      "correspondence E3:eng_codec cannot be built against the current tree\n" + build["log"][-3000:],
                      failing_input=False)
        return chk.finish(trusted_base=TRUSTED)
    rng = chk.rng
    phases = chk.coverage.setdefault("phase_seconds", {})
    tlast = [time.time()]

    def phase(name):
        now = time.time()
        phases[name] = round(phases.get(name, 0) + now - tlast[0], 1)
        tlast[0] = now
    phase("proofs+build")
    N = (1 if quick else 12) * factor
    distinct = set()
    samples = chk.coverage["samples"]

    stamp = f"\nseed: {chk.seed} tier: {chk.tier}\nreplay: python3 bin/check.py C19 --replay <this file>\n"

    def hard(what, detail):
        chk.violation(what, "C19: " + what + "\n" + json.dumps(detail, indent=1, default=str) + stamp)

    def soft(what, detail):
        chk.coverage["disagreements_checked"] += 1
        chk.violation(what, "correspondence E3 (no property clause broken by this input): " + what + "\n"
                      + json.dumps(detail, indent=1, default=str) + stamp, failing_input=False)

    # ================================================================== exhaustive small inputs
    ex_types = ["u16", "bool", "vbool"] if quick else TYPES
    ex_lines, ex_exprs, ex_info = [], [], []
    for t in TYPES:
        full = t in ex_types
        inputs = all_upto(2 if full else 1)
        ex_lines += [f"bc dec {t} {hexs(b)}" for b in inputs]
        ex_exprs.append(all2_exprs(f"(decode {coq_ty(t)})", full))
        ex_info.append(("bc dec", t, inputs))
    ex_variants = [0, 5] if quick else range(len(HMSG))
    for i, (tag, call, tys) in enumerate(HMSG):
        full = i in ex_variants
        inputs = all_upto(2 if full else 1)
        kind = "call" if call else "cast"
        ex_lines += [f"enum de {smsg_line(kind, tag.encode(), b, None)}" for b in inputs]
        ctor = "SCall" if call else "SCast"
        ex_exprs.append(all2_exprs(f"(fun a => deserialize tbl ({ctor} {blist(tag.encode())} a None))", full))
        ex_info.append(("enum de", tag, inputs))
    for k in (["u64"] if quick else KEYS):
        inputs = all_upto(2)
        ex_lines += [f"job de {k} {smsg_line('cast', b'Unit', b'', b)}" for b in inputs]
        ex_exprs.append(all2_exprs(f"(fun m => job_deserialize {coq_ty(k)} tbl (SCast {blist(b'Unit')} [] (Some m)))", True))
        ex_info.append(("job de", k, inputs))
    inputs = all_upto(2)
    ex_lines += [f"jo de {hexs(b)}" for b in inputs]
    ex_exprs.append(all2_exprs("dec_opts", True))
    ex_info.append(("jo de", "JobOptions", inputs))
    # every string of <= 2 bytes as the whole stream
    ex_lines += [f"stream 100 {hexs(b)} - ready" for b in inputs]
    ex_exprs.append(all2_exprs("(fun b => run 100 (fun _ => true) [b])", True))
    ex_info.append(("stream", "max=100", inputs))

    # ================================================================== generated cases
    corpus = json.load(open(os.path.join(ROOT, "corpus", "C19", "cases.json")))
    bc_dec, bc_rt = Cases("bc dec"), Cases("bc rt")
    for _ in range(2500 * N):
        t = rng.choice(TYPES)
        if rng.random() < 0.6:
            b = mutate(rng, py_encode(t, gen_value(rng, t)))
        else:
            b = rand_bytes(rng, 40)
        bc_dec.add(f"bc dec {t} {hexs(b)}", f"decode {coq_ty(t)} {blist(b)}", (t, b))
    for _ in range(2500 * N):
        t = rng.choice(TYPES)
        v = gen_value(rng, t)
        bc_rt.add(f"bc rt {t} {val_line(t, v)}",
                  f"(encode {coq_ty(t)} {val_coq(t, v)}, decode {coq_ty(t)} (encode {coq_ty(t)} {val_coq(t, v)}))",
                  (t, v))

    def gen_fields(i):
        tys = HMSG[i][2]
        return [gen_value(rng, t) for t in tys]

    def fields_line(i, vs):
        tys = HMSG[i][2]
        return "|".join(val_line(t, v) for t, v in zip(tys, vs)) if tys else "-"

    def fields_coq(i, vs):
        return "[" + "; ".join(val_coq(t, v) for t, v in zip(HMSG[i][2], vs)) + "]"

    def valid_args(i, vs):
        return pack([py_encode(t, v) for t, v in zip(HMSG[i][2], vs)])

    def gen_smsg():
        """mostly well-formed messages, then damaged in the ways the property lists"""
        i = rng.randrange(len(HMSG))
        tag, call, tys = HMSG[i]
        args = valid_args(i, gen_fields(i))
        kind = "call" if call else "cast"
        tagb = tag.encode()
        if call and rng.random() < 0.4:
            kind = "callt"
        r = rng.random()
        if r < 0.25:
            pass
        elif r < 0.50:
            args = mutate(rng, args)
        elif r < 0.58:
            args = args + bytes(rng.choice([1, 8]))                    # trailing bytes
        elif r < 0.66 and args:
            args = args[:rng.randrange(len(args))]                     # short
        elif r < 0.72:
            tagb = rng.choice([b"", b"Nope", b"unit", tagb + b"x", tagb[:-1], HMSG[rng.randrange(len(HMSG))][0].encode()])
        elif r < 0.78:
            kind = rng.choice(["cast", "call", "callt", "reply"])      # wrong kind for the variant
        elif r < 0.94 and tys:
            # a conversion that panics: invalid scalar / utf8 / too short for the type
            fs = [py_encode(t, v) for t, v in zip(tys, gen_fields(i))]
            j = rng.randrange(len(fs))
            fs[j] = rng.choice([b"", b"\xff", b"\x00\x00\xd8\x00", b"\xc0\x80", fs[j][:-1] if fs[j] else b"",
                                b"\x00\x11\x00\x00", b"\xed\xa0\x80"])
            args = pack(fs)
        else:
            args = rand_bytes(rng, 30)
        return kind, tagb, args

    en_de, en_rt = Cases("enum de"), Cases("enum rt")
    for e in corpus["enum_de"]:
        kind, tagb, args = e["kind"], e["tag"].encode(), bytes.fromhex(e["args"])
        m = smsg_coq(kind, tagb, args, None)
        en_de.add(f"enum de {smsg_line(kind, tagb, args, None)}",
                  f"(deserialize tbl {m}, framing_ok_C19 tbl {m})", (kind, tagb, args))
    for _ in range(3500 * N):
        kind, tagb, args = gen_smsg()
        meta = None if rng.random() < 0.8 else rand_bytes(rng, 20)
        m = smsg_coq(kind, tagb, args, meta)
        en_de.add(f"enum de {smsg_line(kind, tagb, args, meta)}",
                  f"(deserialize tbl {m}, framing_ok_C19 tbl {m})", (kind, tagb, args))
    for _ in range(1500 * N):
        i = rng.randrange(len(HMSG))
        vs = gen_fields(i)
        en_rt.add(f"enum rt {i} {fields_line(i, vs)}",
                  f"(serialize tbl {i} {fields_coq(i, vs)}, "
                  f"match serialize tbl {i} {fields_coq(i, vs)} with Some m => deserialize tbl m | None => None end)",
                  (i, vs))

    def gen_opts(in_range=True):
        submit = rng.choice([0, 1, 10**18, 1_500_000_000_000_000_000, 946684800 * 10**9,
                             rng.randrange(1, 1_600_000_000 * 10**9)])
        r = rng.random()
        if r < 0.3:
            ttl = None
        elif r < 0.4:
            ttl = 0
        elif r < 0.6:
            ttl = rng.choice([1, 999, 10**9, 10**9 + 1, 3600 * 10**9, U64 - 1, 1 << 63])
        else:
            ttl = rng.randrange(1, U64)
        return submit, ttl

    def opts_coq(s, ttl):
        return f"(mkJo {s} {'None' if ttl is None else '(Some ' + str(ttl) + ')'})"

    jo_rt, jo_de, job_de, job_rt = Cases("jo rt"), Cases("jo de"), Cases("job de"), Cases("job rt")
    for sub, ttl in corpus["jo_rt"]:
        o = opts_coq(int(sub), None if ttl == "none" else int(ttl))
        jo_rt.add(f"jo rt {sub} {ttl}", f"(enc_opts {o}, dec_opts (enc_opts {o}))",
                  (int(sub), None if ttl == "none" else int(ttl)))
    for e in corpus["job_de"]:
        k, kind, tagb, args = e["key"], e["kind"], e["tag"].encode(), bytes.fromhex(e["args"])
        meta = None if e["meta"] is None else bytes.fromhex(e["meta"])
        m = smsg_coq(kind, tagb, args, meta)
        job_de.add(f"job de {k} {smsg_line(kind, tagb, args, meta)}",
                   f"(job_deserialize {coq_ty(k)} tbl {m}, meta_ok_C19 {coq_ty(k)} {m})", (k, kind, tagb, args, meta))
    for _ in range(700 * N):
        s, ttl = gen_opts()
        jo_rt.add(f"jo rt {s} {'none' if ttl is None else ttl}",
                  f"(enc_opts {opts_coq(s, ttl)}, dec_opts (enc_opts {opts_coq(s, ttl)}))", (s, ttl))
    for _ in range(40 * N):
        # the submit time of a freshly created JobOptions (now): nanosecond precision survives
        ttl = rng.choice([None, 5, 10**9])
        jo_rt.add(f"jo rt now {'none' if ttl is None else ttl}", None, ("now", ttl))
    for _ in range(25 * N):
        # beyond the u64-nanosecond wire range (more than 584 years)
        secs = rng.choice([1 << 35, (1 << 35) + 7, 1 << 40, (1 << 64) - 1, 18446744074])
        jo_rt.add(f"jo rt 1500000000000000000 secs:{secs}",
                  f"(enc_opts {opts_coq(1500000000000000000, secs * 10**9)}, "
                  f"dec_opts (enc_opts {opts_coq(1500000000000000000, secs * 10**9)}))",
                  (1500000000000000000, secs * 10**9))
    for _ in range(500 * N):
        s, ttl = gen_opts()
        b = s.to_bytes(8, "big") + (ttl or 0).to_bytes(8, "big")
        b = rng.choice([b, mutate(rng, b), rand_bytes(rng, 20)])
        if len(b) == 16 and int.from_bytes(b[:8], "big") > 1_700_000_000 * 10**9:
            b = b"\x10" + b[1:]   # keep decoded submit times distinguishable from "now"
        jo_de.add(f"jo de {hexs(b)}", f"dec_opts {blist(b)}", b)

    def gen_key(k):
        return gen_value(rng, k)

    def gen_meta(k):
        s, ttl = gen_opts()
        if s > 1_600_000_000 * 10**9:
            s = 10**18
        good = s.to_bytes(8, "big") + (ttl or 0).to_bytes(8, "big") + py_encode(k, gen_key(k))
        r = rng.random()
        if r < 0.35:
            m = good
        elif r < 0.45:
            m = None
        elif r < 0.65:
            m = good[:rng.randrange(len(good))]
        elif r < 0.85:
            m = mutate(rng, good)
        else:
            m = rand_bytes(rng, 30)
        if m is not None and len(m) >= 16 and int.from_bytes(m[:8], "big") > 1_700_000_000 * 10**9:
            m = b"\x10" + m[1:]
        return m

    for _ in range(1500 * N):
        k = rng.choice(KEYS)
        kind, tagb, args = gen_smsg()
        meta = gen_meta(k)
        m = smsg_coq(kind, tagb, args, meta)
        job_de.add(f"job de {k} {smsg_line(kind, tagb, args, meta)}",
                   f"(job_deserialize {coq_ty(k)} tbl {m}, meta_ok_C19 {coq_ty(k)} {m})", (k, kind, tagb, args, meta))
    for _ in range(500 * N):
        k = rng.choice(KEYS)
        key = gen_key(k)
        s, ttl = gen_opts()
        i = rng.randrange(len(HMSG))
        vs = gen_fields(i)
        job_rt.add(f"job rt {k} {val_line(k, key)} {s} {'none' if ttl is None else ttl} {i} {fields_line(i, vs)}",
                   f"match job_serialize {coq_ty(k)} tbl {val_coq(k, key)} {opts_coq(s, ttl)} {i} {fields_coq(i, vs)} with "
                   f"Some m => job_deserialize {coq_ty(k)} tbl m | None => JErr end",
                   (k, key, s, ttl, i, vs))

    actor = Cases("actor")
    for _ in range(220 * N):
        if rng.random() < 0.55:
            who, k = "enum", None
        else:
            k = rng.choice(KEYS)
            who = f"job:{k}"
        msgs = []
        for _ in range(rng.choice([2, 4, 6, 9])):
            kind, tagb, args = gen_smsg()
            meta = gen_meta(k) if k else (None if rng.random() < 0.8 else rand_bytes(rng, 10))
            msgs.append((kind, tagb, args, meta))
        # a well-formed probe at the end: the actor must still be working
        pi = rng.randrange(len(HMSG))
        pargs = valid_args(pi, gen_fields(pi))
        pmeta = None
        if k:
            pmeta = (10**18).to_bytes(8, "big") + (5).to_bytes(8, "big") + py_encode(k, gen_key(k))
        msgs.append(("call" if HMSG[pi][1] else "cast", HMSG[pi][0].encode(), pargs, pmeta))
        line = f"actor {who} " + ";".join(smsg_actor(*m) for m in msgs)
        ms = "[" + "; ".join(smsg_coq(*m) for m in msgs) + "]"
        if k:
            model = (f"flat_map (fun m => match job_deserialize {coq_ty(k)} tbl m with "
                     f"JOk _ _ i vs => [(i, vs)] | _ => [] end) {ms}")
        else:
            model = f"flat_map (fun m => match deserialize tbl m with Some x => [x] | None => [] end) {ms}"
        actor.add(line, model, (who, msgs))

    # ---- the same through Message::box_message(remote pid) / Message::from_boxed
    en_box = Cases("enum box")
    for _ in range(500 * N):
        i = rng.randrange(len(HMSG))
        vs = gen_fields(i)
        en_box.add(f"enum box {i} {fields_line(i, vs)}",
                   f"(serialize tbl {i} {fields_coq(i, vs)}, "
                   f"match serialize tbl {i} {fields_coq(i, vs)} with Some m => deserialize tbl m | None => None end)",
                   (i, vs))
    # ---- a generic derived enum GMsg<T>
    g_de, g_rt = Cases("genum de"), Cases("genum rt")
    for _ in range(600 * N):
        t = rng.choice(GINST)
        vi = rng.randrange(3)
        tag, call, nf = GVARS[vi]
        vs = [gen_value(rng, t) for _ in range(nf)]
        args = pack([py_encode(t, v) for v in vs])
        kind = ("callt" if rng.random() < 0.4 else "call") if call else "cast"
        tagb = tag.encode()
        r = rng.random()
        if r < 0.3:
            pass
        elif r < 0.6:
            args = mutate(rng, args)
        elif r < 0.7:
            args += b"\x00"
        elif r < 0.8:
            tagb = rng.choice([b"", b"v", b"Asks", b"Two", b"V"])
        elif r < 0.9:
            kind = rng.choice(["cast", "call", "reply"])
        else:
            args = pack([rng.choice([b"", b"\xff", b"\x00"]) for _ in range(nf)])
        m = smsg_coq(kind, tagb, args, None)
        g_de.add(f"genum de {t} {smsg_line(kind, tagb, args, None)}",
                 f"(deserialize {gtbl(t)} {m}, framing_ok_C19 {gtbl(t)} {m})", (kind, tagb, args))
    for _ in range(300 * N):
        t = rng.choice(GINST)
        vi = rng.randrange(3)
        vs = [gen_value(rng, t) for _ in range(GVARS[vi][2])]
        fc = "[" + "; ".join(val_coq(t, v) for v in vs) + "]"
        g_rt.add(f"genum rt {t} {vi} {'|'.join(val_line(t, v) for v in vs)}",
                 f"(serialize {gtbl(t)} {vi} {fc}, match serialize {gtbl(t)} {vi} {fc} with "
                 f"Some m => deserialize {gtbl(t)} m | None => None end)", (vi, t, vs))
    # ---- primitive message types (blanket Message impl), non-serializable message types
    p_de, p_rt, plain = Cases("msg de"), Cases("msg rt"), Cases("plain")
    for _ in range(800 * N):
        t = rng.choice(PRIMS)
        kind = rng.choice(["cast"] * 6 + ["call", "callt", "reply"])
        tagb = rng.choice([b"", b"", b"A", b"Tup"])
        args = mutate(rng, py_encode(t, gen_value(rng, t))) if rng.random() < 0.6 else \
            rng.choice([py_encode(t, gen_value(rng, t)), rand_bytes(rng, 12)])
        meta = None if rng.random() < 0.8 else rand_bytes(rng, 8)
        p_de.add(f"msg de {t} {smsg_line(kind, tagb, args, meta)}",
                 f"prim_deserialize {coq_ty(t)} {smsg_coq(kind, tagb, args, meta)}", (t, kind, args))
    for _ in range(400 * N):
        t = rng.choice(PRIMS)
        v = gen_value(rng, t)
        p_rt.add(f"msg rt {t} {val_line(t, v)}",
                 f"(prim_serialize {coq_ty(t)} {val_coq(t, v)}, "
                 f"prim_deserialize {coq_ty(t)} (prim_serialize {coq_ty(t)} {val_coq(t, v)}))", (t, v))
    for _ in range(30 * N):
        kind, tagb, args = gen_smsg()
        plain.add(f"plain {smsg_line(kind, rng.choice([b'A', b'B', tagb]), args, None)}", None, None)
    # ---- reply bridges of #[rpc] variants
    rp_rt, rp_de = Cases("reply rt"), Cases("reply de")
    for _ in range(400 * N):
        i = rng.choice(sorted(REPLY_TY))
        t = REPLY_TY[i]
        to = rng.choice(["none", "timeout"])
        v = gen_value(rng, t)
        rp_rt.add(f"reply rt {i} {to} {val_line(t, v)}",
                  f"(encode {coq_ty(t)} {val_coq(t, v)}, decode {coq_ty(t)} (encode {coq_ty(t)} {val_coq(t, v)}))", (i, t, v))
        b = mutate(rng, py_encode(t, gen_value(rng, t))) if rng.random() < 0.7 else rand_bytes(rng, 9)
        rp_de.add(f"reply de {i} {to} {hexs(b)}", f"({blist(b)}, decode {coq_ty(t)} {blist(b)})", (i, t, b))
    # ---- around the job wire form
    jo_misc, jobp = Cases("jo misc"), Cases("jobp de")
    for _ in range(150 * N):
        sub, ttl = gen_opts()
        sub = min(sub, 1_600_000_000 * 10**9)
        jo_misc.add(f"jo misc {sub} {'none' if ttl is None else ttl}", None, (sub, ttl))
    for _ in range(500 * N):
        k = rng.choice(KEYS)
        t = rng.choice(PRIMS)
        kind = rng.choice(["cast"] * 5 + ["call", "reply"])
        args = mutate(rng, py_encode(t, gen_value(rng, t))) if rng.random() < 0.4 else py_encode(t, gen_value(rng, t))
        meta = gen_meta(k)
        m = smsg_coq(kind, b"", args, meta)
        jobp.add(f"jobp de {k} {t} {smsg_line(kind, b'', args, meta)}",
                 f"(job_prim_deserialize {coq_ty(k)} {coq_ty(t)} {m}, meta_ok_C19 {coq_ty(k)} {m})", (k, t, kind, args, meta))
    # ---- live actors of primitive / non-serializable message types
    actor2 = Cases("actor2")
    for _ in range(150 * N):
        t = rng.choice(PRIMS + ["plain"])
        msgs = []
        for _ in range(rng.choice([2, 4, 7])):
            kind = rng.choice(["cast"] * 5 + ["call", "callt", "reply"])
            if t == "plain":
                _, tagb, args = gen_smsg()
                tagb = rng.choice([b"A", b"B", tagb])
            else:
                tagb = rng.choice([b"", b"x"])
                args = mutate(rng, py_encode(t, gen_value(rng, t))) if rng.random() < 0.6 else py_encode(t, gen_value(rng, t))
            msgs.append((kind, tagb, args, None))
        if t != "plain":
            msgs.append(("cast", b"", py_encode(t, gen_value(rng, t)), None))
        ms = "[" + "; ".join(smsg_coq(*m) for m in msgs) + "]"
        if t == "plain":
            line, model = "actor plain ", f"flat_map (fun m : smsg => @nil val) {ms}"
        else:
            line = f"actor prim:{t} "
            model = f"flat_map (fun m => match prim_deserialize {coq_ty(t)} m with POk v => [v] | _ => [] end) {ms}"
        actor2.add(line + ";".join(smsg_actor(*m) for m in msgs), model, (t, msgs))

    # ---- streams
    stream_cases = []   # dict(max, data, splits)
    for e in corpus["stream"]:
        data = bytes.fromhex(e["data"])
        stream_cases.append({"max": e["max"], "data": data, "splits": compositions(len(data), rng, "cuts12"),
                             "kind": "corpus"})
    n_streams = 350 * N
    for _ in range(n_streams):
        maxv, data = gen_stream(rng)
        how = rng.choice([2, 3, 5])
        sp = compositions(len(data), rng, how)
        stream_cases.append({"max": maxv, "data": data, "splits": sp, "kind": "random"})
    # all 1- and 2-cut splits of valid two-frame streams
    for _ in range(6 * N if quick else 40):
        p1, p2 = gen_payload(rng)[:12], rng.choice([b"", fld_bytes(2, b"")])
        data = frame(p1) + frame(p2)
        stream_cases.append({"max": 1000, "data": data, "splits": compositions(len(data), rng, "cuts12"),
                             "kind": "two-frame cuts"})
    # every composition of the smallest two-frame streams
    stream_cases.append({"max": 16, "data": frame(b"") + frame(b"") if quick else frame(fld_bytes(2, b"")) + frame(b""),
                         "splits": compositions(16 if quick else 18, rng, "all")[:: (8 if quick else 1)],
                         "kind": "two-frame all splits"})
    # oversized declarations with a visible size (allocation meter)
    for _ in range(30 * N):
        maxv = rng.choice([0, 10, 1000, 65536, 16 * 1024 * 1024])
        declared = rng.choice([maxv + 1, maxv + 70000, 1 << 20, 1 << 24, 1 << 26, 1 << 27])
        if declared <= maxv:
            declared = maxv + 1
        data = frame(bytes(rng.randrange(256) for _ in range(rng.choice([0, 5, 40]))), declared=declared)
        stream_cases.append({"max": maxv, "data": data, "splits": compositions(len(data), rng, 3), "kind": "oversized"})

    phase("generate")
    # declared lengths no Vec could hold, under a limit that would allow them
    for _ in range(8 * N):
        maxv = rng.choice([1 << 63, U64 - 1, (1 << 63) + 5])
        declared = rng.choice([1 << 63, maxv, (1 << 63) + 1])
        data = frame(b"") + frame(bytes(rng.randrange(256) for _ in range(rng.choice([0, 9]))), declared=declared)
        stream_cases.append({"max": maxv, "data": data, "splits": compositions(len(data), rng, 2), "kind": "unallocatable"})
    # live node server: garbage into one raw session (E4-style direct observation)
    live_cases = []
    for _ in range(120 * N):
        maxv = rng.choice([4096, 65536])
        parts = [frame(gen_payload(rng)) for _ in range(rng.choice([0, 0, 1, 2]))]
        data = b"".join(parts)
        r = rng.random()
        if r < 0.3:
            data += frame(bytes(rng.randrange(256) for _ in range(rng.choice([0, 4]))),
                          declared=rng.choice([maxv + 1, 1 << 24, 1 << 40, U64 - 1]))
        elif r < 0.55:
            data += frame(bytes([0xFF] * rng.choice([1, 3, 9])))
        elif r < 0.75:
            data += frame(gen_payload(rng) + b"\x12\x03abc")[:rng.choice([1, 7, 9, 11])]
        elif r < 0.85:
            data = mutate(rng, data)
        how = "close" if (0.55 <= r < 0.75 or rng.random() < 0.3) else "hold"
        transport = rng.choice(["mem", "mem", "tcp", "tls"])
        role = rng.choice(["server", "server", "client"])
        if rng.random() < 0.06:
            how, data = "dropfirst", b""
        elif rng.random() < 0.06:
            # the transport's write half breaks under a dialling node: that session (only) must go
            how, data, transport, role = rng.choice(["writefail", "flushfail"]), b"", "mem", "client"
        sizes = rng.choice([[len(data)], [1] * min(len(data), 12), compositions(len(data), rng, 1)[-1]]) if data else []
        live_cases.append({"max": maxv, "how": how, "data": data, "transport": transport, "role": role,
                           "sizes": [z for z in sizes if z]})
    # ================================================================== implementation, pass 1: prost validity
    cand = set()
    for c in live_cases:
        for p in py_frames(c["data"], c["max"], None):
            cand.add(p)
    for c in stream_cases:
        for p in py_frames(c["data"], c["max"], None):
            cand.add(p)
    cand = sorted(cand)
    vres = run_harness(build, "eng_codec", [f"valid {hexs(p)}" for p in cand], shards=4)
    validtbl = {}
    for p, r in zip(cand, vres):
        t = pt(r)
        validtbl[p] = bytes(t[1]) if isinstance(t, tuple) and t[0] == "Some" else None
    chk.count("payloads.valid", sum(1 for v in validtbl.values() if v is not None))
    chk.count("payloads.invalid", sum(1 for v in validtbl.values() if v is None))

    # ================================================================== implementation, pass 2
    # the writer side and the length check on their own
    fr_enc, cfl = Cases("frame enc"), Cases("cfl")
    for p0 in [p0 for p0 in cand if validtbl[p0] is not None][:200 * N]:
        fr_enc.add(f"frame {hexs(p0)}", f"Some (enc_frame {blist(validtbl[p0])})", p0)
    for _ in range(300 * N):
        mx = rng.choice([0, 1, 100, 16 * 1024 * 1024, (1 << 63) - 2, (1 << 63) - 1, 1 << 63, U64 - 1, rng.getrandbits(64)])
        ln = rng.choice([0, mx, (mx + 1) % U64, max(mx, 1) - 1, (1 << 63) - 1, 1 << 63, U64 - 1, rng.getrandbits(64),
                         rng.getrandbits(rng.choice([1, 8, 24, 40, 63]))])
        cfl.add(f"cfl {ln} {mx}", f"checked_frame_length {ln} {mx}", (ln, mx))
    groups = [bc_dec, bc_rt, en_de, en_rt, jo_rt, jo_de, job_de, job_rt, actor, fr_enc, cfl,
              en_box, g_de, g_rt, p_de, p_rt, plain, rp_rt, rp_de, jo_misc, jobp, actor2]
    lines = list(ex_lines)
    for g in groups:
        lines += g.lines
    st_index = []
    for ci, c in enumerate(stream_cases):
        for si, sizes in enumerate(c["splits"]):
            mode = "pend" if (ci + si) % 3 == 0 else "ready"
            lines.append(f"stream {c['max']} {hexs(c['data'])} {','.join(map(str, sizes)) or '-'} {mode}")
            st_index.append((ci, si, "mem"))
        # the same stream over real sockets (plain TCP, TLS accepting end, TLS dialling end): how the
        # chunks coalesce is up to the kernel; the outputs must still be the one-shot parse
        if c["kind"] != "two-frame all splits" and (ci % 2 == 0 or c["kind"] in ("corpus", "two-frame cuts")):
            for tr_, si in zip(rng.sample(["tcp", "tls", "tlsc"], 2), (0, len(c["splits"]) - 1)):
                sizes = c["splits"][si]
                mode = "pend" if (ci + si) % 2 == 0 else "ready"
                lines.append(f"stream {c['max']} {hexs(c['data'])} {','.join(map(str, sizes)) or '-'} {mode} {tr_}")
                st_index.append((ci, si, tr_))
    sr_index = []
    for ci, c in enumerate(stream_cases):
        if c["kind"] in ("random", "oversized", "unallocatable") and ci % 2 == 0 or c["kind"] == "corpus" or c["kind"] == "two-frame cuts" and ci % 3 == 0:
            sizes = c["splits"][-1]
            lines.append(f"sreader {c['max']} {hexs(c['data'])} {','.join(map(str, sizes)) or '-'} pend")
            sr_index.append(ci)
    for c in live_cases:
        lines.append(live_line(c))
    try:
        impl = run_harness(build, "eng_codec", lines, shards=8, timeout=1500)
    except RuntimeError as ex:
        if "harness panic" in str(ex):
            return infrastructure_failure(chk.prop, "the harness itself failed:\n" + str(ex)[-1500:])
        # the process died (abort / stack overflow / timeout): find the input
        bad = locate_crash(build, lines)
        hard("the decoding process crashed or hung on an input", {"harness_line": bad, "error": str(ex)[-800:]})
        return chk.finish(trusted_base=TRUSTED)

    phase("harness")
    pos = 0

    def take(n):
        nonlocal pos
        r = impl[pos:pos + n]
        pos += n
        return r

    # ================================================================== slice the answers
    ans = {"ex": [take(len(inputs)) for (_, _, inputs) in ex_info]}
    for g in groups:
        ans[g.kind] = take(len(g.lines))
    ans["stream"] = take(len(st_index))
    ans["sreader"] = take(len(sr_index))
    ans["live"] = take(len(live_cases))
    if pos != len(impl):
        raise RuntimeError(f"internal: consumed {pos} of {len(impl)} harness answers")

    # ---- streams: translate the implementation's answers, build oracle + model expressions
    got = ans['stream']
    per_case = {}
    for (ci, si, tr_), x in zip(st_index, got):
        per_case.setdefault(ci, []).append((si, x, tr_))
    exprs_model, exprs_oracle, prepared = [], [], []
    for ci, c in enumerate(stream_cases):
        data, maxv = c["data"], c["max"]
        raws = py_frames(data, maxv, validtbl)
        ok_payloads = sorted({p for p in py_frames(data, maxv, None) if validtbl.get(p) is not None})
        vt = "(valid_tbl [" + "; ".join(blist(p) for p in ok_payloads) + "])"
        answers, raw_answers, sock_answers = [], [], []
        for si, x, tr_ in per_case[ci]:
            if x == "SETUP_FAILED":
                chk.count("stream.socket_setup_failed")
                continue
            if x == "PANIC":
                hard("the frame reader panics", {"max": maxv, "stream": list(data), "split": c["splits"][si]})
                continue
            t = pt(x)
            outs, consumed, maxreq, peak = t[1], t[2], t[3], t[4]
            tr = []
            for j, o in enumerate(outs):
                if isinstance(o, tuple) and o[0] == "FMsg":
                    canon = bytes(o[1])
                    if j < len(raws) and validtbl.get(raws[j]) == canon:
                        tr.append(f"FMsg {blist(raws[j])}")
                    else:
                        tr.append("FMsg [999]")      # decoded to something else than this frame's payload
                elif isinstance(o, tuple) and o[0] == "FErr" and isinstance(o[1], str):
                    tr.append(f"FErr {o[1]}")
                else:
                    tr.append("FErr EDecode")        # unknown error class: never equal to the spec unless it is that
                    soft("unclassified reader error", {"impl": x})
            if tr_ == "mem":
                answers.append(f"([{'; '.join(tr)}], {consumed})")
            else:
                # bytes taken from a socket cannot be counted: only the outputs are judged
                over = len(data) >= 8 and int.from_bytes(data[:8], "big") > maxv
                sock_answers.append(f"([{'; '.join(tr)}], {8 if over else 0})")
                chk.count("stream.transport." + tr_)
            raw_answers.append((si, x, maxreq, peak))
        uniq = sorted(set(answers))
        prepared.append((ci, answers + sock_answers, raw_answers, uniq, sorted(set(sock_answers))))
        exprs_oracle.append(f"check_C19_stream {maxv} {vt} {blist(data)} [{'; '.join(uniq + sorted(set(sock_answers)))}]")
        # by C19_fragmentation the model's answer is the same for every split; evaluate it on
        # the one-chunk run and on one real split
        sizes = c["splits"][len(c["splits"]) // 2]
        ch = "[" + "; ".join(blist(x) for x in chunks_of(data, sizes)) + "]"
        exprs_model.append(f"[run {maxv} {vt} [{blist(data)}]; run {maxv} {vt} {ch}]")

    # ================================================================== model + oracles: one Coq run
    LET = "let tbl := " + TBL + " in "
    plan = Plan()
    plan.raw("x", [(LET + e) for grp in ex_exprs for e in grp])
    for g in groups:
        plan.many(g.kind, [m for m in g.models if m is not None], prelude=LET)
    plan.many("rt oracle", [
        f"check_C19_roundtrip {val_coq(t, v)} ({('None' if 'PANIC' in x else split_pair(x)[1])})"
        for (t, v), x in zip(bc_rt.meta, ans["bc rt"])])
    plan.many("ert oracle", [
        f"check_C19_enum_roundtrip {i} {fields_coq(i, vs)} ({split_pair(x)[1] if 'PANIC' not in x else 'None'})"
        for (i, vs), x in zip(en_rt.meta, ans["enum rt"])])
    plan.many("ebox oracle", [
        f"check_C19_enum_roundtrip {i} {fields_coq(i, vs)} ({split_pair(x)[1] if ('PANIC' not in x and 'DIFFERS' not in x) else 'None'})"
        for (i, vs), x in zip(en_box.meta, ans["enum box"])])
    plan.many("grt oracle", [
        "check_C19_enum_roundtrip {} [{}] ({})".format(vi, "; ".join(val_coq(t, v) for v in vs),
                                                       split_pair(x)[1] if 'PANIC' not in x else 'None')
        for (vi, t, vs), x in zip(g_rt.meta, ans["genum rt"])])
    plan.many("reply oracle", [
        f"check_C19_roundtrip {val_coq(t, v)} ({split_pair(x)[1] if x.startswith('(') and split_pair(x)[1].startswith(('Some', 'None')) else 'None'})"
        for (i, t, v), x in zip(rp_rt.meta, ans["reply rt"])])
    # what a dialling node wrote on its own must be a sequence of well-formed frames
    plan.many("live written", [
        "run {} (fun _ => true) [{}]".format(U64 - 1, split_top(x)[5] if x.count(",") >= 5 else "[]")
        for x in ans["live"]])
    plan.many("stream oracle", exprs_oracle)
    plan.many("stream model", exprs_model)
    live_exprs = []
    for c in live_cases:
        okp = sorted({p for p in py_frames(c["data"], c["max"], None) if validtbl.get(p) is not None})
        vt = "(valid_tbl [" + "; ".join(blist(p) for p in okp) + "])"
        live_exprs.append(f"existsb is_err (snd (feed {c['max']} {vt} init {blist(c['data'])}))")
    plan.many("live model", live_exprs)
    plan.run("C19")
    phase("coq")
    flat_res = plan.get_raw("x")
    ex_model, k0 = [], 0
    for grp in ex_exprs:
        parts = [norm(r).strip() for r in flat_res[k0:k0 + len(grp)]]
        k0 += len(grp)
        ex_model.append("[" + "; ".join(p[1:-1] for p in parts if p != "[]") + "]")
    ex_answers = iter(ans["ex"])
    for (kind, what, inputs), mo in zip(ex_info, ex_model):
        got = next(ex_answers)
        chk.coverage["evaluations"] += len(inputs)
        chk.count(f"exhaustive.{kind}", len(inputs))
        if kind == "stream":
            got_v = ["(" + ", ".join(x.strip()[1:-1].split(", ")[:2]) + ")" if x != "PANIC" else x for x in got]
        else:
            got_v = got
        a = norm("[" + "; ".join(got_v) + "]").replace(" ", "")
        b = norm(mo).replace(" ", "")
        if kind in ("enum de", "stream", "job de", "jo de") and any(x == "PANIC" for x in got):
            j = got.index("PANIC")
            if kind != "job de":
                hard(f"{kind} panics on an input of length <= 2", {"what": what, "input": list(inputs[j])})
        if a != b:
            mt = pt(mo)
            for j, (x, y) in enumerate(zip(got_v, mt)):
                if x != "PANIC" and pt(x) != y:
                    judge_small(chk, hard, soft, kind, what, inputs[j], x, y)
                    break
    phase("exhaustive model+compare")
    chk.coverage["exhaustive_part"] = (
        "all byte strings of length <= 2 (65793) as: from_bytes input of " + ", ".join(ex_types)
        + "; argument bytes of variants " + ", ".join(HMSG[i][0] for i in ex_variants)
        + "; job metadata; JobOptions bytes; whole stream. Length <= 1 for the remaining types/variants.")

    def model_of(g):
        idx = [i for i, m in enumerate(g.models) if m is not None]
        vals = plan.get(g.kind)
        out = [None] * len(g.models)
        for i, v in zip(idx, vals):
            out[i] = v
        return out

    # ---- bc dec
    got, mod = ans[bc_dec.kind], model_of(bc_dec)
    for ln, (t, b), x, y in zip(bc_dec.lines, bc_dec.meta, got, mod):
        chk.coverage["evaluations"] += 1
        chk.count("bc_dec." + ("ok" if x != "None" else "panic"))
        distinct.add(("d", t, b))
        if pt(x) != y:
            soft("BytesConvertable::from_bytes differs from the model",
                 {"harness_line": ln, "type": t, "bytes": list(b), "impl": x, "model": show_term(y)})
    # ---- bc rt (round-trip clause)
    got, mod = ans[bc_rt.kind], model_of(bc_rt)
    oracle = plan.get("rt oracle")
    for ln, (t, v), x, y, o in zip(bc_rt.lines, bc_rt.meta, got, mod, oracle):
        chk.coverage["evaluations"] += 1
        chk.count("bc_rt." + t)
        distinct.add(("r", t, str(v)))
        d = {"harness_line": ln, "type": t, "value": v if not isinstance(v, bytes) else list(v), "impl (bytes, back)": x,
             "model": show_term(y)}
        if o != "true":
            hard("round trip fails: from_bytes(into_bytes(v)) != v", d)
        elif pt(x) != y:
            soft("encoding differs from the model", d)
        if len(samples) < 2 and t in ("i128", "vchar"):
            samples.append(d)
    # ---- enum de
    got, mod = ans[en_de.kind], model_of(en_de)
    for ln, (kind, tagb, args), x, y in zip(en_de.lines, en_de.meta, got, mod):
        chk.coverage["evaluations"] += 1
        model_ans, framing_ok = y[1], y[2]
        chk.count("enum_de." + ("ok" if model_ans != "None" else ("badframing" if framing_ok == "false" else "badfield")))
        distinct.add(("e", kind, tagb, args))
        d = {"harness_line": ln, "kind": kind, "variant": tagb.decode(errors="replace"), "args": list(args), "impl": x,
             "model": show_term(model_ans), "framing_ok": framing_ok}
        if x == "PANIC":
            hard("generated decoder panics instead of returning an error", d)
        elif pt(x) != model_ans:
            if x != "None" and framing_ok == "false":
                hard("generated decoder accepts a payload with unknown variant / short or trailing bytes", d)
            else:
                soft("generated decoder differs from the model", d)
    # ---- enum rt
    got, mod = ans[en_rt.kind], model_of(en_rt)
    oracle = plan.get("ert oracle")
    for ln, (i, vs), x, y, o in zip(en_rt.lines, en_rt.meta, got, mod, oracle):
        chk.coverage["evaluations"] += 1
        chk.count("enum_rt." + HMSG[i][0])
        distinct.add(("er", i, str(vs)))
        d = {"harness_line": ln, "variant": HMSG[i][0], "fields": str(vs), "impl (serialized, back)": x, "model": show_term(y)}
        if "PANIC" in x:
            hard("generated (de)serializer panics on a well-formed value", d)
        elif o != "true":
            hard("round trip fails: deserialize(serialize(v)) != v", d)
        elif pt(x) != y:
            soft("serialized form differs from the model", d)
        if len(samples) < 4 and i in (8, 2):
            samples.append(d)
    # ---- enum through box_message / from_boxed: judged like enum rt
    got, mod = ans[en_box.kind], model_of(en_box)
    for ln, (i, vs), x, y, o in zip(en_box.lines, en_box.meta, got, mod, plan.get("ebox oracle")):
        chk.coverage["evaluations"] += 1
        chk.count("enum_box." + HMSG[i][0])
        distinct.add(("eb", i, str(vs)))
        d = {"harness_line": ln, "variant": HMSG[i][0], "fields": str(vs),
             "impl (box_message(remote).serialized_msg, from_boxed)": x, "model": show_term(y)}
        if "PANIC" in x:
            hard("box_message / from_boxed panics on a well-formed value", d)
        elif o != "true":
            hard("round trip fails: from_boxed(box_message(v, remote pid)) != v", d)
        elif pt(x) != y:
            soft("serialized form (box_message) differs from the model", d)
    # ---- generic derived enum
    got, mod = ans[g_de.kind], model_of(g_de)
    for ln, (kind, tagb, args), x, y in zip(g_de.lines, g_de.meta, got, mod):
        chk.coverage["evaluations"] += 1
        model_ans, framing_ok = y[1], y[2]
        chk.count("genum_de." + ("ok" if model_ans != "None" else ("badframing" if framing_ok == "false" else "badfield")))
        distinct.add(("ge", ln))
        d = {"harness_line": ln, "impl": x, "model": show_term(model_ans), "framing_ok": framing_ok}
        if x == "PANIC":
            hard("generated decoder (generic enum) panics instead of returning an error", d)
        elif pt(x) != model_ans:
            if x != "None" and framing_ok == "false":
                hard("generated decoder (generic enum) accepts unknown variant / short or trailing bytes", d)
            else:
                soft("generated decoder (generic enum) differs from the model", d)
    got, mod = ans[g_rt.kind], model_of(g_rt)
    for ln, meta, x, y, o in zip(g_rt.lines, g_rt.meta, got, mod, plan.get("grt oracle")):
        chk.coverage["evaluations"] += 1
        chk.count("genum_rt")
        distinct.add(("gr", ln))
        d = {"harness_line": ln, "impl (serialized, back)": x, "model": show_term(y)}
        if "PANIC" in x:
            hard("generated (de)serializer (generic enum) panics on a well-formed value", d)
        elif o != "true":
            hard("round trip fails (generic enum): deserialize(serialize(v)) != v", d)
        elif pt(x) != y:
            soft("serialized form (generic enum) differs from the model", d)
    # ---- primitive message types
    got, mod = ans[p_de.kind], model_of(p_de)
    for ln, (t, kind, args), x, y in zip(p_de.lines, p_de.meta, got, mod):
        chk.coverage["evaluations"] += 1
        chk.count("msg_de." + (y if isinstance(y, str) else y[0]))
        distinct.add(("pd", ln))
        if pt(x) != y:
            d = {"harness_line": ln, "impl": x, "model": show_term(y)}
            if x.startswith("POk") and y == "PErr":
                hard("a primitive message type accepts something that is not a cast", d)
            else:
                soft("Message::deserialize of a primitive type differs from the model", d)
    got, mod = ans[p_rt.kind], model_of(p_rt)
    for ln, (t, v), x, y in zip(p_rt.lines, p_rt.meta, got, mod):
        chk.coverage["evaluations"] += 1
        chk.count("msg_rt." + t)
        distinct.add(("pr", ln))
        d = {"harness_line": ln, "impl (serialized, back)": x, "model": show_term(y)}
        back = split_pair(x)[1]
        if back == "PPanic" or not back.startswith("POk") or pt(back) != ("POk", pt(val_coq(t, v))):
            hard("round trip fails: Message::deserialize(Message::serialize(v)) != v (primitive type)", d)
        elif pt(x) != y:
            soft("serialized form of a primitive message differs from the model", d)
    for ln, x in zip(plain.lines, ans[plain.kind]):
        chk.coverage["evaluations"] += 1
        chk.count("plain")
        if x != "(true, true, true, true)":
            d = {"harness_line": ln, "impl (not serializable, serialize errs, box to remote errs, deserialize errs)": x}
            if split_top(x)[3] != "true":
                hard("a message type that is not serializable does not answer a serialized message with an error", d)
            else:
                soft("defaults of the Message trait differ", d)
    # ---- reply bridges
    got, mod = ans[rp_rt.kind], model_of(rp_rt)
    for ln, (i, t, v), x, y, o in zip(rp_rt.lines, rp_rt.meta, got, mod, plan.get("reply oracle")):
        chk.coverage["evaluations"] += 1
        chk.count("reply_rt." + HMSG[i][0])
        distinct.add(("rr", ln))
        d = {"harness_line": ln, "impl (reply bytes on the wire, value at the caller)": x, "model": show_term(y)}
        if x == "PANIC":
            hard("a generated reply bridge panics", d)
        elif o != "true":
            hard("round trip fails: the reply value does not arrive unchanged at the caller", d)
        elif pt(x) != y:
            soft("reply encoding differs from the model", d)
    got, mod = ans[rp_de.kind], model_of(rp_de)
    for ln, (i, t, b), x, y in zip(rp_de.lines, rp_de.meta, got, mod):
        chk.coverage["evaluations"] += 1
        chk.count("reply_de." + ("delivered" if y[2] != "None" else "dropped"))
        distinct.add(("rd", ln))
        d = {"harness_line": ln, "impl (bytes, value at the caller)": x, "model": show_term(y)}
        if x == "PANIC":
            hard("a generated reply bridge panics on malformed reply bytes", d)
        elif "PENDING" in x:
            hard("malformed reply bytes leave the caller's reply port neither answered nor closed", d)
        elif pt(x) != y:
            soft("reply decoding differs from the model", d)
    # ---- around the job wire form
    for ln, (sub, ttl), x in zip(jo_misc.lines, jo_misc.meta, ans[jo_misc.kind]):
        chk.coverage["evaluations"] += 1
        eq_self, eq_back, exp_o, exp_b, fresh, weird = split_top(x)
        chk.count("jo_misc.partial_eq_after_roundtrip=" + eq_back)
        chk.count("jo_misc.expired=" + exp_o)
        d = {"harness_line": ln, "impl (o == o, decode(encode o) == o, original expired, decoded expired, "
             "Job::new round trip, inner CallReply rejected)": x}
        in_range = ttl is None or 0 < ttl < U64
        if fresh != "true" or exp_b == "DESER_FAILED":
            hard("round trip fails: a Job built with Job::new does not come back", d)
        elif in_range and exp_o != exp_b:
            soft("a job's expiry differs after a round trip of its options", d)
        elif eq_self != "true" or weird != "true":
            soft("JobOptions equality / Job::serialize of a misbehaving inner message differ", d)
    got, mod = ans[jobp.kind], model_of(jobp)
    for ln, meta, x, y in zip(jobp.lines, jobp.meta, got, mod):
        chk.coverage["evaluations"] += 1
        model_ans, meta_ok = y[1], y[2]
        chk.count("jobp_de." + (model_ans if isinstance(model_ans, str) else model_ans[0]))
        distinct.add(("jp", ln))
        if pt(x) != model_ans:
            d = {"harness_line": ln, "impl": x, "model": show_term(model_ans)}
            if x.startswith("JPOk") and meta_ok == "false":
                hard("job decoder (primitive inner message) accepts bad metadata", d)
            else:
                soft("Job<K, primitive>::deserialize differs from the model", d)
    # ---- live actors of primitive / non-serializable message types
    got, mod = ans[actor2.kind], model_of(actor2)
    for ln, (t, msgs), x, y in zip(actor2.lines, actor2.meta, got, mod):
        chk.coverage["evaluations"] += 1
        tt = pt(x)
        alive, sent, handled = tt[1], tt[2], tt[3]
        chk.count("actor." + ("plain" if t == "plain" else "prim"))
        distinct.add(("a2", ln))
        d = {"harness_line": ln, "impl (alive, sent, handled)": x, "model handled": show_term(y)}
        if alive != "true":
            hard("an undecodable payload harmed the receiving actor (it is no longer running)", d)
        elif t == "plain" and handled:
            hard("an actor whose message type is not serializable handled a serialized message", d)
        elif t != "plain" and (not handled or handled[-1] != y[-1]):
            hard("the actor no longer handles a well-formed message after undecodable ones", d)
        elif handled != y:
            soft("messages handled by the live actor differ from the model", d)
    # ---- JobOptions round trip (F5)
    got, mod = ans[jo_rt.kind], model_of(jo_rt)
    for ln, (s, ttl), x, y in zip(jo_rt.lines, jo_rt.meta, got, mod):
        chk.coverage["evaluations"] += 1
        t = pt(x)   # (orig, enc, back)
        d = {"harness_line": ln, "submit": s, "ttl_ns": ttl, "impl (original, bytes, back)": x}
        if "PANIC" in x:
            hard("JobOptions conversion panics on a well-formed value", d)
            continue
        orig, back = t[1], t[3]
        sig = opts_signature(orig, back)
        chk.count("jo_rt." + (sig or "ok"))
        distinct.add(("jo", s, ttl))
        if sig is not None:
            report_opts(chk, hard, sig, d)
        elif y is not None and ("tuple", t[2], t[3]) != y:
            soft("JobOptions encoding differs from the model", dict(d, model=show_term(y)))
    # ---- JobOptions decode of arbitrary bytes
    got, mod = ans[jo_de.kind], model_of(jo_de)
    for ln, b, x, y in zip(jo_de.lines, jo_de.meta, got, mod):
        chk.coverage["evaluations"] += 1
        distinct.add(("jd", b))
        if x == "PANIC":
            hard("JobOptions::from_bytes panics", {"bytes": list(b)})
        elif pt(x) != y:
            soft("JobOptions::from_bytes differs from the model", {"bytes": list(b), "impl": x, "model": show_term(y)})
    # ---- job de
    got, mod = ans[job_de.kind], model_of(job_de)
    for ln, (k, kind, tagb, args, meta), x, y in zip(job_de.lines, job_de.meta, got, mod):
        chk.coverage["evaluations"] += 1
        model_ans, meta_ok = y[1], y[2]
        head = model_ans if isinstance(model_ans, str) else model_ans[0]
        chk.count("job_de." + head)
        distinct.add(("j", k, kind, tagb, args, meta))
        d = {"harness_line": ln, "key_type": k, "kind": kind, "variant": tagb.decode(errors="replace"), "args": list(args),
             "metadata": None if meta is None else list(meta), "impl": x, "model": show_term(model_ans)}
        if pt(x) != model_ans:
            if x.startswith("JOk") and meta_ok == "false":
                hard("job decoder accepts bad metadata", d)
            else:
                soft("Job::deserialize differs from the model", d)
    # ---- job rt
    got, mod = ans[job_rt.kind], model_of(job_rt)
    for ln, (k, key, s, ttl, i, vs), x, y in zip(job_rt.lines, job_rt.meta, got, mod):
        chk.coverage["evaluations"] += 1
        d = {"harness_line": ln, "key_type": k, "key": str(key), "submit": s, "ttl_ns": ttl, "variant": HMSG[i][0], "fields": str(vs),
             "impl (options, serialized, back)": x, "model back": show_term(y)}
        if "PANIC" in x or "SER_" in x or "JErr" in x:
            hard("Job (de)serialization fails on a well-formed value", d)
            continue
        t = pt(x)
        back = t[3]   # JOk key (JOpts o) i vs
        orig = t[1]
        sig = opts_signature(orig, back[2])
        chk.count("job_rt." + (sig or "ok"))
        distinct.add(("jr", k, str(key), s, ttl, i, str(vs)))
        want_key, want_fields = pt(val_coq(k, key)), pt(fields_coq(i, vs))
        if back[0] != "JOk" or back[1] != want_key or back[3] != i or back[4] != want_fields:
            hard("round trip fails: Job::deserialize(Job::serialize(j)) != j", d)
        elif sig is not None:
            report_opts(chk, hard, sig, d)
        elif back != y:
            soft("Job round trip differs from the model", d)
    # ---- encode_network_message, checked_frame_length
    for g in (fr_enc, cfl):
        got, mod = ans[g.kind], model_of(g)
        for ln, meta, x, y in zip(g.lines, g.meta, got, mod):
            chk.coverage["evaluations"] += 1
            chk.count(g.kind.replace(" ", "_"))
            distinct.add((g.kind, meta))
            if pt(x) != y:
                d = {"harness_line": ln, "impl": x, "model": show_term(y)}
                if g.kind == "cfl" and meta[0] > meta[1] and x == "None":
                    hard("checked_frame_length accepts a length above the maximum", d)
                else:
                    soft(f"{g.kind} differs from the model", d)
    # ---- live actors
    got, mod = ans[actor.kind], model_of(actor)
    for ln, (who, msgs), x, y in zip(actor.lines, actor.meta, got, mod):
        chk.coverage["evaluations"] += 1
        t = pt(x)
        alive, sent, handled = t[1], t[2], t[3]
        chk.count("actor." + who.split(":")[0])
        chk.count("actor.dropped_messages", len(msgs) - len(handled))
        distinct.add(("a", who, str(msgs)))
        d = {"harness_line": ln, "actor": who, "messages": [smsg_actor(*m) for m in msgs], "impl (alive, sent, handled)": x,
             "model handled": show_term(y)}
        if alive != "true":
            hard("an undecodable payload harmed the receiving actor (it is no longer running)", d)
        elif not handled or handled[-1] != y[-1]:
            hard("the actor no longer handles a well-formed message after undecodable ones", d)
        elif handled != y:
            soft("messages handled by the live actor differ from the model", d)
        if len(samples) < 5:
            samples.append(d)

    phase("codec model+compare")
    # ---- streams (judgement)
    o_res = plan.get("stream oracle")
    m_res = plan.get("stream model")
    for (ci, answers, raw_answers, uniq, usock), o, m in zip(prepared, o_res, m_res):
        c = stream_cases[ci]
        data, maxv = c["data"], c["max"]
        chk.coverage["evaluations"] += len(answers)
        chk.count("stream." + c["kind"], len(answers))
        distinct.add(("s", maxv, data))
        declared = int.from_bytes(data[:8], "big") if len(data) >= 8 else None
        d = {"harness_line (one chunk)": f"stream {maxv} {hexs(data)} - ready",
             "max": maxv, "stream": list(data) if len(data) <= 200 else data.hex(), "splits": len(c["splits"]),
             "distinct impl answers": uniq, "distinct impl answers over sockets (tcp/tls; byte count not observable)": usock,
             "model (one chunk, one split)": show_term(m)}
        last = m[0][1][-1] if m[0][1] else None
        chk.count("stream.end." + (show_term(last) if last is not None else "none"))
        if o != "true":
            if len(uniq) > 1 or len({a.rsplit(",", 1)[0] for a in uniq + usock}) > 1:
                hard("the same stream is decoded differently under different fragmentations", d)
            else:
                hard("frame reader violates the framing rules (see check_C19_stream)", d)
            continue
        if m[0] != m[1]:
            soft("model disagrees with itself across splits (C19_fragmentation)", d)
        for a in uniq:
            if pt(a) != m[0]:
                soft("frame reader differs from the model (bytes consumed)", dict(d, impl=a))
        for si, x, maxreq, peak in raw_answers:
            if declared is not None and declared > maxv and 65536 <= declared <= (1 << 27) and peak >= declared:
                hard("an oversized frame's payload was allocated before the length check",
                     dict(d, declared=declared, largest_allocation=peak, split=c["splits"][si]))
                break
        if len(samples) < 7 and c["kind"] in ("random", "oversized") and len(data) < 60:
            samples.append(d)

    # ---- the real SessionReader actor
    got = ans['sreader']
    for ci, x in zip(sr_index, got):
        c = stream_cases[ci]
        chk.coverage["evaluations"] += 1
        chk.count("sreader")
        # model answer from the stream pass
        mi = [p[0] for p in prepared].index(ci)
        m = m_res[mi][0][1]
        t = pt(x)
        objs, reason = t[1], t[2][1] if isinstance(t[2], tuple) else str(t[2])
        raws = py_frames(c["data"], c["max"], validtbl)
        want_msgs = [o for o in m if isinstance(o, tuple) and o[0] == "FMsg"]
        want_err = m[-1] if m and isinstance(m[-1], tuple) and m[-1][0] == "FErr" else None
        want_reason = "channel_closed" if want_err == ("FErr", "EEof") else "frame_read_error"
        d = {"max": c["max"], "stream": list(c["data"]) if len(c["data"]) <= 200 else c["data"].hex(),
             "impl (objects, stop reason, bytes taken, reads after eof)": x, "model": show_term(m)}
        got_raw = []
        for j, o in enumerate(objs):
            canon = bytes(o[1])
            got_raw.append(("FMsg", list(raws[j])) if j < len(raws) and validtbl.get(raws[j]) == canon else ("FMsg", [999]))
        if reason.startswith("FAILED"):
            hard("the session reader actor failed instead of stopping itself", d)
        elif len(got_raw) > len(want_msgs) or got_raw != want_msgs[:len(got_raw)]:
            hard("the session reader delivered something that is not the stream's valid frames", d)
        elif got_raw != want_msgs or reason != want_reason:
            soft("session reader differs from the model", d)

    # ---- live node: a bad frame closes that session only
    for c, x, framing_error, written in zip(live_cases, ans["live"], plan.get("live model"), plan.get("live written")):
        chk.coverage["evaluations"] += 1
        t = pt(x)
        link_before, raw1_closed, others_closed, server_ok, link_ready = t[1:6]
        must_close = framing_error == "true" or c["how"] in ("close", "dropfirst", "writefail", "flushfail")
        chk.count("live." + ("must_close" if must_close else "may_stay"))
        chk.count(f"live.{c['transport']}.{c['role']}")
        distinct.add(("l", c["max"], c["how"], c["data"], c["transport"], c["role"]))
        w_outs = written[1]
        if t[6] and not (all(o[0] == "FMsg" for o in w_outs[:-1]) and w_outs[-1] == ("FErr", "EEof")):
            hard("what a session wrote on its own is not a sequence of well-formed frames",
                 {"harness_line": live_line(c), "written": t[6], "one-shot parse": show_term(written)})
        elif t[6]:
            chk.count("live.frames_written_by_node", len(w_outs) - 1)
        d = {"harness_line": live_line(c), "transport": c["transport"], "role of the node": c["role"],
             "max": c["max"], "then": c["how"], "bytes written into session raw1": list(c["data"]),
             "impl (link ready before, raw1 closed, another session closed, node server answers, link still ready)": x,
             "model: framing error before end of input": framing_error}
        if link_before != "true":
            # not this property's business (C18/C20): recorded, no verdict
            chk.count("live.setup_failed")
            if not any("live scenario" in n for n in chk.notes):
                chk.notes.append("live scenario could not be set up (node servers did not start or did not become "
                                 "ready); live cases skipped")
        elif others_closed != "false" or server_ok != "true" or link_ready != "true":
            hard("bytes sent into one session harmed the node server or another session", d)
        elif must_close and raw1_closed != "true":
            hard("a truncated or undecodable frame did not close its session", d)
        if len(samples) < 9 and must_close and len(c["data"]) < 40:
            samples.append(d)
    phase("stream model+compare")
    chk.coverage["traces_validated_against_impl"] = chk.coverage["evaluations"]
    chk.coverage["distinct_nontrivial"] = len(distinct)
    chk.coverage["rule"] = (
        "exhaustive: every byte string of length <= 2 through from_bytes / derived deserialize / job metadata / "
        "JobOptions / the frame reader (see exhaustive_part); generated: seeded values of every built-in type "
        "(edges + random) for round trips; mostly well-formed serialized messages damaged in the ways the property "
        "lists (unknown variant, short/trailing bytes, panicking conversion, bad metadata, wrong kind, bit flips in "
        "length prefixes); frame streams of valid protobuf payloads with truncation / oversized declaration / "
        "undecodable payload / mutation, each under several fragmentations (all 1- and 2-cut splits and all "
        "compositions for small two-frame streams), through read_network_message and through the real SessionReader "
        "actor; live actors fed through send_serialized. distinct_nontrivial = distinct generated (non-exhaustive) "
        "case descriptions")
    chk.notes.append("session-level clause (a bad frame closes that session only): besides the model + SessionReader "
                     "correspondence, `live` cases start two real NodeServers with an authenticated in-memory link and "
                     "two raw inbound sessions, write the generated bytes into one raw session and observe (no model "
                     "for the node server): that session is disconnected when the model predicts a framing error or the "
                     "stream ends; the other raw session, the authenticated link and the node server stay up")
    return chk.finish(trusted_base=TRUSTED)


def live_line(c):
    return (f"live {c['max']} {c['how']} {hexs(c['data'])} {c['transport']} {c['role']} "
            f"{','.join(map(str, c['sizes'])) or '-'}")


def split_top(x):
    """top-level components of the harness's '(a, b, c, ...)'"""
    out, depth, cur = [], 0, ""
    for ch in x.strip()[1:-1]:
        if ch in "([":
            depth += 1
        elif ch in ")]":
            depth -= 1
        if ch == "," and depth == 0:
            out.append(cur.strip())
            cur = ""
        else:
            cur += ch
    out.append(cur.strip())
    return out


def split_pair(x):
    """split the harness's '(A, B)' at the top-level comma"""
    depth = 0
    s = x.strip()[1:-1]
    for i, ch in enumerate(s):
        if ch in "([":
            depth += 1
        elif ch in ")]":
            depth -= 1
        elif ch == "," and depth == 0:
            return s[:i].strip(), s[i + 1:].strip()
    raise ValueError(x)


def opts_signature(orig, back):
    """None if the options came back unchanged; else a signature of the difference.
    orig = (mkJo s ttl); back = (JOpts (mkJo s ttl)) | JDefault"""
    def fields(t):
        s, ttl = t[1], t[2]
        return s, (None if ttl == "None" else ttl[1])
    s0, t0 = fields(orig)
    if back == "JDefault" or not isinstance(back, tuple):
        return "jopts-roundtrip:default"
    s1, t1 = fields(back[1])
    if (s0, t0) == (s1, t1):
        return None
    if s0 == s1 and t0 == 0 and t1 is None:
        return "jopts-roundtrip:ttl=Some(0)->None"
    if s0 == s1 and t0 is not None and t0 >= U64 and (t1 or 0) == t0 % U64:
        return "jopts-roundtrip:ttl>=2^64ns wraps"
    return "jopts-roundtrip:other"


def report_opts(chk, hard, sig, d):
    for f in chk.finding_entries():
        if f.get("signature") == sig:
            chk.known_finding(f["id"], f["what"])
            return
    hard("round trip fails: JobOptions::from_bytes(into_bytes(o)) != o [" + sig + "]", d)


def judge_small(chk, hard, soft, kind, what, inp, impl, model):
    d = {"kind": kind, "what": what, "input": list(inp), "impl": impl, "model": show_term(model)}
    if kind == "enum de" and impl != "None" and model == "None":
        hard("generated decoder accepts a payload that does not decode (input of length <= 2)", d)
    elif kind == "stream":
        hard("frame reader mishandles a stream of length <= 2", d)
    else:
        soft(f"{kind} differs from the model on an input of length <= 2", d)


def locate_crash(build, lines):
    """bisect for an input on which the harness process dies"""
    lo, hi = 0, len(lines)
    while hi - lo > 1:
        mid = (lo + hi) // 2
        try:
            run_harness(build, "eng_codec", lines[lo:mid], timeout=600)
            lo = mid
        except RuntimeError:
            hi = mid
    return lines[lo] if lo < len(lines) else None
