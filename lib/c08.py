"""C08 — a failed or cancelled spawn leaves nothing behind (DESIGN.md section 4/C08).
Engine E1 (eng_spawn) against coq/Spawn/Model.v."""
import itertools
import json
import os

from common import *

IMPORTS = "Spawn.Model"
KINDS = {0: "spawn", 1: "spawn_linked", 2: "spawn_instant", 3: "spawn_linked_instant",
         4: "tl_spawn", 5: "tl_spawn_linked", 6: "tl_spawn_instant", 7: "tl_spawn_linked_instant",
         8: "ActorCell::spawn_linked", 9: "spawn_linked_remote(local id)", 10: "spawn_linked_remote(remote id)"}
LINKED = (1, 3, 5, 7, 8, 9, 10)
TL = (4, 5, 6, 7)
INSTANT = (2, 3, 6, 7)
SUP_INIT = {"none": ("None", 2, False), "run": ("(Some 4)", 2, False), "draining": ("(Some 4)", 4, False),
            "stopping": ("(Some 4)", 5, False), "dead": ("(Some 4)", 6, True)}
EFF = {"g": "EGate", "j1": "EJoin 1", "j2": "EJoin 2", "m1": "EMon 1", "m2": "EMon 2", "l": "ELinkTo 8",
       "a": "EAdopt 7", "s": "ESend"}
FIN = {"ok": "ROk", "err": "RErr", "panic": "RPanic", "bpanic": "RPanic"}
SYNC_EFFS = ("j1", "j2", "m1", "m2", "l", "s")


def scn_line(s, idx):
    return (f"{idx} {s['kind']} {int(s['named'])} {int(s['holder'])} {s['sup']} | "
            + " ".join(s["script"]) + " " + s["fin"] + " | " + " ; ".join(s["ops"]))


def init_term(s):
    sp, sst, scl = SUP_INIT[s["sup"]]
    if s["kind"] not in LINKED:
        sp = "None"
    scr = "[" + "; ".join(EFF[t] for t in s["script"]) + "]"
    return (f"init {b(s['named'])} {sp} {b(s['kind'] in TL)} {scr} {FIN[s['fin']]} "
            f"{'(Some 9)' if s['holder'] else 'None'} {sst} {b(scl)} {b(s['kind'] == 10)}")


def b(x):
    return "true" if x else "false"


def chunks_for(s):
    """harness operations -> label chunks (one chunk per settle). Labels that are not enabled are
    no-ops of the model, so the pipeline labels are offered at every settle.
    Thread-local kinds: while the spawner thread is blocked the start-up task cannot run, so neither
    pre_start progress nor the Kill is offered; dropping the spawn future while the request is queued
    takes effect (abort of the start-up task, guard cleanup) when the spawner gets to the request."""
    script = s["script"]
    pos, opened, returned, spawned, created = 0, 0, False, False, False
    blocked, abort_pending, begun = False, False, False
    ncall, nwait = 0, 0
    chunks, cur = [], []
    instant = s["kind"] in INSTANT
    tl = s["kind"] in TL
    for op in s["ops"]:
        if op == "spawn":
            spawned = s["kind"] != 9      # a local id is refused before ActorCell::new_remote: nothing is created
            if instant:
                cur.append("LNew")
                created = True
        elif op == "block":
            blocked = True
        elif op == "release":
            blocked = False
        elif op == "open":
            opened += 1
        elif op == "kill":
            cur.append("LKill")
        elif op == "drain":
            cur.append("LDrain")
        elif op == "abort":
            if tl and begun and blocked:
                abort_pending = True
            else:
                cur.append("LAbort")
        elif op == "cast":
            cur.append("LSend None")
        elif op == "call":
            ncall += 1
            cur.append(f"LSend (Some {ncall})")
        elif op == "wait":
            nwait += 1
            cur.append(f"LWait {nwait}")
        elif op == "supkill":
            cur += ["LSupTake", "LSupStatus 6", "LSupClose"]
        elif op == "supstop":
            cur.append("LSupStatus 5")
        elif op.startswith("extjoin"):
            cur.append(f"LJoin {op[7:]}")
        elif op.startswith("extmon"):
            cur.append(f"LMon {op[6:]}")
        elif op == "extlink":
            cur.append("LLinkExt 8")
        elif op == "reuse":
            cur.append("LReuseName 9")
        elif op == "settle":
            if spawned:
                if not created:
                    cur.append("LNew")
                    created = True
                cur.append("LBegin")
                begun = True
                if abort_pending and not blocked:
                    cur.append("LAbort")
                    abort_pending = False
                if not blocked:
                    cur.append("LSeeKill")
                    while pos < len(script):
                        if script[pos] == "g":
                            if script[:pos].count("g") < opened:
                                cur.append("LEff")
                                pos += 1
                            else:
                                break
                        else:
                            cur.append("LEff")
                            pos += 1
                    if pos == len(script) and not returned:
                        cur.append("LEff")
                        returned = True
                    cur.append("LLinkSup")
                cur += ["LClean"] * 6
            chunks.append(cur)
            cur = []
        else:
            raise ValueError(op)
    return chunks


def chunks_term(chunks):
    return "[" + "; ".join("[" + "; ".join(c) + "]" for c in chunks) + "]"


# ---------------------------------------------------------------------------------------
# generators

def rand_script(rng, ngates):
    pool = ["j1", "j2", "m1", "m2", "l", "a", "s", "a"]
    rng.shuffle(pool)
    effs = pool[:rng.randint(0, 5)]
    # never the same join/monitor twice (the model keeps lists, the code keeps sets)
    seen, out = set(), []
    for e in effs:
        if e in ("j1", "j2", "m1", "m2", "l") and e in seen:
            continue
        seen.add(e)
        out.append(e)
    for _ in range(ngates):
        out.insert(rng.randint(0, len(out)), "g")
    return out


ENV_OPS = ["cast", "call", "wait", "extjoin3", "extlink", "call", "wait"]


def build(rng, kind, named, holder, sup, script, fin, cause, cut, early=None, env=0, post=True, queued=None):
    """cause in none|kill|abort|drain|supkill|supstop, applied while parked at gate #cut.
    queued (thread-local kinds only): None, or the operation issued while the start request is still
    queued behind a busy spawner thread ('none' = just queued for a while)"""
    ops = []
    if queued is not None:
        ops.append("block")
    ops.append("spawn")
    if early:
        ops.append(early)
    ops.append("settle")
    if queued is not None:
        for _ in range(env):
            if rng.random() < 0.5:
                ops += [rng.choice(ENV_OPS), "settle"]
        if queued != "none":
            ops += [queued, "settle"]
        ops += ["release", "settle"]
    ngates = script.count("g")
    for g in range(ngates):
        # parked at gate g
        for _ in range(env):
            if rng.random() < 0.5:
                ops += [rng.choice(ENV_OPS), "settle"]
        if cause != "none" and g == cut:
            ops += [cause, "settle"]
        ops += ["open", "settle"]
    if post:
        for o in rng.sample(["cast", "call", "wait", "extjoin3", "reuse", "extlink"], rng.randint(1, 4)):
            if o == "reuse" and not named:
                continue
            ops += [o, "settle"]
    tag = cause if cause != "none" else fin
    if queued not in (None, "none"):
        tag = "queued-" + queued
    if kind == 10:
        # a message of a non-serializable type cannot even be boxed for a remote id: sends are refused for a
        # reason that has nothing to do with the spawn; keep them out and do not compare the send probe
        ops = [o for i, o in enumerate(ops) if o not in ("cast", "call")]
    return {"kind": kind, "named": named, "holder": holder, "sup": sup, "script": script, "fin": fin,
            "ops": ops, "tag": f"{KINDS[kind]}:{tag}"}


def gen_systematic(rng):
    out = []
    script = ["j1", "m2", "a", "g", "l", "g"]
    for kind in range(11):
        linked = kind in LINKED
        sups = ["run", "draining", "stopping", "dead"] if linked else ["none"]
        for sup in sups:
            for fin in ("ok", "err", "panic"):
                out.append(build(rng, kind, True, False, sup, script, fin, "none", 0, env=1))
            # pre_start panics while BUILDING its future: the panic unwinds through the start future
            for scr in (["j1", "m2", "l"], []):
                out.append(build(rng, kind, True, False, sup, scr, "bpanic", "none", 0, env=1))
            for cause in ("kill", "abort", "drain") + (("supkill", "supstop") if linked and sup == "run" else ()):
                for cut in (0, 1):
                    out.append(build(rng, kind, False, False, sup, script, "ok", cause, cut, env=1))
        for early in ("kill", "abort", "drain", "cast", "call", "wait") if kind in INSTANT else ():
            out.append(build(rng, kind, True, False, sups[0], script, "ok", "none", 0, early=early))
        # name taken
        out.append(build(rng, kind, True, True, sups[0], script, "ok", "none", 0, env=1))
        if kind == 10:
            # a remote-id cell named like a LIVE LOCAL actor, failing by each cause: the holder must keep its name
            for sup in ("run", "draining", "stopping", "dead"):
                for fin in ("err", "panic", "ok"):
                    out.append(build(rng, kind, True, True, sup, script, fin, "none", 0, env=1))
                for cause in ("kill", "abort", "drain", "supkill", "supstop") if sup == "run" else ():
                    for cut in (0, 1):
                        out.append(build(rng, kind, True, True, sup, script, "ok", cause, cut, env=1))
        # thread-local: the spawn future dropped / the actor killed / drained / the supervisor killed while
        # the start request is still queued at a busy spawner
        if kind in TL:
            for q in ("abort", "kill", "drain", "none") + (("supkill",) if linked else ()):
                for fin in ("ok", "err"):
                    for scr in (script, ["j1"], []):
                        out.append(build(rng, kind, True, False, sups[0], scr, fin, "none", 0, env=1, queued=q))
    return out


def gen_random(rng, count):
    out = []
    for _ in range(count):
        kind = rng.choice([0, 1, 2, 3, 4, 5, 6, 7, 8, 8, 9, 10, 10])
        linked = kind in LINKED
        queued = None
        if kind in TL and rng.random() < 0.45:
            queued = rng.choice(["abort", "abort", "kill", "drain", "none"] + (["supkill"] if linked else []))
        # a queued non-instant thread-local spawn can only be reached through the registry
        named = True if (queued is not None and kind in (4, 5)) else rng.random() < 0.6
        holder = named and queued is None and rng.random() < (0.7 if kind == 10 else 0.15)
        sup = rng.choice(["run", "run", "draining", "stopping", "dead"]) if linked else "none"
        if queued == "supkill":
            sup = "run"
        ngates = rng.randint(0, 3)
        script = rand_script(rng, ngates)
        fin = rng.choice(["ok", "ok", "err", "panic", "bpanic"])
        if fin == "bpanic":
            script = [e for e in script if e in SYNC_EFFS]
            ngates = 0
        causes = ["none", "kill", "abort", "drain"] + (["supkill", "supstop"] if linked and sup == "run" and queued != "supkill" else [])
        cause = rng.choice(causes) if ngates else "none"
        cut = rng.randrange(ngates) if ngates else 0
        early = rng.choice([None, None, "kill", "abort", "drain", "cast", "call", "wait"]) if kind in INSTANT else None
        out.append(build(rng, kind, named, holder, sup, script, fin, cause, cut, early=early,
                         env=rng.choice([0, 1, 2]), queued=queued))
    return out


def load_corpus():
    d = os.path.join(ROOT, "corpus", "C08")
    out = []
    if os.path.isdir(d):
        for f in sorted(os.listdir(d)):
            if f.endswith(".json"):
                s = json.load(open(os.path.join(d, f)))
                s["tag"] = "corpus:" + f
                out.append(s)
    return out


def run(chk):
    quick = chk.tier == "quick"
    ok_proofs = chk.proofs()
    factor = 1 if ok_proofs else 5
    if os.environ.get("RV_C08_BIN_DIR"):
        build_ = {"ok": True, "dir": os.environ["RV_C08_BIN_DIR"], "log": "", "wall_s": 0}
    else:
        build_ = cargo_build(["eng_spawn"])
    if not build_["ok"]:
        ok, log = repo_builds_without_hooks()
        if not ok:
            return infrastructure_failure(chk.prop, "/repo does not compile even without hooks:\n" + log[-1500:])
        chk.violation("harness no longer builds against /repo with hooks on",
                      "correspondence E1:eng_spawn cannot be built against the current tree\n" + build_["log"][-3000:],
                      failing_input=False)
        return chk.finish(trusted_base=TRUSTED)

    if chk.replay:
        scns = []
        for line in open(chk.replay):
            if line.startswith("scenario-json: "):
                s = json.loads(line[len("scenario-json: "):])
                s["tag"] = "replay"
                scns.append(s)
    else:
        scns = load_corpus() + gen_systematic(chk.rng) + gen_random(chk.rng, (500 if quick else 6000) * factor)

    lines = [scn_line(s, f"{chk.seed}x{i}") for i, s in enumerate(scns)]
    impl = run_harness(build_, "eng_spawn", lines, shards=8)
    impl_t = [parse_term(x) for x in impl]

    exprs = []
    for s in scns:
        exprs.append(f"run_chunks {chunks_term(chunks_for(s))} ({init_term(s)})")
    for s, it in zip(scns, impl_t):
        final = show_term(it[1][-1])
        exprs.append(f"(check_C08 {final}, check_clash {final}, check_C08_holder {final})")
    vals = coq_eval("C08", IMPORTS, exprs)
    N = len(scns)
    distinct = set()
    for i, s in enumerate(scns):
        mt = parse_term(vals[i])
        iv, res, existed = impl_t[i][1], impl_t[i][2], impl_t[i][3]
        oracle = parse_term(vals[N + i])
        failed = res != ("Some", "true")
        chk.coverage["evaluations"] += 1
        chk.count("api." + KINDS[s["kind"]])
        chk.count("outcome." + ("failed" if failed else "running"))
        chk.count("tag." + s["tag"])
        chk.count("sup." + s["sup"])
        for t in s["script"]:
            chk.count("eff." + t)
        if failed:
            distinct.add(scn_line(s, "x"))
        desc = (f"scenario: {scn_line(s, 'r0')}\n"
                f"scenario-json: {json.dumps({k: s[k] for k in ('kind', 'named', 'holder', 'sup', 'script', 'fin', 'ops')})}\n"
                f"spawn result: {show_term(res)}   cell existed: {existed}\n"
                f"impl : {show_term(iv)}\nmodel: {vals[i]}\n")
        bad = None
        reused = "reuse" in s["ops"]
        if failed and existed == "true" and oracle[1] != "true":
            bad = "check_C08 (residue_free on the implementation's final observation) is false: " + explain(iv[-1])
        elif failed and existed == "true" and s["holder"] and not reused and oracle[3] != "true":
            bad = ("check_C08_holder is false: the failed spawn carried the name of a live actor and that holder "
                   "no longer owns the name (registry::where_is(name) is not the running holder)")
        elif failed and existed != "true" and s["holder"] and oracle[2] != "true":
            bad = "check_clash is false: the name clash disturbed the holder or left something of the new actor"
        if bad:
            chk.violation(bad, "C08 oracle rejects the implementation's observation after a failed spawn\n" + bad + "\n" + desc
                          + "replay: python3 bin/check.py C08 --replay <this file>\n")
        elif mask_unseen(s, mt, iv) != mask_unseen(s, iv, iv):
            chk.coverage["disagreements_checked"] += 1
            first = next((j for j, (x, y) in enumerate(zip(mt, iv)) if x != y), None)
            chk.violation("model/implementation observations differ",
                          f"correspondence E1:spawn-view differs (oracle accepts); first differing settle #{first}\n" + desc,
                          failing_input=False)
        if len(chk.coverage["samples"]) < 3 and failed and i % 41 == 3:
            chk.coverage["samples"].append({"scenario": scn_line(s, "r0"), "impl": show_term(iv), "model": vals[i]})
    chk.coverage["traces_validated_against_impl"] = N
    chk.coverage["distinct_nontrivial"] = len(distinct)
    chk.coverage["rule"] = ("corpus + systematic (8 spawn APIs incl. thread-local, cancellation while queued at a busy spawner; 4 spawn APIs x supervisor state x {Err, panic, kill, abort, drain, supervisor "
                            "killed/stopping} x cut at each gate, early operations on instant spawns, taken name) + seeded random "
                            "scenarios; non-trivial = the spawn did not produce a running actor; distinct = distinct scenario texts")
    chk.coverage["exhaustive_part"] = "systematic list over APIs x causes x cut points for a script with 2 await points"
    return chk.finish(trusted_base=TRUSTED)


def mask_unseen(s, obs_list, impl_list):
    """A non-instant thread-local spawn that fails before pre_start runs (supervisor link refused at the
    very beginning) never hands its cell to anybody: its status cannot be read through any public API.
    Where the implementation's observation has no cell (status 0) the status field is not compared."""
    if s["kind"] == 10:
        return [tuple(o[:13]) + ("false",) + tuple(o[14:]) for o in obs_list]
    if s["kind"] not in (4, 5):
        return obs_list
    out = []
    for o, i in zip(obs_list, impl_list):
        if i[1] == 0:
            o = (o[0], 0) + tuple(o[2:])
        out.append(o)
    return out


OBS_FIELDS = ["status", "waiters_released", "name_mine", "pid_mine", "groups", "mons", "in_sup_children", "has_sup",
              "children", "events", "ran", "calls_open", "send_accepted", "holder", "orphans"]


def explain(o):
    vals = dict(zip(OBS_FIELDS, o[1:]))
    want = {"status": 6, "waiters_released": "true", "name_mine": "false", "pid_mine": "false", "groups": 0, "mons": 0,
            "in_sup_children": "false", "has_sup": "false", "children": 0, "events": 0, "ran": 0, "calls_open": 0,
            "send_accepted": "false", "orphans": 0}
    bad = [f"{k}={vals[k]} (must be {w})" for k, w in want.items() if vals[k] != w]
    return "; ".join(bad)


TRUSTED = [
    "Coq 8.16.1 kernel (coqc); vm_compute for evaluating the model and the oracle on cases and for Examples",
    "no axioms: every property theorem prints 'Closed under the global context'",
    "hand-written model coq/Spawn/Model.v tied to ractor/src/actor.rs (new/start/guard), actor_cell.rs (new, set_status), "
    "registry.rs, pid_registry.rs, pg.rs by the E1 runs of this check",
    "the guard's cleanup stages and the port drop are modelled as separate atomic labels; each registry / pg operation is one "
    "atomic step (their internal thread-level interleavings are the subject of C10/C11)",
    "tokio current_thread + paused clock: sleep(1ns) as quiescence barrier; JoinHandle::abort / dropping the future cuts at an await point",
    "pg::verif::snapshot (cfg slawlor_ractor_verif) is used to read the group listener lists",
    "thread-local spawns run on a real spawner thread: quiescence there is reached by FIFO fences through the spawner's "
    "request queue and local task queue (no wall-clock decisions; a watchdog turns a hang into exit code 2)",
    "Rust harness eng_spawn, lib/common.py term parser and comparison",
]
