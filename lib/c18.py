"""C18 — duplicate connections converge on one and the same link (DESIGN.md section 4/C18)."""
import itertools
import json

from common import *
import c18_net

IMPORTS = "Cluster.Elect"

# name ranks: small ranks are n<rank>@host; ODD + 8*k + v are names that differ from each other only
# in ASCII case, are prefixes of each other or carry a trailing dot (harness/src/lib.rs node_name):
# ...@HOST < ...@Host < ...@hos < ...@host < ...@host. < ...@hostx — distinct ranks, distinct peers
ODD = 9000000000
ODD_NAMES = [ODD + 0, ODD + 2, ODD + 4, ODD + 5, ODD + 6, ODD + 7]


def name_pool(rng):
    """a pool of node name ranks for one case: ordinary, or with case variants / prefixes"""
    if rng.random() < 0.5:
        return [1, 2, 3, 4]
    pool = rng.sample(ODD_NAMES, 3) + [rng.choice([1, 2, 3])]
    rng.shuffle(pool)
    return pool


def conn_term(c):
    return f"mkConn {'true' if c['by_a'] else 'false'} {c['nonce']} {c['ida']} {c['idb']}"


def cand_a(c):
    return (c["ida"], 0 if c["by_a"] else 1, c["nonce"])


def cand_b(c):
    return (c["idb"], 1 if c["by_a"] else 0, c["nonce"])


def cand_line(this, peer, cands):
    return f"elect {this} {peer} " + " ".join(f"{i}:{s}:{n}" for i, s, n in cands)


def cand_term(cands):
    return "[" + "; ".join(
        f"mkCand {i} {'true' if s else 'false'} ({'Some ' + str(n) if n else 'None'})" for i, s, n in cands) + "]"


def gen_mirror_cases(chk, n_random):
    """Connection multisets between two nodes; exhaustive for <= 3 connections over a small
    nonce alphabet, random beyond."""
    cases = []
    nonce_alpha = [0, 1, 2]
    names = [(1, 2), (2, 1)]
    for n in range(0, 4):
        for dirs in itertools.product([True, False], repeat=n):
            for nonces in itertools.product(nonce_alpha, repeat=n):
                for (na, nb) in names:
                    # two id layouts: same order at both ends, reversed at B
                    for rev in (False, True):
                        conns = []
                        for k in range(n):
                            conns.append({"by_a": dirs[k], "nonce": nonces[k], "ida": 10 + k,
                                          "idb": (20 + (n - k) if rev else 20 + k)})
                        cases.append({"na": na, "nb": nb, "conns": conns})
    rng = chk.rng
    for _ in range(n_random):
        n = rng.choice([2, 3, 4, 5, 6, 8])
        style = rng.choice(["distinct", "small", "legacy", "huge"])
        ida = rng.sample(range(1, 200), n)
        idb = rng.sample(range(1, 200), n)
        if style == "distinct":
            nonces = rng.sample(range(1, 1000), n)
        elif style == "small":
            nonces = [rng.choice([0, 1, 2, 3]) for _ in range(n)]
        elif style == "legacy":
            nonces = [0] * n
        else:
            nonces = [rng.choice([2**64 - 1, 2**63, 1, 2**32]) for _ in range(n)]
        na, nb = rng.sample(range(1, 50), 2) if rng.random() < 0.7 else rng.sample(ODD_NAMES, 2)
        conns = [{"by_a": rng.random() < 0.5, "nonce": nonces[k], "ida": ida[k], "idb": idb[k]}
                 for k in range(n)]
        cases.append({"na": na, "nb": nb, "conns": conns})
    return cases


def gen_raw_cases(chk, n):
    rng = chk.rng
    out = []
    for _ in range(n):
        k = rng.choice([0, 1, 2, 2, 3, 4, 5])
        ids = rng.sample(range(1, 60), k)
        cands = [(ids[j], rng.choice([0, 1]), rng.choice([0, 0, 1, 2, 3, 7])) for j in range(k)]
        this, peer = rng.choice([(1, 2), (2, 1), (3, 3), (5, 9), (ODD, ODD + 5), (ODD + 5, ODD), (ODD + 4, ODD + 5),
                                 (ODD + 6, ODD + 5), (ODD + 2, 3)])
        out.append({"this": this, "peer": peer, "cands": cands})
    return out


TABLE_OPS = ["open", "reg", "cc", "cs", "commit", "commith", "el", "rm", "ready"]


def gen_handler_cases(chk, n):
    """Histories driven through the real ConnectionAuthenticated handler (commith), with some
    sessions that never authenticate ("intruders": any claimed name, nonce, direction).
    Every session is registered once, before it authenticates."""
    rng = chk.rng
    out = []
    for _ in range(n):
        pool = name_pool(rng)
        this = pool[0]
        peers = pool[1:][:rng.choice([1, 2, 3])]
        ops, ids, intr, registered, committed = [], [], set(), set(), set()
        nid = 0
        L = rng.choice([6, 10, 16, 24])
        for _ in range(L):
            r = rng.random()
            if r < 0.30 or not ids:
                nid += 1
                ids.append(nid)
                if rng.random() < 0.3:
                    intr.add(nid)
                ops.append(("open", nid, rng.choice([0, 1, 1])))
                ops.append(("reg", nid, rng.choice(peers), rng.choice([0, 0, 1, 2, 3])))
                registered.add(nid)
            elif r < 0.60:
                c = [i for i in ids if i not in intr]
                if c:
                    i = rng.choice(c)
                    ops.append(("commith", i))
                    committed.add(i)
            elif r < 0.70:
                ops.append(("cc", rng.choice(ids)))
            elif r < 0.78:
                ops.append(("rm", rng.choice(ids)))
            elif r < 0.90:
                ops.append(("ready", rng.choice(ids)))
            else:
                ops.append(("el", rng.choice(ids)))
        # a session's ConnectionReady may reach the node server after a competitor authenticated and beat
        # it: every session that authenticated announces readiness once more at the end
        for i in sorted(committed):
            ops.append(("el", i))
            ops.append(("ready", i))
        for i in ids:
            ops.append(("el", i))
        out.append({"this": this, "ops": ops, "intruders": sorted(intr)})
    return out


def erase_intruders(c):
    keep = [k for k, op in enumerate(c["ops"]) if op[1] not in c["intruders"]]
    return {"this": c["this"], "ops": [c["ops"][k] for k in keep]}, keep


def erase_other_peers(c, p):
    """the history restricted to the sessions registered under peer name p (every session of a handler
    history is registered exactly once): sessions of DISTINCT names never interact, so the answers
    about p's sessions must not change"""
    peer = {op[1]: op[2] for op in c["ops"] if op[0] == "reg"}
    keep = [k for k, op in enumerate(c["ops"]) if peer.get(op[1]) == p]
    return {"this": c["this"], "ops": [c["ops"][k] for k in keep]}, keep, peer


def handler_oracle(c, outs):
    """'close the rest': after every ConnectionAuthenticated at most one accepted, authenticated,
    still open session per (distinctly named) peer remains."""
    srv, peer, removed, stopped, committed = {}, {}, set(), set(), set()
    for op, o in zip(c["ops"], outs):
        if op[0] == "open" and op[1] not in srv:
            srv[op[1]] = op[2]
        elif op[0] == "reg":
            peer[op[1]] = op[2]
        elif op[0] == "rm":
            removed.add(op[1])
        elif op[0] == "commith" and isinstance(o, tuple) and o[0] == "OCommitH":
            committed.add(op[1])
            stopped |= set(o[2])
            p = peer.get(op[1])
            if p is None or p == c["this"]:
                continue
            alive = [j for j in committed if srv.get(j) and peer.get(j) == p and j not in removed and j not in stopped]
            if len(alive) > 1:
                return False, f"after ConnectionAuthenticated({op[1]}) the accepted sessions {sorted(alive)} of peer {p} are all still open"
    return True, ""


def gen_table_cases(chk, n):
    rng = chk.rng
    out = []
    for _ in range(n):
        pool = name_pool(rng)
        this = pool[0]
        peers = pool[1:][:rng.choice([1, 2])]
        if rng.random() < 0.05:
            peers.append(this)  # a peer claiming our own name
        ops = []
        ids = []
        nid = 0
        L = rng.choice([4, 8, 12, 20, 30])
        for _ in range(L):
            r = rng.random()
            if r < 0.22 or not ids:
                nid += 1
                ids.append(nid)
                ops.append(("open", nid, rng.choice([0, 1])))
                if rng.random() < 0.8:
                    ops.append(("reg", nid, rng.choice(peers), rng.choice([0, 0, 1, 2, 3])))
            elif r < 0.30:
                ops.append(("reg", rng.choice(ids + [99]), rng.choice(peers), rng.choice([0, 1, 2, 3])))
            elif r < 0.42:
                ops.append(("cc", rng.choice(ids + [99])))
            elif r < 0.52:
                ops.append(("cs", rng.choice(peers), rng.choice([0, 1, 2, 3])))
            elif r < 0.72:
                ops.append(("commit", rng.choice(ids + [99])))
            elif r < 0.80:
                ops.append(("rm", rng.choice(ids)))
            elif r < 0.90:
                ops.append(("ready", rng.choice(ids + [99])))
            else:
                ops.append(("el", rng.choice(ids + [99])))
        for i in ids:
            ops.append(("el", i))
        out.append({"this": this, "ops": ops})
    return out


def table_line(c):
    return f"table {c['this']} " + " ; ".join(" ".join(str(x) for x in op) for op in c["ops"])


def table_term(c):
    m = {"open": lambda o: f"TOpen {o[1]} {'true' if o[2] else 'false'}",
         "reg": lambda o: f"TRegister {o[1]} {o[2]} {o[3]}",
         "cc": lambda o: f"TCheckCand {o[1]}",
         "cs": lambda o: f"TCheckSess {o[1]} {o[2]}",
         "commit": lambda o: f"TCommit {o[1]}",
         "commith": lambda o: f"TCommitH {o[1]}",
         "el": lambda o: f"TIsElected {o[1]}",
         "rm": lambda o: f"TRemove {o[1]}",
         "fail": lambda o: f"TRemove {o[1]}",       # a session that fails is gone like one that terminates
         "ready": lambda o: f"TReady {o[1]}"}
    return f"table_run {c['this']} [" + "; ".join(m[o[0]](o) for o in c["ops"]) + "]"


def canon_table(t):
    """sort the loser lists (HashMap iteration order on the implementation side); a session that
    was already stopped cannot be observed being stopped again"""
    out = []
    gone = set()
    for x in t:
        if isinstance(x, tuple) and x[0] == "OCommitH":
            new = sorted(i for i in x[2] if i not in gone)
            gone |= set(new)
            out.append(("OCommitH", x[1], new))
            continue
        if isinstance(x, tuple) and x[0] == "OCommit" and isinstance(x[1], tuple) and x[1][0] == "Some":
            tup = x[1][1]
            out.append(("OCommit", ("Some", ("tuple", tup[1], sorted(tup[2])))))
        else:
            out.append(x)
    return out


def table_oracle(c, outs):
    """Per peer: an elected accepted (server-side) session is the only elected one, judged on
    the implementation's final `el` answers."""
    info = {}
    for op in c["ops"]:
        if op[0] == "open" and op[1] not in info:
            info[op[1]] = {"srv": op[2], "peer": None}
        if op[0] == "reg" and op[1] in info:
            info[op[1]]["peer"] = op[2]
        if op[0] == "rm":
            info.pop(op[1], None)
    n_ids = len({op[1] for op in c["ops"] if op[0] == "open"})
    finals = outs[-n_ids:] if n_ids else []
    ids = []
    for op in c["ops"]:
        if op[0] == "open" and op[1] not in ids:
            ids.append(op[1])
    elected = {}
    for i, o in zip(ids, finals):
        if o == ("OBool", "true") and i in info and info[i]["peer"] is not None:
            elected.setdefault(info[i]["peer"], []).append(i)
    for peer, l in elected.items():
        if peer == c["this"]:
            continue
        if len(l) > 1 and any(info[i]["srv"] for i in l):
            return False, f"peer {peer}: elected sessions {l} include an accepted one"
    return True, ""


def run(chk):
    quick = chk.tier == "quick"
    ok_proofs = chk.proofs()
    # if the proofs no longer check we intensify the search (DESIGN 2.7 c)
    factor = 1 if ok_proofs else 10
    build = cargo_build(["eng_elect", "eng_elect_net"])
    if not build["ok"]:
        ok, log = repo_builds_without_hooks()
        if not ok:
            return infrastructure_failure(chk.prop, "/repo does not compile even without hooks:\n" + log[-1500:])
        chk.violation("harness no longer builds against /repo with hooks on",
                      "correspondence E3:eng_elect cannot be built against the current tree\n" + build["log"][-3000:],
                      failing_input=False)
        return chk.finish(trusted_base=TRUSTED)

    n_rand = (400 if quick else 6000) * factor
    mirror = gen_mirror_cases(chk, n_rand)
    raw = gen_raw_cases(chk, (300 if quick else 4000) * factor)
    tables = gen_table_cases(chk, (300 if quick else 4000) * factor)

    # ---- implementation
    lines = []
    for c in mirror:
        cs = c["conns"]
        perm = list(reversed(cs)) if len(cs) < 3 else cs[1:] + cs[:1]
        c["perm"] = perm
        lines.append(cand_line(c["na"], c["nb"], [cand_a(x) for x in cs]))
        lines.append(cand_line(c["na"], c["nb"], [cand_a(x) for x in perm]))
        lines.append(cand_line(c["nb"], c["na"], [cand_b(x) for x in cs]))
        lines.append(cand_line(c["nb"], c["na"], [cand_b(x) for x in perm]))
    for c in raw:
        lines.append(cand_line(c["this"], c["peer"], c["cands"]))
    for c in tables:
        lines.append(table_line(c))
    impl = run_harness(build, "eng_elect", lines, shards=8)
    impl_t = [parse_term(x) for x in impl]

    # ---- model
    exprs = []
    for c in mirror:
        cs = "[" + "; ".join(conn_term(x) for x in c["conns"]) + "]"
        ps = "[" + "; ".join(conn_term(x) for x in c["perm"]) + "]"
        exprs.append(f"(elect {c['na']} {c['nb']} (map view_a {cs}), elect {c['na']} {c['nb']} (map view_a {ps}), "
                     f"elect {c['nb']} {c['na']} (map view_b {cs}), elect {c['nb']} {c['na']} (map view_b {ps}))")
    for c in raw:
        exprs.append(f"elect {c['this']} {c['peer']} {cand_term(c['cands'])}")
    for c in tables:
        exprs.append(table_term(c))
    # oracle on implementation outputs
    k = 0
    for c in mirror:
        ea, ea2, eb, eb2 = (show_term(impl_t[k + j]) for j in range(4))
        k += 4
        cs = "[" + "; ".join(conn_term(x) for x in c["conns"]) + "]"
        exprs.append(f"check_C18 {c['na']} {c['nb']} {ea} {ea2} {eb} {eb2} {cs}")
    model = coq_eval("C18", IMPORTS, exprs)
    model_t = [parse_term(x) for x in model]

    nm, nr, nt = len(mirror), len(raw), len(tables)
    distinct = set()
    # mirror cases: correspondence + oracle
    for i, c in enumerate(mirror):
        mv = model_t[i]
        iv = ("tuple", *impl_t[4 * i:4 * i + 4])
        oracle = model_t[nm + nr + nt + i]
        chk.coverage["evaluations"] += 1
        chk.count(f"mirror.n={len(c['conns'])}")
        if len(c["conns"]) >= 2:
            distinct.add(json.dumps(c, sort_keys=True))
        desc = json.dumps({"kind": "mirror", "case": {k2: c[k2] for k2 in ("na", "nb", "conns")},
                           "impl": show_term(iv), "model": show_term(mv)}, indent=1)
        if oracle != "true":
            chk.violation("two endpoints do not converge on one connection / order dependence",
                          "C18 oracle check_C18 rejects the implementation's answers\n" + desc)
        elif mv != iv:
            chk.coverage["disagreements_checked"] += 1
            chk.violation("model/implementation disagree (elect_sessions)",
                          "correspondence E3:elect differs (oracle accepts)\n" + desc, failing_input=False)
        if i % 997 == 5 and len(chk.coverage["samples"]) < 3:
            chk.coverage["samples"].append(json.loads(desc))
    for i, c in enumerate(raw):
        mv, iv = model_t[nm + i], impl_t[4 * nm + i]
        chk.coverage["evaluations"] += 1
        chk.count(f"raw.n={len(c['cands'])}")
        if len(c["cands"]) >= 2:
            distinct.add(json.dumps(c, sort_keys=True))
        if mv != iv:
            chk.coverage["disagreements_checked"] += 1
            chk.violation("model/implementation disagree (elect_sessions, raw candidates)",
                          "correspondence E3:elect differs\n" + json.dumps(
                              {"case": c, "impl": show_term(iv), "model": show_term(mv)}, indent=1),
                          failing_input=False)
    for i, c in enumerate(tables):
        mv, iv = canon_table(model_t[nm + nr + i]), canon_table(impl_t[4 * nm + nr + i])
        chk.coverage["evaluations"] += 1
        for op in c["ops"]:
            chk.count("table.op." + op[0])
        distinct.add(json.dumps(c, sort_keys=True))
        ok, why = table_oracle(c, iv)
        desc = json.dumps({"kind": "table", "harness_line": table_line(c), "impl": show_term(iv),
                           "model": show_term(mv)}, indent=1)
        if not ok:
            chk.violation("more than one elected session for a peer: " + why,
                          "C18 table oracle rejects the implementation\n" + why + "\n" + desc)
        elif mv != iv:
            chk.coverage["disagreements_checked"] += 1
            first = next((j for j, (a, b) in enumerate(zip(mv, iv)) if a != b), None)
            chk.violation("model/implementation disagree (NodeServerState table)",
                          f"correspondence E3:table differs at op #{first}\n" + desc, failing_input=False)
        if i == 3:
            chk.coverage["samples"].append(json.loads(desc))
    # ---- handler-level histories (the real ConnectionAuthenticated handler) + intruder erasure
    hcs = gen_handler_cases(chk, (250 if quick else 3000) * factor)
    hlines, erased = [], []
    for c in hcs:
        c2, keep = erase_intruders(c)
        erased.append((c2, keep))
        hlines.append(table_line(c))
        hlines.append(table_line(c2))
    # other-peer erasure: per history one peer name; everything about sessions of other names removed
    others = []
    for c in hcs:
        ps = sorted({op[2] for op in c["ops"] if op[0] == "reg"})
        p = chk.rng.choice(ps) if len(ps) > 1 else None
        others.append(erase_other_peers(c, p) + (p,) if p is not None else None)
    olines = [table_line(o[0]) for o in others if o is not None]
    himpl_all = run_harness(build, "eng_elect", hlines + olines, shards=8)
    himpl = [canon_table(parse_term(x)) for x in himpl_all[:len(hlines)]]
    oimpl = iter([canon_table(parse_term(x)) for x in himpl_all[len(hlines):]])
    hmodel = [canon_table(parse_term(x)) for x in coq_eval("C18h", IMPORTS, [table_term(c) for c in hcs])]
    for i, c in enumerate(hcs):
        iv, iv2, mv = himpl[2 * i], himpl[2 * i + 1], hmodel[i]
        c2, keep = erased[i]
        chk.coverage["evaluations"] += 1
        for op in c["ops"]:
            chk.count("handler.op." + op[0])
        chk.count("handler.intruders=%d" % len(c["intruders"]))
        distinct.add(json.dumps(c, sort_keys=True))
        desc = json.dumps({"kind": "handler", "harness_line": table_line(c), "impl": show_term(iv),
                           "model": show_term(mv), "intruders": c["intruders"],
                           "without_intruders_line": table_line(c2), "impl_without_intruders": show_term(iv2)}, indent=1)
        ok, why = handler_oracle(c, iv)
        if ok:
            # 'ready only for the elected session': a ready event directly after the election was asked
            for k in range(1, len(c["ops"])):
                if (c["ops"][k][0] == "ready" and c["ops"][k - 1] == ("el", c["ops"][k][1])
                        and iv[k] == ("OBool", "true") and iv[k - 1] == ("OBool", "false")):
                    ok, why = False, (f"op #{k}: ConnectionReady({c['ops'][k][1]}) is published as node_session_ready although "
                                      f"that session is not the elected one (is_elected = false just before)")
                    break
        omoved = []
        if others[i] is not None:
            c3, keep3, peer_of, p3 = others[i]
            iv3 = next(oimpl)
            chk.count("handler.other_peer_erasure")
            for pos, k in enumerate(keep3):
                op = c["ops"][k]
                a, b = iv[k], iv3[pos]
                if op[0] == "commith" and isinstance(a, tuple) and a[0] == "OCommitH":
                    a = ("OCommitH", a[1], [j for j in a[2] if peer_of.get(j) == p3])
                if op[0] in ("cc", "el", "ready", "commith") and a != b:
                    omoved.append((k, op, show_term(iv[k]), show_term(b)))
        moved = [(k, c["ops"][k]) for pos, k in enumerate(keep)
                 if c["ops"][k][0] in ("cc", "el", "ready", "commith") and iv[k] != iv2[pos]]
        if not ok:
            chk.violation("duplicate connections are not all closed: " + why,
                          "C18 handler oracle rejects the implementation\n" + why + "\n" + desc)
        elif omoved:
            chk.violation("sessions of a DIFFERENT peer name changed the verdict about a peer's sessions",
                          f"C18 other-peer-erasure oracle: with every session of the other names removed (kept peer {p3}: "
                          f"{table_line(c3)}) the answers at {omoved[:3]} change — sessions of distinct names must not interact\n" + desc)
        elif moved:
            chk.violation("an unauthenticated connection changed the verdict about another session",
                          f"C18 unauthenticated-powerless oracle: the answers at ops {moved[:3]} change when the "
                          f"never-authenticated sessions {c['intruders']} are removed from the history\n" + desc)
        elif mv != iv:
            chk.coverage["disagreements_checked"] += 1
            first = next((j for j, (a, b) in enumerate(zip(mv, iv)) if a != b), None)
            chk.violation("model/implementation disagree (ConnectionAuthenticated handler)",
                          f"correspondence E3:handler history differs at op #{first}\n" + desc, failing_input=False)
        if i == 5:
            chk.coverage["samples"].append(json.loads(desc))
    # ---- session life cycles against the real node-server table, legacy zero / repeated nonces (lib/c18_net.py)
    n_life = c18_net.lifecycle_stage(chk, build, distinct, quick, factor)
    if n_life is None:
        return infrastructure_failure(chk.prop, "handler engine (eng_elect) did not complete the life-cycle histories")
    # ---- two real NodeServers with several connections to each other (lib/c18_net.py)
    n_net = c18_net.stage(chk, build, quick, factor, distinct)
    if n_net is None:
        return infrastructure_failure(chk.prop, "two-node election engine (eng_elect_net) did not complete")
    chk.coverage["traces_validated_against_impl"] = nm + nr + nt + len(hcs) + n_life + n_net
    chk.coverage["distinct_nontrivial"] = len(distinct)
    chk.coverage["rule"] = ("mirror: all connection multisets of size <=3 over nonces {0,1,2}, both name orders, two id "
                            "layouts (exhaustive) + seeded random sets up to 8 connections; raw: random candidate lists; "
                            "table: random histories of the table operations; handler: histories through the real ConnectionAuthenticated "
                            "handler with never-authenticating intruder sessions, each also run with the intruders erased. non-trivial = at least 2 candidates / any table history; "
                            "distinct = distinct case descriptions; two-node: 2-3 real NodeServers with 2-5 physical connections (simultaneous, repeated, mixed dials, "
                            "a node with two peers), every interleaving of the four handshake phases of two connections (exhaustive, 6 layouts x 70) + seeded "
                            "frame-level interleavings + one connection stalled before authenticating and released later; survivor predicted by elected_a/elected_b")
    chk.coverage["exhaustive_part"] = "connection multisets |cs|<=3, nonces in {0,1,2}"
    return chk.finish(trusted_base=TRUSTED + c18_net.TRUSTED_NET)


TRUSTED = [
    "Coq 8.16.1 kernel (coqc); vm_compute used for evaluating the model on cases and for Examples",
    "no axioms: every property theorem prints 'Closed under the global context'",
    "hand-written model coq/Cluster/Elect.v tied to ractor_cluster/src/node.rs by differential runs (this check)",
    "hook wrappers ractor_cluster/src/node/verif.rs (cfg slawlor_ractor_verif) call the real private functions",
    "node names are modelled by rank; the harness uses fixed-width names so str::cmp agrees with the rank order",
    "Rust harness eng_elect, lib/common.py term parser and comparison",
    "the 'close the rest' and 'unauthenticated-powerless' oracles on handler histories are evaluated in Python on the implementation's answers (the corresponding model facts are theorems C18_one_ready_per_peer, C18_unauth_powerless, C18_commit_unauth_powerless, C18_check_candidate_unauth_powerless)",
]
