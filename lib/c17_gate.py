"""C17 part 2 (gate) — placeholder until the session model lands."""


def run_gate(chk, build, factor):
    return 0, set()
