"""C17 part 2 (gate): a real NodeServer + NodeSession driven by a scripted adversarial peer
(harness/src/bin/eng_gate.rs) vs. the session model coq/Cluster/Gate.v.

For every script: the implementation's per-step observations are (a) judged by the executable
oracles check_C17 / check_C17_closed (evaluated in Coq on the implementation's observations) and
by the handshake oracle below, and (b) compared, as a view, with the model's run on the same
messages, the environment's answers (random challenge, node-server replies, listed sessions)
being read off the frames the real session wrote."""
import json

from common import *

IMPORTS = "Cluster.Auth Cluster.Gate"
K = 1 << 32

PAYLOAD = ["cast R", "cast R", "cast P", "cast NS", "cast SESS", "cast NONE", "call R 3 -", "call R 4 50",
           "call P 5 -", "reply 55 1", "kspawn 55", "kspawn 55 56:7", "kterm 55", "kterm 56 99",
           "kjoin 1 1 55", "kjoin 1 2 55 57", "kjoin 2 1 60:4", "kleave 1 1 55", "kleave 1 2 57 58",
           "kenum 1 2", "kenum 9 9", "ksessions 5:6", "kping 5", "kpong 3", "kpong 0", "kready", "knone", "mnone",
           "nempty"]
# every variant of every wire message type that is not an authentication message (control: Spawn, Terminate,
# Ping, Pong, PgJoin, PgLeave, EnumerateNodeSessions, NodeSessions, Ready, none; node: Cast, Call with and
# without timeout, Reply, none; the empty NetworkMessage)
ALL_VARIANTS = ["kspawn 55 56:7", "kterm 55", "kping 5", "kpong 0", "kjoin 1 1 55", "kleave 1 1 55", "kenum 9 9",
                "ksessions 5:6 100:7 8:101", "kready", "knone", "cast R", "cast P", "call R 3 -", "call R 4 50",
                "reply 55 1", "mnone", "nempty"]
LOCAL_OPS = ["lspawnR", "lspawnP", "lstopR2"]
PROTECTED_PAYLOAD = ["cast R", "call R 3 -", "kspawn 55", "kjoin 1 1 55", "kenum 9 9", "kterm 55", "reply 55 1"]
WRONG = ["E", "k:1:I", "k:2:I", "k:0:I:g1", "k:0:I:g2", "k:0:I:g3", "k:0:I:g4", "k:0:I:g5", "raw:0", "raw:1",
         "raw:2", "k:0:12345", "k:0:0"]
AUTH_NOISE = ["name 1 2 3", "name 100 2 3", "name 4 101 0", "sstatus 0", "sstatus 2", "sstatus 3", "sstatus 4", "cstatus 1",
              "cstatus 0", "schal 7 8 99", "cchal 5 k:0:I", "sack k:0:I", "empty", "emptyu", "cchal 5 k:1:I", "sack raw:1", "sack E"]


def honest(server, rng):
    if server:
        return [f"name {rng.choice([1, 1, 2, 5])} {rng.choice([2, 3])} {rng.choice([0, 3, 2**63])}",
                f"cchal {rng.choice([5, 0, 2**32 - 1])} k:0:I"]
    return [f"sstatus {rng.choice([0, 0, 1, 4, 9])}", f"schal {rng.choice([7, 2])} {rng.choice([8, 3])} {rng.randint(0, 2**32 - 1)}",
            "sack k:0:I"]


def gen_live(chk, n):
    rng = chk.rng
    out = []
    # systematic part: every protected payload at every position of the honest handshake, both roles
    for server in (True, False):
        base = honest(server, __import__("random").Random(5))
        for pos in range(len(base) + 1):
            for pl in PROTECTED_PAYLOAD + ["cast P", "cast NS", "cast NONE", "kenum 1 2"]:
                ops = base[:pos] + [pl] + base[pos:] + [pl, "cast R", "kspawn 55"]
                out.append((server, 0, ops, 0, False))
        # every wrong digest at the decisive message, followed by payloads and a replay of the right one
        for wd in WRONG:
            ops = list(base)
            last = ops[-1].split()
            last[-1] = wd
            ops[-1] = " ".join(last)
            ops += ["cast R", "kspawn 55", base[-1], "cast R", "kenum 9 9"]
            out.append((server, 0, ops, 0, False))
    # every message variant at every position of the honest handshake (i.e. in every pre-authentication state
    # of the session) and once more after it, both roles, Isolated and Transitive connection mode
    for server in (True, False):
        base = honest(server, __import__("random").Random(7))
        for trans in (False, True):
            for pos in range(len(base) + 1):
                for v in ALL_VARIANTS:
                    out.append((server, 0, base[:pos] + [v] + base[pos:] + [v, "kping 5"], 0, trans))
            # all variants in a row in each pre-authentication state
            for pos in range(len(base)):
                out.append((server, 0, base[:pos] + ALL_VARIANTS + base[pos:] + ["cast R", "kspawn 55"], 0, trans))
    # a frame with a valid length prefix whose payload does not decode (and an oversized one) at every position
    # before authentication, followed by the rest of a correct handshake and payloads: closed, never authenticated
    for server in (True, False):
        base = honest(server, __import__("random").Random(11))
        for pos in range(len(base)):
            for j in (0, 3, 4, 1):
                out.append((server, 0, base[:pos] + [f"malformed {j}"] + base[pos:] + ["cast R", "kspawn 55", "kenum 9 9"], 0, False))
        out.append((server, 0, base + ["cast R", "malformed 3", "cast R", "kspawn 55"], 0, False))
        # decodable but empty envelopes: an authentication message with its oneof unset / with only an unknown field
        # closes the session (unexpected => Close); empty node / control envelopes are inert
        for pos in range(len(base)):
            for e in ("empty", "emptyu"):
                out.append((server, 0, base[:pos] + [e] + base[pos:] + ["cast R", "kspawn 55", "kenum 9 9"], 0, False))
                out.append((server, 0, base[:pos] + ["mnone", "knone", "nempty", e] + base[pos:] + ["cast R"], 0, True))
    # a half-open claimant (the session under test: it only claims the name of peer 1, never proves the cookie) is
    # parked BEFORE the honest peer 1 completes its own handshake on another connection; claimant nonce 0 / 1 / max,
    # claimant inbound and outbound, honest connection inbound (nonce 0 / 1 / 7777 / max) and outbound
    big = 2**64 - 1
    for hon in ["honest out 1"] + [f"honest in 1 {hn}" for hn in (0, 1, 7777, big)]:
        for cn in (0, 1, big):
            for extra in ([], ["kspawn 55", "cast R"]):
                out.append((True, 0, [f"name 1 2 {cn}"] + extra + [hon, "cast R", "kenum 9 9", "kping 5"], 0, False))
        for extra in ([], ["kspawn 55"]):
            out.append((False, 0, ["sstatus 0", "schal 1 2 99"] + extra + [hon, "cast R", "kenum 9 9"], 0, False))
            out.append((False, 0, ["sstatus 4", "schal 1 2 99"] + extra + [hon, "cast R"], 0, False))
    # every ServerStatus value a client-side session can be told, then the rest of an honest handshake
    for st in (0, 1, 2, 3, 4, 5, 2**32 - 1):
        out.append((False, 0, [f"sstatus {st}", "cast R", "schal 7 8 99", "sack k:0:I", "cast R", "kspawn 55"], 0, False))
    # local actors appearing / exiting on the node under test before and after authentication
    # (PidLifecycleEvent path of the advertised set), then casts and calls to them
    for server in (True, False):
        base = honest(server, __import__("random").Random(9))
        for pos in range(len(base) + 1):
            for lo in (["lspawnR", "lspawnP"], ["lspawnP", "lspawnR", "lstopR2"]):
                ops = base[:pos] + lo + ["cast R2", "cast P2"] + base[pos:] + \
                      ["cast R2", "call P2 5 -", "cast P2", "lspawnP", "cast P2", "lspawnR", "cast R2", "lstopR2", "cast R2"]
                out.append((server, 0, ops, 0, False))
    # adversarial acceptor / initiator WITHOUT the node's cookie, nodes with long structured cookies:
    # replayed (echoed) digest, digests under cookies that differ only after a long common prefix / in the
    # last byte / in length, zeros; followed by payloads that must stay without effect
    from c17 import COOKIES, near_cookies
    tail = ["cast R", "kjoin 1 1 55", "kping 5", "kenum 9 9"]
    for ck in [0] + [k for k in COOKIES if k >= 100][::3]:
        near = near_cookies(ck)
        for d in ["E", "raw:1"] + [f"k:{c}:I" for c in near[:3]] + [f"k:{near[0]}:99"]:
            out.append((False, 0, ["sstatus 0", "schal 7 8 99", f"sack {d}"] + tail, ck, False))
            out.append((True, 0, ["name 1 2 3", f"cchal 5 {d}"] + tail, ck, False))
        out.append((False, 0, ["sstatus 0", "schal 7 8 99", f"sack k:{ck}:I"] + tail, ck, False))
        out.append((True, 0, ["name 1 2 3", f"cchal 5 k:{ck}:I"] + tail, ck, False))
    for _ in range(n):
        server = rng.random() < 0.6
        pre = 1 if (server and rng.random() < 0.2) else 0
        ops = honest(server, rng)
        style = rng.random()
        if style < 0.35:
            pass
        elif style < 0.6:
            last = ops[-1].split()
            last[-1] = rng.choice(WRONG)
            ops[-1] = " ".join(last)
        elif style < 0.85:
            i = rng.randrange(len(ops))
            how = rng.choice(["ins", "rep", "drop", "dup"])
            noise = rng.choice(AUTH_NOISE)
            if how == "ins":
                ops.insert(i, noise)
            elif how == "rep":
                ops[i] = noise
            elif how == "drop":
                del ops[i]
            else:
                ops.insert(i, ops[i])
        else:
            ops = [rng.choice(AUTH_NOISE) for _ in range(rng.randint(1, 4))]
        # payloads before / between / after the handshake messages
        k = rng.choice([0, 1, 2, 3])
        for _ in range(k):
            ops.insert(rng.randrange(len(ops) + 1), rng.choice(PAYLOAD))
        for _ in range(rng.choice([2, 4, 6, 10])):
            r = rng.random()
            if r < 0.07:
                ops.append(rng.choice(LOCAL_OPS))
                ops.append(rng.choice(["cast R2", "cast P2", "call P2 5 -", "call R2 3 -"]))
            elif r < 0.8:
                ops.append(rng.choice(PAYLOAD))
            elif r < 0.95:
                ops.append(rng.choice(AUTH_NOISE))
            else:
                ops.append(f"malformed {rng.choice([0, 1, 3, 4])}")
        ck = 0 if rng.random() < 0.7 else rng.choice(COOKIES)
        if ck:
            near = near_cookies(ck)
            sub = {"0": str(ck), "1": str(near[0]), "2": str(near[-1])}
            ops = [re.sub(r"k:([012]):", lambda m: f"k:{sub[m.group(1)]}:", o) for o in ops]
        out.append((server, pre, ops, ck, rng.random() < 0.25))
    return out


def live_line(c):
    server, pre, ops, ck, trans = c
    role = ("server" if server else "client") + (f"@{ck}" if ck else "") + ("/T" if trans else "")
    return f"live {role} {pre} " + " ; ".join(ops)


# ---------------------------------------------------------------------------------------------
# terms

def canon(t):
    """sort the actor lists of KSpawn / KNodeSessions frames (HashMap / DashMap iteration order)"""
    if isinstance(t, tuple) and t and t[0] in ("ESendControl",):
        k = t[1]
        if isinstance(k, tuple) and k[0] in ("KSpawn", "KNodeSessions") and isinstance(k[1], list):
            return (t[0], (k[0], sorted(k[1], key=repr)))
    return t


def is_frame(t):
    return isinstance(t, tuple) and t[0] in ("ESendAuth", "ESendControl")


def head(t):
    return t[0] if isinstance(t, tuple) else t


REPLY = {0: "RNoOther", 1: "RThisContinues", 2: "ROtherContinues", 4: "RDuplicate"}


def infer_env(step, rpid, live=None, sessions_fail=False):
    msg, flags, frames, deliv, proxies, groups, listed, rnd = step[:8]
    live = [rpid] if live is None else live
    check1 = "None"
    for f in frames:
        if head(f) == "ESendAuth" and head(f[1]) == "AServerStatus":
            check1 = f"(Some {REPLY.get(f[1][1], 'ROtherContinues')})"
    ready = any(head(f) == "ESendControl" and f[1] == "KReady" for f in frames)
    check2 = "(Some RNoOther)" if ready else "None"
    sess = "None" if sessions_fail else "(Some [" + "; ".join(show_term(x[2]) for x in listed) + "])"
    return (f"(mkEnv {rnd if rnd else 1} {check1} {check2} {sess} [{'; '.join(map(str, live))}] [] [(900, 901, [{rpid}])])")


def fold_model_view(mview, n_steps):
    """model run_view -> per-step view comparable with the implementation's observations"""
    out = []
    proxies, groups = {}, {}
    alive = True
    for (ok, selfc, eff) in mview:
        frames = [canon(x) for x in eff if is_frame(x)]
        deliv = []
        for x in eff:
            h = head(x)
            if h == "EDeliverCast":
                deliv.append(("EDeliverCast", x[1]))
            elif h == "EDeliverCall":
                deliv.append(("EDeliverCall", x[1], 0))
            elif h == "EProxySpawn":
                proxies[x[1]] = x[2]
            elif h == "EProxyStop":
                proxies.pop(x[1], None)
                for g in groups.values():
                    g.discard(x[1])
            elif h == "EPgJoin":
                groups.setdefault((x[1], x[2]), set()).update(x[3])
            elif h == "EPgLeave":
                groups.setdefault((x[1], x[2]), set()).difference_update(x[3])
        stopped = any(head(x) == "EStopSelf" for x in eff)
        alive_now = alive and not stopped
        okv = (ok == "true") and alive_now and selfc != "true"
        alive_probe = alive_now and selfc != "true"
        if not alive_now:
            proxies, groups = {}, {}
        out.append({"alive": alive_now, "ok": okv, "alive_probe": alive_probe, "frames": frames, "deliv": deliv,
                    "proxies": sorted(proxies.items(), key=repr),
                    "groups": sorted((k[0], k[1], sorted(v)) for k, v in groups.items() if v)})
        alive = alive_probe
        if not alive:
            break
    while len(out) < n_steps:
        out.append({"alive": False, "ok": False, "alive_probe": False, "frames": [], "deliv": [], "proxies": [],
                    "groups": []})
    return out


def impl_view(step):
    msg, flags, frames, deliv, proxies, groups, listed, rnd = step[:8]
    return {"alive": flags[1] == "true", "ok": flags[2] == "true", "alive_probe": flags[3] == "true",
            "frames": [canon(f) for f in frames],
            "deliv": [tuple(d) if isinstance(d, tuple) else d for d in deliv],
            "proxies": sorted(((p[1], p[2]) for p in proxies), key=repr),
            "groups": sorted((g[1], g[2], sorted(g[3])) for g in groups)}


def impl_effects(steps, sess_alive_views):
    """protected effects observed on the implementation, per step (for the Coq oracle)"""
    out = []
    prev_prox, prev_groups = {}, {}
    for st in steps:
        msg, flags, frames, deliv, proxies, groups, listed, rnd = st[:8]
        eff = []
        for d in deliv:
            if head(d) == "EDeliverOther":
                eff.append(f"EDeliverCast {d[1]}")
            else:
                eff.append(show_term(d)[1:-1])
        cur = {p[1]: p[2] for p in proxies}
        alive = flags[1] == "true"
        for p in cur:
            if p not in prev_prox:
                eff.append(f"EProxySpawn {p} {show_term(cur[p])}")
        if alive:
            for p in prev_prox:
                if p not in cur:
                    eff.append(f"EProxyStop {p}")
        curg = {(g[1], g[2]): set(g[3]) for g in groups}
        for k, v in curg.items():
            new = v - prev_groups.get(k, set())
            if new:
                eff.append(f"EPgJoin {k[0]} {k[1]} [{'; '.join(map(str, sorted(new)))}]")
        if alive:
            for k, v in prev_groups.items():
                gone = v - curg.get(k, set()) - (set(prev_prox) - set(cur))
                if gone:
                    eff.append(f"EPgLeave {k[0]} {k[1]} [{'; '.join(map(str, sorted(gone)))}]")
        for f in frames:
            if head(f) == "ESendControl" and head(f[1]) == "KNodeSessions":
                eff.append("EListSessions")
        prev_prox, prev_groups = cur, curg
        out.append(eff)
    return out


def corpus_cases(kind):
    """corpus/C17/*.txt: harness lines of minimized regression scenarios (run first)"""
    import glob
    out = []
    for p in sorted(glob.glob(os.path.join(ROOT, "corpus", "C17", "*.txt"))):
        for line in open(p):
            line = line.strip()
            if not line or line.startswith("#"):
                continue
            w = line.split(" ", 3)
            if w[0] == kind == "live":
                role, _, t = w[1].partition("/")
                role, _, k = role.partition("@")
                out.append((role == "server", int(w[2]), [o.strip() for o in w[3].split(";")], int(k or 0), t == "T"))
            elif w[0] == kind == "unit":
                out.append((w[1], w[2], [o.strip() for o in w[3].split(";")]))
    return out


def run_gate(chk, build, factor):
    quick = chk.tier == "quick"
    cases = corpus_cases("live") + gen_live(chk, (1000 if quick else 20000) * factor)
    lines = [live_line(c) for c in cases]
    impl = run_harness(build, "eng_gate", lines, shards=8)
    parsed = [parse_term(x) for x in impl]
    exprs_model, exprs_oracle = [], []
    infos = []
    for c, t in zip(cases, parsed):
        hdr, init_frames, steps = t[1], t[2], t[3]
        is_server, connid, rpid, ppid, nspid, spid = hdr[1] == "true", hdr[2], hdr[3], hdr[4], hdr[5], hdr[6]
        cfg = f"(mkConfig {'true' if is_server else 'false'} {c[3]} 100 101 {'true' if c[4] else 'false'} {connid})"
        msgs = []
        live = [rpid]          # ground truth: pids of live local actors whose message type supports remoting
        live_at = []
        cut = False
        for st in steps:
            m = st[1]
            if head(m) == "LSpawn" and m[2] == "true":
                live = live + [m[1]]
            if head(m) == "LTerminate":
                live = [x for x in live if x != m[1]]
            live_at.append(list(live))
            if head(m) == "Malformed":
                cut = True
            if cut:
                continue
            if head(m) == "LSpawn":
                msgs.append(f"ISpawn {m[1]} {m[2]}")
            elif head(m) == "LTerminate":
                msgs.append(f"ITerminate {m[1]} {m[2]}")
            elif m == "LNone" or head(m) == "LHonest":
                msgs.append("ISpawn 0 false")
            else:
                msgs.append(f"IPeer {show_term(m)} {infer_env(st[1:], rpid, live)}")
        exprs_model.append(f"run_in_view dg_sym {cfg} (init_state {cfg}) [" + "; ".join(msgs) + "]")
        # oracle inputs from the implementation's observations only
        effs = impl_effects([s[1:] for s in steps], None)
        adv = set()
        obs, obs_closed = [], []
        ok_before, dead = False, False
        for k, (st, eff) in enumerate(zip(steps, effs)):
            flags, frames = st[2], st[3]
            obs.append(f"({'true' if ok_before else 'false'}, [{'; '.join(map(str, sorted(adv)))}], "
                       f"[{'; '.join(map(str, live_at[k]))}], [{'; '.join(eff)}])")
            for f in frames:
                if head(f) == "ESendControl" and head(f[1]) == "KSpawn":
                    adv.update(a[1] for a in f[1][1])
                if head(f) == "ESendControl" and head(f[1]) == "KTerminate":
                    adv.difference_update(f[1][1])
            ok_now = flags[2] == "true"
            dead_now = flags[1] != "true"
            obs_closed.append(f"({'true' if ok_now else 'false'}, {'true' if dead_now else 'false'}, [{'; '.join(eff)}])")
            ok_before = ok_now
        exprs_oracle.append(f"(check_C17 [{'; '.join(obs)}], check_C17_closed [{'; '.join(obs_closed)}] false)")
        infos.append((is_server, rpid, steps, effs))
    res = coq_eval("C17gate", IMPORTS, exprs_model + exprs_oracle, shards=min(NCPU, 12))
    n = len(cases)
    distinct = set()
    cookieless = []
    for i, c in enumerate(cases):
        is_server, rpid, steps, effs = infos[i]
        chk.coverage["evaluations"] += 1
        mview = parse_term(res[i])
        mv = fold_model_view([(x[1], x[2], x[3]) for x in mview], len(steps))
        iv = [impl_view(s[1:]) for s in steps]
        oracle = parse_term(res[n + i])
        if c[1]:
            # a second (honest) session of the same node server is present: which of the two survives the
            # election is C18's subject; compare the views only up to authentication (oracles still apply)
            cut = next((j for j, (a, b) in enumerate(zip(mv, iv)) if a["ok"] or b["ok"]), len(iv))
            mv, iv = mv[:cut], iv[:cut]
        # ---- handshake oracle on the implementation's observations: authenticated only after the
        # peer presented the digest of the challenge the session issued, with the session's cookie
        issued, proved, why = None, False, ""
        ever_ok = False
        garbage, honest = False, set()
        for s in steps:
            msg, flags, frames, listed, rnd = s[1], s[2], s[3], s[7], s[8]
            want = None if issued is None else 1 + issued + c[3] * K
            if isinstance(msg, tuple) and msg[0] == "NAuth" and isinstance(msg[1], tuple):
                a = msg[1]
                if is_server and a[0] == "AClientChallenge" and want is not None and a[2] == want:
                    proved = True
                if (not is_server) and a[0] == "AServerAck" and want is not None and a[1] == want:
                    proved = True
            if rnd:
                issued = rnd
            listed_self = any(x[1] == "true" for x in listed)
            ev_self = [head(e) for e in s[9] if e[1] == "true"] if len(s) > 9 else []
            announced = any(e in ("EvAuthenticated", "EvReady") for e in ev_self)
            if (flags[2] == "true" or listed_self or announced) and not proved:
                why = "session authenticated / listed / announced to subscribers without the digest of its challenge"
            if (head(msg) == "Malformed" or msg == ("NAuth", "AEmpty")) and not ever_ok:
                # the clause is about the handshake: garbage on an already authenticated session is C19's subject
                garbage = True
            if garbage and (flags[1] == "true" or flags[2] == "true" or listed_self or announced):
                why = why or ("the session is still alive / authenticated / listed after a frame that does not decode or an "
                              "authentication envelope without a known message (malformed frames must close the session for good)")
            if head(msg) == "LHonest":
                honest.add(msg[1])
                if not any(head(e) == "EvAuthenticated" and e[1] != "true" for e in s[9]):
                    why = why or ("an honest peer completed the handshake while an unauthenticated connection claiming its "
                                  "name was parked, but its session was not announced as authenticated")
            if honest and not ever_ok and flags[2] != "true" and \
                    not all(any(x[1] != "true" and x[2][1] == h for x in listed) for h in honest):
                why = why or ("an unauthenticated connection (it only claimed a peer name) keeps / removes the authenticated "
                              "session of the honest peer of that name out of GetSessions")
            if c[1] and not ever_ok and flags[2] != "true" and not any(x[1] != "true" for x in listed):
                why = why or ("an unauthenticated connection evicted the authenticated session of another peer from "
                              "GetSessions")
            ever_ok = ever_ok or flags[2] == "true"
        reached = ever_ok or any(s[8] for s in steps)
        listed_ever = any(x[1] == "true" for s in steps for x in s[7])
        if (ever_ok or listed_ever) and not any(f"k:{c[3]}:" in op for op in c[2]):
            cookieless.append(i)
        chk.count("gate.server" if is_server else "gate.client")
        chk.count("gate.authenticated" if ever_ok else ("gate.challenge_issued" if reached else "gate.closed_early"))
        for eff in effs:
            for e in eff:
                chk.count("gate.effect." + e.split()[0])
        if reached:
            distinct.add(lines[i])
        desc = json.dumps({"kind": "live", "harness_line": lines[i], "impl": impl[i][:6000],
                           "model_view": res[i][:4000]}, indent=1)
        if oracle[1] != "true" or oracle[2] != "true" or why:
            chk.violation("live session: protected effect before authentication / delivery to a non-advertised pid / "
                          "activity after close: " + (why or "check_C17 rejects"),
                          "C17 oracle (check_C17, check_C17_closed, handshake) rejects the real session's observations\n"
                          + (why + "\n" if why else "") + f"oracle={oracle}\n" + desc)
        elif mv != iv:
            chk.coverage["disagreements_checked"] += 1
            first = next((j for j, (a, b) in enumerate(zip(mv, iv)) if a != b), None)
            chk.violation("model/implementation disagree (live NodeSession vs Gate.v)",
                          f"correspondence E4:eng_gate view differs at step #{first} (oracles accept)\n"
                          f"model step: {mv[first] if first is not None else None}\nimpl step:  {iv[first] if first is not None else None}\n" + desc,
                          failing_input=False)
        if i in (3, 200) and len(chk.coverage["samples"]) < 6:
            chk.coverage["samples"].append({"harness_line": lines[i], "impl": impl[i][:1500], "oracle": str(oracle)})
    # ---- a peer that never used the node's cookie must not get a session authenticated / listed
    echo_only = [i for i in cookieless if any(op.endswith(" E") for op in cases[i][2])]
    other = [i for i in cookieless if i not in set(echo_only)]
    # an echoed digest is accepted by correct code only if the client's fresh challenge equals the server's
    # (2^-32 per handshake): demand two distinct scripts before calling it a defect
    for i in other[:3] + (echo_only[:3] if len({lines[j] for j in echo_only}) >= 2 else []):
        chk.violation("live session: a peer that never used the node's cookie (replayed / foreign-cookie / garbage "
                      "digests only) got the session authenticated",
                      "C17 oracle (authenticated only for a peer that computed a digest with the node's cookie) rejects the "
                      "real session's observations\n"
                      + json.dumps({"kind": "live", "harness_line": lines[i], "impl": impl[i][:6000],
                                    "cookieless_scripts_authenticated": len(cookieless)}, indent=1))
    return n, distinct


# ---------------------------------------------------------------------------------------------
# handler-level runs on a constructed NodeSessionState (hook node_session::verif_gate)

UNIT_KINDS = ["sinit", "schal", "sok", "sclose", "cinit", "cok", "cclose"]
UNIT_AUTH = {"sinit": "AsServer SWaitName", "schal": "AsServer (SWaitReply 4242 (dg_sym 0 4242))",
             "sok": "AsServer (SOk 0)", "sclose": "AsServer SClose", "cinit": "AsClient CWaitStatus",
             "cok": "AsClient COk", "cclose": "AsClient CClose"}
UNIT_ADV = ["-", "R", "P", "D", "NONE", "R,P,D", "R,D", "P,NS"]
UNIT_OPS = ["cast R", "cast P", "cast D", "cast NONE", "cast NS", "call R 3 -", "call P 5 -", "call D 6 50",
            "reply 55 1", "kspawn 55", "kspawn 55 56:7", "kterm 55", "kjoin 1 1 55", "kjoin 1 2 55 57",
            "kleave 1 1 55", "kenum 1 2", "kenum 9 9", "ksessions 5:6", "kping 5", "kpong 3", "kready", "knone",
            "mnone", "nempty", "name 1 2 3", "name 100 2 3", "sstatus 0", "schal 7 8 99", "cchal 5 k:0:I",
            "cchal 5 k:1:I", "sack k:0:I", "cstatus 1", "cstatus 0", "empty", "sstatus 2", "sstatus 3", "sstatus 4", "kpong 0",
            "nsreply 0", "nsreply 1", "nsreply 2", "nsreply 3", "nsreply drop"]


def gen_unit(chk, n):
    rng = chk.rng
    out = []
    for k in UNIT_KINDS:
        for adv in UNIT_ADV:
            for op in UNIT_OPS:
                out.append((k, adv, [op, "cast R", "kspawn 77"]))
    for r1 in ("0", "1", "2", "3", "drop"):
        for r2 in ("0", "1", "2", "3", "drop"):
            out.append(("sinit", "-", [f"nsreply {r1}", "cast R", "name 1 2 3", "kspawn 55", "cstatus 1", f"nsreply {r2}",
                                       "cchal 5 k:0:I", "cast R", "kenum 9 9"]))
        out.append(("schal", "-", [f"nsreply {r1}", "cchal 5 k:0:I", "cast R", "kenum 9 9", "kspawn 55"]))
        out.append(("cinit", "-", ["sstatus 0", "schal 7 8 99", f"nsreply {r1}", "sack k:0:I", "cast R", "kenum 9 9"]))
    for _ in range(n):
        k = rng.choice(UNIT_KINDS + ["sok", "cok", "schal"])
        adv = rng.choice(UNIT_ADV)
        ops = [rng.choice(UNIT_OPS) for _ in range(rng.randint(2, 8))]
        out.append((k, adv, ops))
    return out


def run_units(chk, build, factor):
    quick = chk.tier == "quick"
    cases = corpus_cases("unit") + gen_unit(chk, (1000 if quick else 20000) * factor)
    lines = [f"unit {k} {adv} " + " ; ".join(ops) for k, adv, ops in cases]
    impl = run_harness(build, "eng_gate", lines, shards=8)
    parsed = [parse_term(x) for x in impl]
    exprs_model, exprs_oracle = [], []
    unit_steps = []
    for c, t in zip(cases, parsed):
        hdr, steps = t[1], t[2]
        rpid, adv0 = hdr[1], hdr[2]
        kind = c[0]
        server = kind.startswith("s")
        cfg = f"(mkConfig {'true' if server else 'false'} 0 100 101 false 0)"
        peer = "None" if kind in ("sinit", "cinit") else "(Some (1, 1))"
        st0 = f"(mkS ({UNIT_AUTH[kind]}) {peer} 0 ROpen [] [{'; '.join(map(str, adv0))}] true)"
        msgs, obs = [], []
        # harness-local "(Stub k)" entries switch the scripted node server's answers; they are not messages
        mode, modes, real_steps = 0, [], []
        for st in steps:
            if head(st) == "Stub":
                mode = st[1]
            else:
                real_steps.append(st)
                modes.append(mode)
        steps = real_steps
        unit_steps.append(steps)
        for st, md in zip(steps, modes):
            s = st[1:]
            # infer_env expects (msg, flags, frames, deliv, proxies, groups, listed, rnd)
            env = infer_env((s[0], s[1], s[2], s[3], s[4], s[5], [], s[7]), rpid, None, md == 9)
            msgs.append(f"({show_term(s[0])}, {env})")
        exprs_model.append(f"run_unit dg_sym {cfg} {st0} [" + "; ".join(msgs) + "]")
        effs = impl_effects([(s[1], ("tuple", "true", "true", "true"), s[3], s[4], s[5], s[6], [], s[8]) for s in steps], None)
        # ground truth for the oracle (never the implementation's own advertised_local_pids): the set the
        # harness put into the constructed state plus the pids the session put on the wire in Spawn frames;
        # remotable = the harness' remotable probe only
        adv_truth = set(adv0)
        for st, eff in zip(steps, effs):
            obs.append(f"({st[2][1]}, [{'; '.join(map(str, sorted(adv_truth)))}], [{rpid}], [{'; '.join(eff)}])")
            for f in st[3]:
                if head(f) == "ESendControl" and head(f[1]) == "KSpawn":
                    adv_truth.update(a[1] for a in f[1][1])
        exprs_oracle.append(f"check_C17 [{'; '.join(obs)}]")
    res = coq_eval("C17unit", IMPORTS, exprs_model + exprs_oracle, shards=min(NCPU, 12))
    n = len(cases)
    distinct = set()
    for i, c in enumerate(cases):
        steps = unit_steps[i]
        chk.coverage["evaluations"] += 1
        chk.count("unit.kind." + c[0])
        mview = parse_term(res[i])
        mv = fold_model_view([(x[1], "false", x[5]) for x in mview], len(mview))
        m_steps, i_steps = [], []
        for x, v in zip(mview, mv):
            m_steps.append({"kind": 1 if x[1] == "true" else (2 if x[2] == "true" else 0),
                            "stopped": not v["alive"], "frames": v["frames"], "deliv": v["deliv"],
                            "proxies": v["proxies"] if v["alive"] else None,
                            "groups": v["groups"] if v["alive"] else None,
                            "adv": sorted(x[3]), "remote": sorted(x[4]) if v["alive"] else None})
        for st in steps:
            stopped = st[2][3] == "true"
            i_steps.append({"kind": st[2][2], "stopped": stopped, "frames": [canon(f) for f in st[3]],
                            "deliv": [tuple(d) if isinstance(d, tuple) else d for d in st[4]],
                            "proxies": None if stopped else sorted(((p[1], p[2]) for p in st[5]), key=repr),
                            "groups": None if stopped else sorted((g[1], g[2], sorted(g[3])) for g in st[6]),
                            "adv": sorted(st[7][2]), "remote": None if stopped else sorted(st[7][3])})
        oracle = res[n + i]
        delivered = any(st[4] for st in steps)
        if delivered or any(st[5] for st in steps):
            distinct.add(lines[i])
        for st in steps:
            for d in st[4]:
                chk.count("unit.effect." + (d[0] if isinstance(d, tuple) else str(d)))
        desc = json.dumps({"kind": "unit", "harness_line": lines[i], "impl": impl[i][:5000], "model": res[i][:4000]},
                          indent=1)
        if oracle != "true":
            chk.violation("session handler: protected effect while not authenticated, or cast/call delivered to a pid "
                          "that is not advertised / not remotable",
                          "C17 oracle check_C17 rejects the real NodeSession::handle's observations\n" + desc)
        elif m_steps != i_steps:
            chk.coverage["disagreements_checked"] += 1
            first = next((j for j, (a, b) in enumerate(zip(m_steps, i_steps)) if a != b), min(len(m_steps), len(i_steps)))
            chk.violation("model/implementation disagree (NodeSession::handle vs Gate.v)",
                          f"correspondence E3:eng_gate unit view differs at step #{first} (oracle accepts)\n"
                          f"model: {m_steps[first] if first < len(m_steps) else None}\nimpl:  {i_steps[first] if first < len(i_steps) else None}\n" + desc,
                          failing_input=False)
        if i == 11 and len(chk.coverage["samples"]) < 8:
            chk.coverage["samples"].append({"harness_line": lines[i], "impl": impl[i][:1200], "oracle": oracle})
    return n, distinct


# ---------------------------------------------------------------------------------------------
# real TCP connections: the listener and client::connect entry points (NodeServerMessage::ConnectionOpened)

TCP_POST = ["cast R", "call R 3 -", "cast P", "cast NONE", "kspawn 65", "kspawn 65 66:7", "kjoin 1 1 65", "kjoin 2 1 67",
            "kleave 1 1 65", "kterm 65", "kenum 9 9", "kping 5", "kready", "reply 65 1"]


def gen_tcp(chk, n):
    from c17 import near_cookies
    rng = chk.rng
    out = []
    for inbound in (True, False):
        for ck in (0, 132):
            near = near_cookies(ck)
            auths = ["good", "none", f"wrong:k:{near[0]}:I", "wrong:E", "wrong:raw:1", f"wrong:k:{ck}:I:g2", "wrong:raw:0"]
            for a in auths:
                out.append((inbound, ck, a, list(ALL_VARIANTS), ["cast R", "kspawn 65", "kjoin 1 1 65", "kenum 9 9"]))
                out.append((inbound, ck, a, [], ["cast R", "cast P", "kspawn 65"]))
    for _ in range(n):
        inbound = rng.random() < 0.5
        ck = rng.choice([0, 0, 132, 124, 1])
        near = near_cookies(ck)
        a = rng.choice(["good", "good", "none", f"wrong:k:{rng.choice(near)}:I", "wrong:E", "wrong:raw:1",
                        f"wrong:k:{ck}:I:g{rng.randint(1, 5)}", f"wrong:k:{ck}:12345"])
        pre = [rng.choice(ALL_VARIANTS) for _ in range(rng.randint(0, 6))]
        post = [rng.choice(TCP_POST) for _ in range(rng.randint(1, 8))]
        out.append((inbound, ck, a, pre, post))
    return out


def run_tcp(chk, build, factor):
    quick = chk.tier == "quick"
    cases = gen_tcp(chk, (150 if quick else 3000) * factor)
    lines = [f"tcp {'in' if i else 'out'}{'@' + str(ck) if ck else ''} {a} " + " ; ".join(pre) + " | " + " ; ".join(post)
             for i, ck, a, pre, post in cases]
    impl = run_harness(build, "eng_gate", lines, shards=8)
    parsed = [parse_term(x) for x in impl]
    exprs = []
    for c, t in zip(cases, parsed):
        hdr, msgs, frames = t[1], t[2], t[3]
        inbound, connid, rpid, authed = hdr[1] == "true", hdr[2], hdr[3], hdr[4] == "true"
        cfg = f"(mkConfig {'true' if inbound else 'false'} {c[1]} 100 101 false {connid})"
        check1 = "None"
        for f in frames:
            if head(f) == "ESendAuth" and head(f[1]) == "AServerStatus":
                check1 = f"(Some {REPLY.get(f[1][1], 'ROtherContinues')})"
        ready = any(head(f) == "ESendControl" and f[1] == "KReady" for f in frames)
        check2 = "(Some RNoOther)" if ready else "None"
        sess = f"(Some [{'(1, 2)' if inbound else '(7, 8)'}])" if t[7][2] == "true" else "(Some [])"
        ins = [f"IPeer {show_term(m[1])} (mkEnv {m[2] if m[2] else 1} {check1} {check2} {sess} [{rpid}] [] [(900, 901, [{rpid}])])"
               for m in msgs]
        exprs.append(f"run_in_view dg_sym {cfg} (init_state {cfg}) [" + "; ".join(ins) + "]")
    res = coq_eval("C17tcp", IMPORTS, exprs, shards=min(NCPU, 8))
    distinct = set()
    for i, (c, t) in enumerate(zip(cases, parsed)):
        chk.coverage["evaluations"] += 1
        hdr, msgs, frames, deliv, proxies, groups, fin = t[1], t[2], t[3], t[4], t[5], t[6], t[7]
        inbound, rpid, authed = hdr[1] == "true", hdr[3], hdr[4] == "true"
        alive, listed, evs = fin[1] == "true", fin[2] == "true", fin[3]
        chk.count(f"tcp.{'in' if inbound else 'out'}.{'authenticated' if authed else 'rejected'}")
        good = c[2] == "good"
        # ---- oracle on the implementation's observations (ground truth: the script, the wire, the probes)
        why = ""
        announced = any(e in ("EvAuthenticated", "EvReady") for e in evs)
        if not good and (authed or listed or announced or deliv or proxies or groups):
            why = "a TCP peer that never presented the digest of the issued challenge got an effect / was authenticated"
        adv = set()
        for f in frames:
            if head(f) == "ESendControl" and head(f[1]) == "KSpawn":
                adv.update(a[1] for a in f[1][1])
        post_r = sum(1 for op in c[4] if op.split()[0] in ("cast", "call") and op.split()[1] == "R")
        n_deliv_r = 0
        for d in deliv:
            if d[1] != rpid or d[1] not in adv or head(d) == "EDeliverOther":
                why = why or "cast/call delivered to a local actor that is not remotable or was not advertised on the wire"
            else:
                n_deliv_r += 1
        if n_deliv_r > post_r:
            why = why or "a cast/call sent before authentication was delivered"
        if any(p[1] < 64 for p in proxies) or any(m < 64 for g in groups for m in g[3]):
            why = why or "a proxy / group member requested before authentication exists"
        # ---- model view
        mview = parse_term(res[i])
        mv = fold_model_view([(x[1], x[2], x[3]) for x in mview], len(mview))
        m_frames = [f for v in mv for f in v["frames"]]
        m_deliv = [d for v in mv for d in v["deliv"]]
        m_alive = bool(mv) and mv[-1]["alive"] if mv else True
        m_ok = bool(mv) and mv[-1]["ok"]
        i_frames = [canon(f) for f in frames if not (head(f) == "ESendAuth" and head(f[1]) == "AName")]
        i_deliv = [tuple(d) if isinstance(d, tuple) else d for d in deliv]
        model = {"authenticated": m_ok and m_alive, "frames": m_frames, "deliv": m_deliv,
                 "proxies": mv[-1]["proxies"] if mv and m_alive and authed else [],
                 "groups": mv[-1]["groups"] if mv and m_alive and authed else []}
        implv = {"authenticated": authed, "frames": i_frames, "deliv": i_deliv,
                 "proxies": sorted(((p[1], p[2]) for p in proxies), key=repr),
                 "groups": sorted((g[1], g[2], sorted(g[3])) for g in groups)}
        if authed:
            distinct.add(lines[i])
        desc = json.dumps({"kind": "tcp", "harness_line": lines[i], "impl": impl[i][:5000], "model_view": res[i][:3000]}, indent=1)
        if why:
            chk.violation("TCP connection (listener / client_connect): " + why,
                          "C17 oracle rejects the observations of a real TCP session\n" + why + "\n" + desc)
        elif model != implv:
            chk.coverage["disagreements_checked"] += 1
            diff = [k for k in model if model[k] != implv[k]]
            chk.violation("model/implementation disagree (TCP session vs Gate.v)",
                          f"correspondence E4:eng_gate tcp view differs in {diff} (oracle accepts)\nmodel: {model}\nimpl:  {implv}\n" + desc,
                          failing_input=False)
        if i == 1 and len(chk.coverage["samples"]) < 10:
            chk.coverage["samples"].append({"harness_line": lines[i], "impl": impl[i][:1200]})
    return len(cases), distinct
