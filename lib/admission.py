"""Shared engine for C07 (drain) and C02 (mailbox order): scenario language, generators,
model/implementation runs and oracle evaluation for the Admission model
(coq/Admission/Model.v  <->  harness/src/bin/eng_adm.rs  <->  /repo/ractor/src/actor/*)."""
import itertools
import json
import os

from common import *

IMPORTS = "Admission.Model"
BIN = "eng_adm"


# ----------------------------------------------------------------------------- calls

def S(pid, flags="", box=(), h=()):
    return {"k": "S", "pid": pid, "flags": flags, "box": list(box), "h": list(h)}


D, T, K = {"k": "D"}, {"k": "T"}, {"k": "K"}
# other public ways to ask for a drain: supervisor.drain_children(), drain_and_wait(Some(1s)), drain_and_wait(None)
# (the *_and_wait futures are polled once - that performs the drain - and must be complete once the actor is Stopped)
X = {"k": "X"}   # mode kids: stop one child of the target (a supervision event for the target); not in the model
Dc, Dt, Dw = {"k": "D", "v": "c"}, {"k": "D", "v": "t"}, {"k": "D", "v": "w"}
DRAINS = [D, Dc, Dt, Dw]


def rust_call(c):
    if c["k"] != "S":
        return c["k"] + c.get("v", "")
    return "S({},{},[{}],[{}])".format(c["pid"], c["flags"] or "-", ",".join(rust_call(x) for x in c["box"]),
                                       ",".join(rust_call(x) for x in c["h"]))


def coq_bool(b):
    return "true" if b else "false"


def coq_call(c):
    if c["k"] == "D":
        return "CDrain"
    if c["k"] == "X":
        raise ValueError("X has no model counterpart")
    if c["k"] == "T":
        return "CStop"
    if c["k"] == "K":
        return "CKill"
    f = c["flags"]
    return "(CSend {} {} {} {} {} [{}] [{}])".format(
        # n (remote mode: message type without wire format) = the default box_message refuses = boxok false;
        # digits / s / c / q select the entry point and do not exist in the model (one kind of send frame)
        c["pid"], coq_bool("w" in f), coq_bool("b" not in f and "n" not in f), coq_bool("g" in f), coq_bool("f" in f),
        "; ".join(coq_call(x) for x in c["box"] if x["k"] != "X"), "; ".join(coq_call(x) for x in c["h"] if x["k"] != "X"))


def rust_line(acts):
    out = []
    for a in acts:
        if a[0] in ("do", "start"):
            out.append(f"{a[0]} {rust_call(a[1])}")
        elif a[0] in ("rel", "ps", "mode"):
            out.append(f"{a[0]} {a[1]}")
        elif a[0] in ("go", "tick", "wait"):
            out.append(a[0])
        else:
            out.append("run")
    return " ; ".join(out)


def coq_exec(acts):
    """the model run of a scenario: post_stop releases (ps) are a parameter of exec_ps"""
    ps = [a[1] for a in acts if a[0] == "ps"]
    return f"exec_ps [{'; '.join(str(x) for x in ps)}] {coq_acts(acts)}"


def coq_acts(acts):
    out = []
    for a in acts:
        if a[0] in ("ps", "mode", "go", "wait") or (a[0] == "do" and a[1]["k"] == "X"):
            continue
        if a[0] == "do":
            out.append(f"ADo {coq_call(a[1])}")
        elif a[0] == "start":
            out.append(f"AStart {coq_call(a[1])}")
        elif a[0] == "rel":
            out.append(f"ARelease {a[1]}")
        else:
            out.append("AConsume")
    return "[" + "; ".join(out) + "]"


def calls_in(c):
    yield c
    if c["k"] == "S":
        for x in c["box"] + c["h"]:
            yield from calls_in(x)


def scenario_stats(acts):
    st = {"sends": 0, "drains": 0, "stops": 0, "kills": 0, "gated": 0, "nested": 0, "runs": 0}
    for a in acts:
        if a[0] in ("ps", "mode", "go", "wait"):
            continue
        if a[0] in ("do", "start"):
            for c in calls_in(a[1]):
                if c["k"] == "S":
                    st["sends"] += 1
                    if c["box"] or c["h"]:
                        st["nested"] += 1
                elif c["k"] == "D":
                    st["drains"] += 1
                elif c["k"] == "T":
                    st["stops"] += 1
                elif c["k"] == "K":
                    st["kills"] += 1
            if a[0] == "start":
                st["gated"] += 1
        elif a[0] == "run":
            st["runs"] += 1
    return st


# ----------------------------------------------------------------------------- generators

def interleavings(seqs):
    """all merges of the given sequences (identical sequences are not distinguished)"""
    seqs = [tuple(s) for s in seqs if s]
    if not seqs:
        yield ()
        return
    seen = set()
    for i, s in enumerate(seqs):
        if s in seen:
            continue
        seen.add(s)
        rest = seqs[:i] + ([s[1:]] if len(s) > 1 else []) + seqs[i + 1:]
        for tail in interleavings(rest):
            yield (s[0],) + tail


def gen_exhaustive(n_senders, n_drains, variant, pre=True, blocks=(), ps=()):
    """every order of {start_i, release_i} of n gated sender threads and n_drains drain calls
    (the box_message door: a parked sender holds an admission ticket and has not enqueued).
    variant: 'plain' | 'redrain' (sender 1 drains re-entrantly from box_message) |
             'resend' (sender 1 sends re-entrantly from box_message) | 'late' (a plain
             un-gated send races in the middle as one more atomic block)"""
    out = []
    seqs = [[("start", i), ("rel", i)] for i in range(n_senders)] + [[("drain",)]] * n_drains
    if variant == "late":
        seqs = seqs + [[("send",)]]
    for bi, b in enumerate(blocks):
        seqs = seqs + [[("block", bi)]]
    for order in interleavings(seqs):
        acts = [("ps", k) for k in ps]
        pid = 1
        if pre:
            acts.append(("do", S(pid)))
            pid += 1
        sender_pid = {}
        for tok in order:
            if tok[0] == "start":
                i = tok[1]
                sender_pid[i] = len(sender_pid)
                box = []
                if i == 0 and variant == "redrain":
                    box = [D]
                if i == 0 and variant == "resend":
                    box = [S(pid + 50)]
                acts.append(("start", S(pid, "g", box)))
                pid += 1
            elif tok[0] == "rel":
                acts.append(("rel", sender_pid[tok[1]]))
            elif tok[0] == "drain":
                if variant == "dvar":
                    # rotate through the other public drain entry points
                    acts.append(("do", [Dc, Dt, Dw][sum(1 for a in acts if a[0] == "do" and a[1].get("k") == "D") % 3]))
                else:
                    acts.append(("do", D))
            elif tok[0] == "block":
                # the string "run" as a block = let the actor run at this point
                acts.append(("run",) if blocks[tok[1]] == "run" else ("do", blocks[tok[1]]))
            else:
                acts.append(("do", S(pid)))
                pid += 1
        acts += [("run",), ("do", S(pid)), ("run",)]
        out.append(acts)
    return out


def gen_random(rng, profile):
    """structured random scenario. profile 'drain': drains at every phase, repeated drains,
    re-entrant calls; profile 'order': many senders, self-sends from handlers, stop / kill /
    failure intervening, wrong-typed sends."""
    pid = [0]

    def new_pid():
        pid[0] += 1
        return pid[0]

    def wrong_flag():
        # wrong-typed send through one of the public entry points (send_message / cast / call,
        # on the cell or on an ActorRef::<Wrong>::from(cell))
        return "w" + rng.choice("0123456789drzy")

    def via_flag():
        # correctly typed sends mostly through ActorCell::send_message, sometimes cast / call
        return rng.choice("123456789drzy") if rng.random() < 0.35 else ""

    def leaf_call(depth):
        r = rng.random()
        if r < 0.55:
            if depth < 2 and rng.random() < 0.3:
                return S(new_pid(), "", [leaf_call(depth + 1)] if rng.random() < 0.5 else [],
                         [leaf_call(depth + 1)] if rng.random() < 0.5 else [])
            return S(new_pid(), wrong_flag() if rng.random() < 0.06 else via_flag())
        if r < 0.85:
            return rng.choice(DRAINS) if rng.random() < 0.4 else D
        if r < 0.95:
            return T
        return K

    def msg(gated):
        flags = "g" if gated else ""
        r = rng.random()
        if r < 0.06:
            flags += wrong_flag()
        elif r < 0.08:
            flags += "b"
        elif r < 0.11 and profile == "order":
            flags += "f"
        if "w" not in flags:
            flags += via_flag()
        if not gated and not any(ch in flags for ch in "wb123456789") and rng.random() < 0.12:
            # the message enters through ActorCell::send_serialized (Cast / Call with the reply receiver already
            # dropped / Call whose caller still waits); box_message is not involved
            flags += rng.choice("scq")
            return S(new_pid(), flags, [], [leaf_call(1)] if rng.random() < 0.2 else [])
        box, h = [], []
        pb = 0.25 if profile == "drain" else 0.1
        ph = 0.2 if profile == "drain" else 0.35
        if rng.random() < pb:
            box = [leaf_call(1) for _ in range(rng.choice([1, 1, 2]))]
        if rng.random() < ph:
            h = [leaf_call(1) for _ in range(rng.choice([1, 1, 2, 3]))]
        return S(new_pid(), flags, box, h)

    acts = []
    if rng.random() < 0.25:
        # post_stop of the target releases these threads (a parked sender completes between the loop exit
        # and the drop of the ports)
        acts = [("ps", k) for k in rng.sample([0, 1, 2], rng.choice([1, 1, 2, 3]))]
    parked = []
    nstarted = 0
    n = rng.choice([3, 5, 7, 9, 12])
    wd = 0.22 if profile == "drain" else 0.08
    for _ in range(n):
        r = rng.random()
        if r < 0.30:
            acts.append(("do", msg(False)))
        elif r < 0.50 and len(parked) < 3:
            acts.append(("start", msg(True)))
            parked.append(nstarted)
            nstarted += 1
        elif r < 0.62 and parked:
            k = rng.choice(parked)
            parked.remove(k)
            acts.append(("rel", k))
        elif r < 0.62 + wd:
            acts.append(("do", rng.choice(DRAINS) if rng.random() < 0.4 else D))
        elif r < 0.62 + wd + 0.04:
            acts.append(("do", T))
        elif r < 0.62 + wd + 0.06:
            acts.append(("do", K))
        else:
            acts.append(("tick",) if rng.random() < 0.15 else ("run",))
    rng.shuffle(parked)
    for k in parked:
        if rng.random() < 0.3:
            acts.append(("do", D))
        acts.append(("rel", k))
    acts.append(("run",))
    acts.append(("do", S(new_pid())))
    if rng.random() < 0.5:
        acts.append(("do", D))
    acts.append(("run",))
    return acts


def gen_remote(rng):
    """mode remote: the target carries a remote ActorId (spawn_linked_remote) and handles serialized messages;
    sends of a serializable type are plain sends, sends of a type without wire format (flag n) must be refused by
    the default box_message (InvalidActorType, ticket dropped) without disturbing the actor"""
    pid = [0]

    def new_pid():
        pid[0] += 1
        return pid[0]

    def msg(depth=0):
        flags = rng.choice(["", "", "", "1", "2", "5", "r"])
        r = rng.random()
        if r < 0.25:
            flags += "n"
        elif r < 0.30:
            flags += "f"
        h = []
        if depth < 2 and "n" not in flags and rng.random() < 0.3:
            h = [rng.choice([D, T, None, None]) or msg(depth + 1) for _ in range(rng.choice([1, 2]))]
        return S(new_pid(), flags, [], h)

    acts = [("mode", "remote")]
    for _ in range(rng.choice([3, 5, 8])):
        r = rng.random()
        if r < 0.6:
            acts.append(("do", msg()))
        elif r < 0.72:
            acts.append(("do", D))
        elif r < 0.77:
            acts.append(("do", T))
        elif r < 0.80:
            acts.append(("do", K))
        else:
            acts.append(("run",))
    acts += [("run",), ("do", msg()), ("do", S(new_pid(), "n")), ("run",)]
    return acts


def instant_scenarios(rng=None, n_random=0):
    """mode instant: the target is created with spawn_instant and parked in pre_start (status Starting); sends are
    accepted, a drain closes admission and publishes Draining; after `go` the loop must still run everything accepted
    and exit with reason Drained. (stop/kill before `go` are not generated: a kill during pre_start is a failed start.)"""
    out = []
    alphabet = ["S", "D", "G", "H"]   # plain send, drain, gated sender thread, send whose handler drains again

    def build(seq, rel_before_go):
        pid, acts, parked = 1, [("mode", "instant")], 0
        for x in seq:
            if x == "S":
                acts.append(("do", S(pid)))
            elif x == "D":
                acts.append(("do", D))
            elif x == "G":
                acts.append(("start", S(pid, "g")))
                parked += 1
            else:
                acts.append(("do", S(pid, "", [], [D, S(pid + 40)])))
            pid += 1
        rel = [("rel", k) for k in range(parked)]
        if rel_before_go:
            acts += rel + [("go",), ("run",)]
        else:
            acts += [("go",), ("run",)] + rel + [("run",)]
        acts += [("do", S(pid)), ("do", D), ("run",)]
        return acts

    for n in (1, 2, 3):
        for seq in itertools.product(alphabet, repeat=n):
            if seq.count("G") > 2:
                continue
            for rb in ((False, True) if "G" in seq else (False,)):
                out.append(build(seq, rb))
    if rng is not None:
        for _ in range(n_random):
            seq = [rng.choice(["S", "S", "D", "G", "H"]) for _ in range(rng.choice([4, 5, 6]))]
            while seq.count("G") > 3:
                seq.remove("G")
            out.append(build(seq, rng.random() < 0.5))
    return out


def after_exit_scenarios():
    """drain (every public form) issued on a reference held after the actor has exited - by drain, stop, kill,
    handler failure - or while it is Stopping (a sender released by post_stop drains from box_message); then waits.
    The status must stay Stopped and every wait must return (check_status / kept waits)"""
    out = []
    causes = {"drain": [("do", D)], "stop": [("do", T)], "kill": [("do", K)], "fail": [("do", S(50, "f"))],
              "self": [("do", S(50, "", [], [D]))]}
    for cname, cause in causes.items():
        for late in DRAINS:
            for nwait in (0, 2):
                acts = [("do", S(1))] + cause + [("run",), ("do", late)] + [("wait",)] * nwait
                acts += [("do", late), ("run",), ("do", Dt), ("wait",), ("tick",), ("do", S(2)), ("run",)]
                out.append(acts)
    for late in DRAINS:
        # drain while Stopping: post_stop releases a parked sender whose box_message drains
        out.append([("ps", 0), ("do", S(1)), ("start", S(2, "g", [late])), ("do", T), ("run",), ("wait",), ("do", late),
                    ("wait",), ("run",), ("do", S(3)), ("run",)])
        out.append([("ps", 0), ("do", S(1)), ("start", S(2, "g", [late])), ("do", D), ("run",), ("rel", 0), ("run",),
                    ("wait",), ("do", late), ("wait",), ("run",)])
    return out


def long_backlog(n, kids=0, kid_window=(), drain=False, chunk=None):
    """n messages queued before the actor runs (a standing backlog); optionally the handlers of the messages at the
    1-based positions kid_window each stop one child of the target (a supervision event arrives while the target
    works through the backlog); optionally the actor is let run after every `chunk` sends"""
    acts = [("mode", f"kids {kids}")] if kids else []
    for k in range(1, n + 1):
        acts.append(("do", S(k, "", [], [X] if k in kid_window else [])))
        if chunk and k % chunk == 0:
            acts.append(("run",))
    if drain:
        acts.append(("do", D))
    acts += [("run",), ("do", S(n + 1)), ("run",)]
    return acts


def remote_exhaustive():
    """all action sequences of length <= 3 over {serializable send, non-serializable send, send whose handler sends
    both kinds, drain, stop, run} against a remote-id target"""
    out = []
    alphabet = ["S", "N", "H", "D", "T", "R"]
    for n in (1, 2, 3):
        for seq in itertools.product(alphabet, repeat=n):
            pid, acts = 1, [("mode", "remote")]
            for x in seq:
                if x == "S":
                    acts.append(("do", S(pid, "2" if pid % 2 else "")))
                elif x == "N":
                    acts.append(("do", S(pid, "n")))
                elif x == "H":
                    acts.append(("do", S(pid, "", [], [S(100 + 2 * pid, "n"), S(101 + 2 * pid)])))
                elif x == "D":
                    acts.append(("do", D))
                elif x == "T":
                    acts.append(("do", T))
                else:
                    acts.append(("run",))
                pid += 1
            acts += [("run",), ("do", S(pid, "n")), ("do", S(pid + 1)), ("run",)]
            out.append(acts)
    return out


CORPUS = [
    # the repository's own re-entrant test, with a repeated drain and late sends
    [("do", S(1)), ("start", S(2, "g", [D])), ("do", D), ("do", S(3)), ("rel", 0), ("do", D), ("do", S(4)), ("run",)],
    # two parked senders, drain in the middle, reverse release order
    [("start", S(1, "g")), ("start", S(2, "g")), ("do", D), ("rel", 1), ("rel", 0), ("run",), ("do", S(3)), ("run",)],
    # self-sends and a drain from a handler
    [("do", S(1, "", [], [S(2), D, S(3)])), ("run",), ("do", S(4)), ("run",)],
    # stop outranks the mailbox and the marker
    [("do", S(1)), ("do", T), ("do", S(2)), ("do", D), ("run",), ("do", S(3)), ("run",)],
    # wrong type, failing box_message, failing handler, drain after the failure
    [("do", S(1, "w")), ("do", S(2, "b")), ("do", S(3, "f")), ("do", S(4)), ("run",), ("do", S(5)), ("do", D), ("run",)],
    # kill from a handler; parked sender released after the actor died
    [("start", S(1, "g")), ("do", S(2, "", [], [K])), ("do", D), ("run",), ("rel", 0), ("do", S(3)), ("run",)],
    # wrong-typed send_message / cast / call through every public entry point (cell, typed ActorRef built from
    # the cell, rpc::cast / rpc::call, call with timeout): rejected, actor undisturbed, later traffic handled
    [("do", S(1))] + [("do", S(2 + k, f"w{k}")) for k in range(7)] + [("do", S(9)), ("run",), ("do", S(10, "3")), ("run",)],
    # correctly typed cast / call (with and without timeout) from the driver, a handler and a parked thread
    [("do", S(1, "3")), ("do", S(2, "4")), ("start", S(3, "g6", [S(4, "w3")])), ("do", S(5, "2", [], [S(6, "w4"), S(7, "4")])),
     ("run",), ("rel", 0), ("do", D), ("do", S(8, "3")), ("run",)],
    # seeded C07-3 family: a sender admitted before the drain is still parked in box_message when the actor comes
    # back to the top of its loop with an empty mailbox; post_stop (were the actor to leave its loop) lets it finish
    [("ps", 0), ("do", S(1)), ("start", S(2, "g")), ("do", D), ("run",), ("rel", 0), ("run",), ("do", S(3)), ("run",)],
    # post_stop after a stop: the parked sender's message is accepted and flushed (stop intervened)
    [("ps", 0), ("start", S(1, "g")), ("do", T), ("run",), ("rel", 0), ("do", S(2)), ("run",)],
    # seeded C02-3 family: call_and_forward / multi_call followed at once by another send of the same sender
    [("do", S(1, "7")), ("do", S(2)), ("do", S(3, "8")), ("do", S(4)), ("do", S(5, "9")), ("do", S(6)),
     ("do", S(7, "2", [], [S(8, "7"), S(9)])), ("run",)],
    # seeded C07-5 family: drained while still in pre_start (spawn_instant): the loop must still run and drain
    [("mode", "instant"), ("do", S(1)), ("do", D), ("do", S(2)), ("go",), ("run",), ("do", S(3)), ("run",)],
    [("mode", "instant"), ("do", S(1)), ("start", S(2, "g")), ("do", D), ("go",), ("run",), ("rel", 0), ("run",)],
    # seeded C02-5 family: remote-id target; a message type without wire format is refused, actor undisturbed
    [("mode", "remote"), ("do", S(1)), ("do", S(2, "n")), ("do", S(3, "2", [], [S(4, "n"), S(5)])), ("run",),
     ("do", D), ("do", S(6, "n")), ("do", S(7)), ("run",)],
    # seeded C02-6 family: serialized Cast / Call with dropped receiver / Call with waiting caller
    [("do", S(1, "s")), ("do", S(2, "c")), ("do", S(3, "q", [], [S(4, "c")])), ("do", S(5)), ("run",),
     ("do", S(6, "c")), ("run",)],
    # seeded C02-10: a call with an already expired (z: zero) or almost expired (y: 1 ns) deadline is still a send
    [("do", S(1, "z")), ("do", S(2, "y")), ("do", S(3, "wz")), ("do", S(4, "", [], [S(5, "z"), S(6, "wy")])), ("run",),
     ("do", S(7, "z")), ("run",), ("do", D), ("do", S(8, "z")), ("run",)],
    # coverage audit: DerivedActorRef (d) and typed registry lookup (r) as send entry points, right and wrong type;
    # drain through supervisor.drain_children / drain_and_wait(Some) / drain_and_wait(None)
    [("do", S(1, "d")), ("do", S(2, "wd")), ("do", S(3, "r")), ("do", S(4, "wr")), ("run",), ("do", Dc), ("do", S(5, "d")),
     ("do", S(6, "r")), ("run",), ("do", S(7, "r")), ("do", S(8, "wr")), ("do", S(9, "d")), ("run",)],
    [("do", S(1)), ("start", S(2, "g")), ("do", Dt), ("do", Dw), ("tick",), ("rel", 0), ("run",), ("do", Dc), ("run",)],
    # drain while a sender is parked, actor runs in between, then release
    [("do", S(1)), ("start", S(2, "g")), ("do", D), ("run",), ("do", S(3)), ("rel", 0), ("run",), ("do", D), ("run",)],
]


# ----------------------------------------------------------------------------- runs

BAD_TOKENS = ("RChannelClosed", "ROther", "HANG")


def run_scenarios(chk, build, scenarios, tag, lite=False, only=None):
    """returns list of dicts: acts, line, impl (text), impl_t, model_t, c07, c02, bad"""
    lines = [rust_line(a) for a in scenarios]
    impl = run_harness(build, BIN, lines, shards=min(8, NCPU), timeout=1500)
    exprs = []
    res = []
    for acts, line, out in zip(scenarios, lines, impl):
        r = {"acts": acts, "line": line, "impl": out, "bad": None}
        if any(t in out for t in BAD_TOKENS):
            r["bad"] = next(t for t in BAD_TOKENS if t in out)
            res.append(r)
            continue
        t = parse_term(out)
        r["impl_t"] = t
        log = show_term(t[1])
        alive_idle = not any(isinstance(e, tuple) and e[0] == "EExit" for e in t[1])
        r["alive_idle"] = alive_idle
        c02 = "check_C02_lite" if lite else "check_C02"
        e07 = f"check_C07 true {log} && check_status {log} {t[2]}" if only in (None, "C07") else "true"
        e02 = f"{c02} {coq_bool(alive_idle)} {log}" if only in (None, "C02") else "true"
        exprs.append(f"let s := {coq_exec(acts)} in ({e07}, {e02}, complete s, view s)")
        res.append(r)
    vals = coq_eval(tag, IMPORTS, exprs, scope="nat_scope")
    k = 0
    for r in res:
        if r["bad"]:
            continue
        t = parse_term(vals[k])
        k += 1
        r["c07"] = t[1] == "true"
        r["c02"] = t[2] == "true"
        r["model_complete"] = t[3] == "true"
        r["model_t"] = mark_nonser(t[4], r["acts"])
        if any(c.get("v") == "c" for a in r["acts"] if a[0] in ("do", "start") for c in calls_in(a[1])):
            # supervisor.drain_children() reports no result: the ok flag of EDrainEnd is not observable
            r["model_t"], r["impl_t"] = drain_flags_true(r["model_t"]), drain_flags_true(r["impl_t"])
    return res


def drain_flags_true(view):
    log = [("EDrainEnd", "true") if isinstance(e, tuple) and e[0] == "EDrainEnd" else e for e in view[1]]
    return ("tuple", log, view[2])


def mark_nonser(view, acts):
    """mode remote: a send of a message type without wire format is a 'wrong-typed' send for the oracle
    (the harness logs EBegin pid true); in the model it is a send whose box_message fails (EBegin pid false)"""
    ns = {c["pid"] for a in acts if a[0] in ("do", "start") for c in calls_in(a[1]) if c["k"] == "S" and "n" in c["flags"]}
    if not ns:
        return view
    log = [("EBegin", e[1], "true") if isinstance(e, tuple) and e[0] == "EBegin" and e[1] in ns else e for e in view[1]]
    return ("tuple", log, view[2])


def run_race(chk, build, specs, tag):
    """race rounds (refused senders vs drain): returns list of dicts line, rounds, bad, bad_logs (with oracle verdicts),
    sample verdicts"""
    lines = [f"race {a} {b} {c}" for a, b, c in specs]
    impl = run_harness(build, BIN, lines, timeout=1500)
    res, exprs = [], []
    for line, out in zip(lines, impl):
        t = parse_term(out)
        r = {"line": line, "rounds": t[1], "bad": t[2], "bad_logs": [show_term(x) for x in t[3]],
             "good_logs": [show_term(x) for x in t[4]], "impl": out[:4000]}
        for l in r["bad_logs"] + r["good_logs"]:
            exprs.append(f"(check_C07 true {l}, check_C02 false {l})")
        res.append(r)
    vals = coq_eval(tag + "race", IMPORTS, exprs, scope="nat_scope")
    k = 0
    for r in res:
        r["bad_verdicts"], r["good_verdicts"] = [], []
        for _ in r["bad_logs"]:
            t = parse_term(vals[k]); k += 1
            r["bad_verdicts"].append((t[1] == "true", t[2] == "true"))
        for _ in r["good_logs"]:
            t = parse_term(vals[k]); k += 1
            r["good_verdicts"].append((t[1] == "true", t[2] == "true"))
    return res


def run_stress(chk, build, specs, tag):
    lines = [f"stress {a} {b} {c} {d}" for a, b, c, d in specs]
    impl = run_harness(build, BIN, lines, shards=min(4, NCPU), timeout=1500)
    exprs, res = [], []
    for spec, line, out in zip(specs, lines, impl):
        r = {"line": line, "impl": out, "bad": None, "spec": spec}
        if any(t in out for t in BAD_TOKENS):
            r["bad"] = next(t for t in BAD_TOKENS if t in out)
            res.append(r)
            continue
        t = parse_term(out)
        r["impl_t"] = t
        log = show_term(t[1])
        exited = any(isinstance(e, tuple) and e[0] == "EExit" for e in t[1])
        r["exited"] = exited
        # mode 2: nobody drains or stops; the harness waited until the mailbox was empty
        alive_idle = spec[3] == 2 and not exited
        exprs.append(f"(check_C07 false {log}, check_C02 {coq_bool(alive_idle)} {log})")
        res.append(r)
    vals = coq_eval(tag + "s", IMPORTS, exprs, scope="nat_scope")
    k = 0
    for r in res:
        if r["bad"]:
            continue
        t = parse_term(vals[k])
        k += 1
        r["c07"] = t[1] == "true"
        r["c02"] = t[2] == "true"
    return res


def run_lines(chk, build, lines, tag):
    """raw harness lines (corpus files / --replay): implementation + oracles only"""
    if not lines:
        return []
    impl = run_harness(build, BIN, lines, timeout=600)
    exprs, res = [], []
    for line, out in zip(lines, impl):
        r = {"line": line, "impl": out, "bad": None}
        if any(t in out for t in BAD_TOKENS):
            r["bad"] = next(t for t in BAD_TOKENS if t in out)
            res.append(r)
            continue
        t = parse_term(out)
        r["impl_t"] = t
        log = show_term(t[1])
        alive_idle = line.rstrip().endswith("run") and not any(isinstance(e, tuple) and e[0] == "EExit" for e in t[1])
        r["alive_idle"] = alive_idle
        compl = line.rstrip().endswith("run")
        exprs.append(f"(check_C07 {coq_bool(compl)} {log} && check_status {log} {t[2]}, check_C02 {coq_bool(alive_idle)} {log})")
        res.append(r)
    vals = coq_eval(tag + "l", IMPORTS, exprs, scope="nat_scope")
    k = 0
    for r in res:
        if r["bad"]:
            continue
        t = parse_term(vals[k])
        k += 1
        r["c07"] = t[1] == "true"
        r["c02"] = t[2] == "true"
    return res


def describe(r, extra=None):
    d = {"harness_line": r["line"], "impl": r["impl"]}
    if "model_t" in r:
        d["model"] = show_term(r["model_t"])
    d["replay_cmd"] = f"echo '{r['line']}' | harness/target/debug/{BIN}"
    if extra:
        d.update(extra)
    return json.dumps(d, indent=1)


def log_hist(chk, r, prefix):
    t = r.get("impl_t")
    if not t:
        return
    for e in t[1]:
        if isinstance(e, tuple):
            if e[0] == "EEnd":
                res = e[2][0] if isinstance(e[2], tuple) else e[2]
                chk.count(f"{prefix}.send.{res}")
            elif e[0] == "EExit":
                chk.count(f"{prefix}.exit.{e[1]}")
            elif e[0] == "EDrainEnd":
                chk.count(f"{prefix}.drain.{e[1]}")
            elif e[0] == "EHandle":
                chk.count(f"{prefix}.handled")


def build_or_fail(chk, trusted):
    build = cargo_build([BIN])
    if not build["ok"]:
        ok, log = repo_builds_without_hooks()
        if not ok:
            return None, infrastructure_failure(chk.prop, "/repo does not compile even without hooks:\n" + log[-1500:])
        chk.violation("harness no longer builds against /repo",
                      f"correspondence E1/E2:{BIN} cannot be built against the current tree\n" + build["log"][-3000:],
                      failing_input=False)
        return None, chk.finish(trusted_base=trusted)
    return build, None


def load_corpus(prop):
    """extra regression scenarios: corpus/<prop>/*.txt, one harness line per file line; they are
    only run through the implementation + oracles (no model term is reconstructed)"""
    d = os.path.join(ROOT, "corpus", prop)
    out = []
    if os.path.isdir(d):
        for f in sorted(os.listdir(d)):
            if f.endswith(".txt"):
                for l in open(os.path.join(d, f)):
                    l = l.strip()
                    if l and not l.startswith("#"):
                        out.append(l)
    return out


TRUSTED = [
    "Coq 8.16.1 kernel (coqc); vm_compute used for evaluating the model on scenarios and for Examples",
    "no axioms: every property theorem prints 'Closed under the global context'",
    "hand-written model coq/Admission/Model.v tied to ractor/src/actor/actor_properties.rs, actor_cell.rs, actor.rs by "
    "differential runs (this check): same event log and final status on every scenario",
    "tokio::sync::mpsc unbounded channel is a linearizable FIFO whose send fails iff the receiver was closed "
    "(modelled as list append / rx_open flag; not proved)",
    "atomics are modelled as sequentially consistent single steps (the code uses Relaxed/AcqRel/SeqCst on one word "
    "plus the channel's own synchronisation); compare_exchange_weak may fail spuriously (labels LSf/LDf)",
    "interleavings below the granularity of the box_message door (between two atomic operations of one thread) are "
    "covered by the proof over all label lists and by uncontrolled stress runs fed to the oracles, not by controlled schedules",
    "Rust harness eng_adm (tokio current_thread, paused clock, sleep(1ns) quiescence barrier), lib/common.py term parser",
]
