"""C09 — every RPC completes and replies are never cross-wired (DESIGN.md section 4/C09).

Model: coq/Rpc/Model.v (calls with linear reply ports, callee mailbox / handler / state / other
tasks, caller futures with tokio's timeout contract, virtual clock, FIFO settle).
Implementation: ActorRef::call, rpc::multi_call, ActorRef::call_and_forward driven by
harness/src/bin/eng_rpc.rs on a paused tokio clock with gated callee handlers.
Per scenario the views (per call: result kind, value, virtual completion time, start time;
multi_call vectors; forwards; surviving actors) are compared and the executable oracle
`check_C09` is evaluated inside Coq on the implementation's own observation."""
import json
import os

from common import *

IMPORTS = "Rpc.Model"
MS = 1_000_000
TMOS = [None, None, None, 0, 1, MS, 3 * MS, 2_500_000]


def ceil_ms(t):
    return (t + MS - 1) // MS * MS


def tmo_s(t):
    return "-" if t is None else str(t)


def tmo_t(t):
    return "None" if t is None else f"(Some {t})"


def act_line(a):
    if a[0] == "reply":
        return f"r{a[1]}"
    return {"drop": "d", "store": "s", "move": "m", "panic": "p", "err": "e"}[a[0]]


def act_term(a):
    if a[0] == "reply":
        return f"AReply {a[1]}"
    return {"drop": "ADrop", "store": "AStore", "move": "AMove", "panic": "APanic", "err": "AErr"}[a[0]]


def op_line(o):
    k = o[0]
    if k == "call":
        # o[3] (optional): "" ActorRef::call, "d" DerivedActorRef::call, "m" call!/call_t! macros
        return f"{o[3] if len(o) > 3 else ''}call {o[1]} {tmo_s(o[2])}"
    if k == "fwd":
        return f"fwd {o[1]} {o[2]} {tmo_s(o[3])}"
    if k == "multi":
        return f"multi {','.join(map(str, o[1]))} {tmo_s(o[2])}"
    if k == "act":
        also = " ".join(f"{c}:{'-' if v is None else v}" for c, v in o[3])
        return f"act {o[1]} {act_line(o[2])} {also}".strip()
    if k == "task":
        return f"task {o[1]} {'d' if o[2] is None else 'r' + str(o[2])}"
    if k in ("kill", "stop", "drain", "adv", "advraw"):
        return f"{k} {o[1]}"
    return k


def op_term(o):
    k = o[0]
    if k == "call":
        return f"OCall {o[1]}%nat {tmo_t(o[2])}"
    if k == "fwd":
        return f"OFwd {o[1]}%nat {o[2]}%nat {tmo_t(o[3])}"
    if k == "multi":
        return f"OMulti [{'; '.join(str(x) + '%nat' for x in o[1])}] {tmo_t(o[2])}"
    if k == "act":
        also = "; ".join(f"({c}%nat, {'None' if v is None else 'Some ' + str(v)})" for c, v in o[3])
        return f"OAct {o[1]}%nat (mkPlan [{also}] ({act_term(o[2])}))"
    if k == "task":
        return f"OTask {o[1]}%nat ({'TDrop' if o[2] is None else 'TReply ' + str(o[2])})"
    if k == "kill":
        return f"OKill {o[1]}%nat"
    if k == "stop":
        return f"OStop {o[1]}%nat"
    if k == "drain":
        return f"ODrain {o[1]}%nat"
    if k == "adv":
        return f"OAdv {o[1]}"
    if k == "advraw":
        return f"OAdvRaw {o[1]}"
    return "OSettle"


def ops_term(ops):
    return "[" + "; ".join(op_term(o) for o in ops) + "]"


class Gen:
    """Seeded scenario builder.  Tracks just enough (ids handed out, which actors may refuse
    sends) to aim actions at existing requests; it never decides outcomes."""

    def __init__(self, rng):
        self.rng = rng
        self.n = rng.choice([1, 1, 2, 3])
        self.sink = None
        self.ops = []
        self.next_id = 0
        self.callee_of = {}
        self.unacted = []
        self.stored = []
        self.moved = []
        self.state = ["up"] * 4       # up | unsure | gone
        self.val = 100
        self.tmo_pending = []         # absolute-ish deadlines to aim advances at
        self.t = 0
        self.settled = True
        self.exits_left = rng.choice([0, 0, 1, 1, 2, 3])

    def value(self):
        self.val += 1
        return self.val

    def emit(self, o, settle_p=0.7):
        self.ops.append(o)
        self.settled = False
        if self.rng.random() < settle_p:
            self.ops.append(("settle",))
            self.settled = True

    def new_call(self, a, tmo):
        c = self.next_id
        self.next_id += 1
        self.callee_of[c] = a
        self.unacted.append(c)
        if tmo is not None:
            self.tmo_pending.append(self.t + tmo)
        return c

    def step(self):
        r = self.rng
        x = r.random()
        callees = list(range(self.n))
        if x < 0.30:
            a = r.choice(callees)
            tmo = r.choice(TMOS)
            self.new_call(a, tmo)
            variants = ["", "", "d"] + (["m"] if tmo is None or tmo % MS == 0 else [])
            self.emit(("call", a, tmo, r.choice(variants)), 0.6)
        elif x < 0.36:
            if self.sink is None:
                self.sink = self.n
            a = r.choice(callees)
            tmo = r.choice(TMOS)
            self.new_call(a, tmo)
            self.emit(("fwd", a, self.sink, tmo), 0.6)
        elif x < 0.42:
            k = r.choice([1, 2, 3])
            ts = [r.choice(callees) for _ in range(k)]
            if any(self.state[a] == "unsure" for a in ts):
                return
            tmo = r.choice(TMOS)
            if not self.settled:
                self.ops.append(("settle",))
            for a in ts:
                self.new_call(a, tmo)
                if self.state[a] == "gone":
                    break
            self.ops.append(("multi", ts, tmo))
            self.ops.append(("settle",))
            self.settled = True
        elif x < 0.76 and self.unacted:
            c = r.choice(self.unacted[:3]) if r.random() < 0.8 else r.choice(self.unacted)
            self.unacted.remove(c)
            kind = r.choice(["reply"] * 6 + ["drop", "store", "store", "move", "move"]
                            + (["panic", "err"] if self.exits_left > 0 else []))
            if kind in ("panic", "err"):
                self.exits_left -= 1
            also = []
            if self.stored and r.random() < 0.5:
                for s_ in r.sample(self.stored, min(len(self.stored), r.choice([1, 2]))):
                    self.stored.remove(s_)
                    also.append((s_, self.value() if r.random() < 0.7 else None))
            act = ("reply", self.value()) if kind == "reply" else (kind,)
            if kind == "store":
                self.stored.append(c)
            if kind == "move":
                self.moved.append(c)
            if kind in ("panic", "err"):
                self.state[self.callee_of[c]] = "unsure"
            self.emit(("act", c, act, also))
        elif x < 0.82 and self.moved:
            c = r.choice(self.moved)
            self.moved.remove(c)
            self.emit(("task", c, self.value() if r.random() < 0.7 else None))
        elif x < 0.87:
            if self.exits_left <= 0:
                return
            self.exits_left -= 1
            a = r.choice(callees + ([self.sink] if self.sink is not None and r.random() < 0.3 else []))
            what = r.choice(["kill", "kill", "stop", "drain"])
            self.emit((what, a), 0.6)
            if what == "drain":
                self.state[a] = "gone"
            else:
                self.state[a] = "gone" if (what == "kill" and self.settled) else "unsure"
        else:
            if self.tmo_pending and r.random() < 0.7:
                d = r.choice(self.tmo_pending)
                target = r.choice([d - 1, d, ceil_ms(d), ceil_ms(d) + 1, ceil_ms(d) - MS])
                dt = target - self.t
                if dt <= 0:
                    dt = r.choice([1, MS])
            else:
                dt = r.choice([1, 500_000, MS, 3 * MS])
            kind = "advraw" if r.random() < 0.3 else "adv"
            self.ops.append((kind, dt))
            self.t += dt
            self.settled = True

    def build(self):
        for _ in range(self.rng.choice([4, 8, 12, 20, 30])):
            self.step()
        # a settled 'gone' state for actors that were killed and then settled later
        n_actors = self.n + (1 if self.sink is not None else 0)
        return n_actors, self.ops


def gen_systematic():
    """one call (with / without timeout) x the callee exits by every cause at every point
    relative to the request being queued / dequeued / answered; two concurrent callers with
    replies in both orders; stored and moved ports"""
    cases = []
    exits = [("kill",), ("stop",), ("drain",), ("panic",), ("err",)]
    for tmo in (None, 3 * MS):
        for ex in exits:
            for point in ("before-call", "queued", "dequeued", "answered", "never"):
                ops = []
                def do_exit(c=0):
                    if ex[0] in ("panic", "err"):
                        ops.append(("act", c, (ex[0],), []))
                    else:
                        ops.append((ex[0], 0))
                if point == "before-call":
                    if ex[0] in ("panic", "err"):
                        ops += [("call", 0, None), ("settle",)]
                        do_exit(0)
                        ops += [("settle",), ("call", 0, tmo), ("settle",)]
                    else:
                        do_exit()
                        ops += [("settle",), ("call", 0, tmo), ("settle",)]
                elif point == "queued":
                    # a first request keeps the handler busy, the second one stays queued
                    ops += [("call", 0, None), ("settle",), ("call", 0, tmo), ("settle",)]
                    do_exit(0)
                    ops += [("settle",), ("act", 1, ("reply", 7), []), ("settle",)]
                elif point == "dequeued":
                    ops += [("call", 0, tmo), ("settle",)]
                    do_exit(0)
                    ops += [("settle",)]
                elif point == "answered":
                    ops += [("call", 0, tmo), ("settle",), ("act", 0, ("reply", 7), [])]
                    if ex[0] in ("panic", "err"):
                        ops += [("call", 0, None), ("settle",), ("act", 1, (ex[0],), []), ("settle",)]
                    else:
                        do_exit()
                        ops += [("settle",)]
                else:
                    ops += [("call", 0, tmo), ("settle",), ("adv", 2 * MS), ("adv", MS), ("adv", MS)]
                for settle_between in (True, False):
                    o2 = [o for o in ops if settle_between or o[0] != "settle"]
                    o2 = o2 + [("adv", 4 * MS)] if tmo else o2
                    cases.append((1, o2))
                    for variant in ("d", "m"):
                        cases.append((1, [(o[0], o[1], o[2], variant) if o[0] == "call" else o for o in o2]))
    # two concurrent callers, replies in both orders, distinguishable values
    for order in ((0, 1), (1, 0)):
        for store in (False, True):
            ops = [("call", 0, None), ("call", 0, None), ("settle",)]
            if store:
                ops += [("act", 0, ("store",), []), ("settle",), ("act", 1, ("reply", 21), [(0, 20)]), ("settle",)]
            else:
                ops += [("act", order[0], ("reply", 20 + order[0]), []), ("act", order[1], ("reply", 20 + order[1]), []), ("settle",)]
            cases.append((1, ops))
    # timeout vs reply at the same instant
    for raw in (True, False):
        cases.append((1, [("call", 0, 3 * MS), ("settle",), ("act", 0, ("reply", 5), [])] + [("advraw" if raw else "adv", 3 * MS)]))
        cases.append((1, [("call", 0, 3 * MS), ("settle",), ("advraw" if raw else "adv", 3 * MS), ("act", 0, ("reply", 5), []), ("settle",)]))
    # moved port outlives the callee
    cases.append((1, [("call", 0, None), ("settle",), ("act", 0, ("move",), []), ("settle",), ("kill", 0), ("settle",),
                      ("task", 0, 9), ("settle",)]))
    cases.append((1, [("call", 0, None), ("settle",), ("act", 0, ("move",), []), ("settle",), ("kill", 0), ("settle",),
                      ("task", 0, None), ("settle",)]))
    # multi_call: every permutation of reply order for three targets, one dead target
    import itertools
    for perm in itertools.permutations(range(3)):
        ops = [("multi", [0, 1, 2], None), ("settle",)] + [("act", c, ("reply", 40 + c), []) for c in perm] + [("settle",)]
        cases.append((3, ops))
        ops = [("multi", [2, 0, 1], 2 * MS), ("settle",)] + [("act", c, ("reply", 40 + c), []) for c in perm[:2]] + [("adv", 2 * MS)]
        cases.append((3, ops))
    for dead in range(3):
        cases.append((3, [("kill", dead), ("settle",), ("multi", [0, 1, 2], None), ("settle",),
                          ("act", 0, ("reply", 50), []), ("settle",)]))
    # multi_call with timeout T over 2-3 callees, replies scripted at staggered virtual times
    # around T (before / after / in between): the vector is due AT T, late slots are Timeout
    T = 3 * MS
    for n in (2, 3):
        for times in itertools.product([MS, 2 * MS, 3 * MS, 4 * MS, 5 * MS, None], repeat=n):
            if all(t is None for t in times):
                continue
            evs = sorted([(t, c) for c, t in enumerate(times) if t is not None])
            ops = [("multi", list(range(n)), T), ("settle",)]
            now = 0
            for (t, c) in evs:
                if t > now:
                    ops.append(("adv", t - now))
                    now = t
                ops.append(("act", c, ("reply", 70 + c), []))
                ops.append(("settle",))
            ops.append(("adv", 8 * MS - now))
            cases.append((n, ops))
    # un-timed multi_call over callees that accept the request and then drop the port / stop /
    # are killed / panic while holding it: those slots are SenderError (never Timeout)
    for n in (2, 3):
        for bad in range(n):
            for how in ("drop", "kill", "stop", "panic", "err", "store-kill"):
                for order in ("bad-first", "bad-last"):
                    ops = [("multi", list(range(n)), None), ("settle",)]
                    good = [("act", c, ("reply", 80 + c), []) for c in range(n) if c != bad]
                    if how == "drop":
                        b = [("act", bad, ("drop",), [])]
                    elif how == "kill":
                        b = [("kill", bad)]
                    elif how == "stop":
                        b = [("stop", bad), ("act", bad, ("drop",), [])]
                    elif how == "store-kill":
                        b = [("act", bad, ("store",), []), ("settle",), ("kill", bad)]
                    else:
                        b = [("act", bad, (how,), [])]
                    ops += (b + [("settle",)] + good) if order == "bad-first" else (good + [("settle",)] + b)
                    ops.append(("settle",))
                    cases.append((n, ops))
    # forward: success, dead sink, sender error, timeout
    cases.append((2, [("fwd", 0, 1, None), ("settle",), ("act", 0, ("reply", 60), []), ("settle",)]))
    cases.append((2, [("fwd", 0, 1, None), ("settle",), ("kill", 1), ("settle",), ("act", 0, ("reply", 60), []), ("settle",)]))
    cases.append((2, [("fwd", 0, 1, None), ("settle",), ("act", 0, ("drop",), []), ("settle",)]))
    cases.append((2, [("fwd", 0, 1, MS), ("settle",), ("adv", MS), ("act", 0, ("reply", 60), []), ("settle",)]))
    return cases


def canon(t):
    if not (isinstance(t, tuple) and t[0] == "mkObs"):
        return t
    fw = t[3]
    if isinstance(fw, list):
        fw = sorted(fw, key=lambda e: tuple(str(x) for x in e))
    return ("mkObs", t[1], t[2], fw, t[4])


def load_corpus():
    d = os.path.join(ROOT, "corpus", "C09")
    out = []
    if os.path.isdir(d):
        for f in sorted(os.listdir(d)):
            if f.endswith(".json"):
                j = json.load(open(os.path.join(d, f)))
                out.append((j["n"], [tuple(tuple(x) if isinstance(x, list) else x for x in o) for o in j["ops"]]))
    return out


def run(chk):
    quick = chk.tier == "quick"
    ok_proofs = chk.proofs()
    factor = 1 if ok_proofs else 10
    build = cargo_build(["eng_rpc"])
    if not build["ok"]:
        ok, log = repo_builds_without_hooks()
        if not ok:
            return infrastructure_failure(chk.prop, "/repo does not compile even without hooks:\n" + log[-1500:])
        chk.violation("harness no longer builds against /repo",
                      "correspondence E1:eng_rpc cannot be built against the current tree\n" + build["log"][-3000:],
                      failing_input=False)
        return chk.finish(trusted_base=TRUSTED)

    if getattr(chk, "replay", None):
        txt = open(chk.replay).read()
        m = re.search(r'"harness_line": "([^"]*)"', txt)
        if m:
            out = run_harness(build, "eng_rpc", [m.group(1)])
            print("replay:", m.group(1))
            print("implementation:", out[0])

    cases = load_corpus()
    n_corpus = len(cases)
    cases += gen_systematic()
    n_sys = len(cases) - n_corpus
    n_rand = (1200 if quick else 15000) * factor
    for _ in range(n_rand):
        cases.append(Gen(chk.rng).build())

    lines = [f"{n} | " + " ; ".join(op_line(o) for o in ops) for n, ops in cases]
    impl = run_harness(build, "eng_rpc", lines, shards=min(NCPU, 8))
    impl_t = [parse_term(x) for x in impl]
    exprs = [f"observe {n}%nat {ops_term(ops)}" for n, ops in cases]
    exprs += [f"check_C09 {n}%nat {ops_term(ops)} ({impl[i]})" for i, (n, ops) in enumerate(cases)]
    exprs += [f"check_C09 {n}%nat {ops_term(ops)} (observe {n}%nat {ops_term(ops)})" for n, ops in cases]
    model = coq_eval("C09", IMPORTS, exprs)
    N_ = len(cases)
    model_t = [parse_term(x) for x in model[:N_]]
    oracle = model[N_:2 * N_]
    model_oracle = model[2 * N_:]
    bad_mo = [i for i in range(N_) if model_oracle[i].strip() != "true"]
    chk.coverage["model_oracle_accepts"] = N_ - len(bad_mo)
    for i in bad_mo[:1]:
        chk.violation("oracle rejects the model's own observation (model / oracle inconsistency)",
                      "correspondence E1:oracle-vs-model check_C09 rejects observe(ops)\n" + lines[i],
                      failing_input=False)

    distinct = set()
    for i, (n, ops) in enumerate(cases):
        chk.coverage["evaluations"] += 1
        mv, iv = canon(model_t[i]), canon(impl_t[i])
        for o in ops:
            chk.count("op." + o[0] + ("." + o[2][0] if o[0] == "act" else ""))
        nontriv = False
        if isinstance(iv, tuple) and iv[0] == "mkObs":
            for e in iv[1]:
                r = e[1]   # mkOC res ...
                kind = r if isinstance(r, str) else r[0]
                chk.count("result." + kind)
                if kind != "OPending":
                    nontriv = True
            for ge in iv[2]:
                g = ge[1]
                chk.count("multi." + (g if isinstance(g, str) else g[0]))
                nontriv = nontriv or g != "GPending"
            chk.count("forwards", len(iv[3]))
        if nontriv:
            distinct.add(lines[i] + "|" + show_term(iv))
        desc = json.dumps({"harness_line": lines[i], "n": n, "ops": [list(o) for o in ops],
                           "impl": show_term(iv), "model": show_term(mv)}, indent=1, default=str)
        if oracle[i].strip() != "true":
            chk.violation("RPC property violated on the implementation",
                          "C09 oracle check_C09 rejects the implementation's observation\n" + desc)
        elif mv != iv:
            chk.coverage["disagreements_checked"] += 1
            chk.violation("model/implementation disagree (rpc view)",
                          "correspondence E1:eng_rpc view differs (oracle accepts)\n" + desc, failing_input=False)
        if len(chk.coverage["samples"]) < 3 and i in (n_corpus + 5, n_corpus + n_sys + 3, n_corpus + n_sys + 17):
            chk.coverage["samples"].append(json.loads(desc))
    chk.coverage["traces_validated_against_impl"] = N_
    chk.coverage["distinct_nontrivial"] = len(distinct)
    chk.coverage["exhaustive_part"] = (f"{n_sys} systematic scenarios: one call (with/without timeout) x callee exit by "
                                       "{kill,stop,drain,panic,handler error} x {before the call, request queued, dequeued, "
                                       "answered, never} x {settled between ops, not}; two concurrent callers in both reply "
                                       "orders (direct and via stored port); reply vs timeout at the same instant; moved port "
                                       "outliving the callee; multi_call with all 6 reply orders of 3 targets (with and without "
                                       "timeout) and each dead target; forward success / dead sink / dropped port / timeout")
    chk.coverage["rule"] = ("non-trivial = at least one call or multi_call returned in the implementation run; distinct = "
                            f"distinct (scenario, observation) pairs; {n_corpus} corpus + {n_sys} systematic + {n_rand} seeded random")
    return chk.finish(trusted_base=TRUSTED)


TRUSTED = [
    "Coq 8.16.1 kernel (coqc); vm_compute for evaluating the model and the oracle on scenarios",
    "no axioms: every property theorem prints 'Closed under the global context'",
    "MODELLED, not verified: tokio oneshot (one value; sender drop closes; send to a dropped receiver fails), "
    "tokio::time::timeout (inner future polled first; deadline = first poll + d rounded up to the 1 ms wheel), "
    "mpsc close-and-flush when the actor's ports are dropped, JoinSet; Rust ownership makes the reply port linear",
    "hand-written model coq/Rpc/Model.v tied to ractor/src/rpc.rs, port.rs and the actor loop by running both on the "
    "same scenarios (this check)",
    "Rust harness eng_rpc (paused clock, per-request semaphores, yield-based settle with a stability re-check), "
    "lib/common.py term parser and comparison",
    "fair scheduling by the runtime for the completion clauses (no-hang, timeout bound)",
]
