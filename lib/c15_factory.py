"""C15 part 2 (E1): the real Factory under a deterministic schedule vs. Factory/Capacity.v.

A scenario = a factory configuration + a list of operations.  Operations that need to know
what a worker is doing are *relative* (`finw w` = the job slot w is running completes), so the
generator needs no model.  Every operation other than a burst of dispatches is followed by a
quiescence barrier; total virtual time stays below the factory's first 100 ms Calculate tick.
"""
import json

from common import *

IMPORTS = "Ratelim.Model Factory.Capacity"
MS = 1_000_000


def gen_cfg(rng):
    router = rng.choice(["queuer", "queuer", "rr", "custom", "kp", "sticky"])
    queue = rng.choice(["default", "default", "prio"])
    d = rng.random()
    if d < 0.2:
        discard = None
    else:
        discard = (rng.choice(["newest", "oldest"]), rng.choice([0, 1, 1, 2, 2, 3]))
    rate = None
    if rng.random() < 0.25:
        rate = {"refill": rng.choice([0, 1, 1, 2]), "interval": rng.choice([0, 1, 2, 3, 5]) * MS,
                "max": rng.choice([None, 1, 2, 3]), "initial": rng.choice([None, 0, 1, 2])}
    n0 = rng.choice([0, 1, 1, 2, 2, 2, 3, 4]) if router in ("queuer", "sticky") else rng.choice([0, 1, 1, 1, 2, 2, 2, 2, 3, 4])
    # scripted WorkerCapacityController (asked on every Calculate tick) and, for factory-queueing routers,
    # DiscardSettings::Dynamic with a scripted controller (asked on every DoPings); worker-queueing routers get
    # no changing dynamic limit: a busy worker learns it only with its next pong (not modelled)
    ctl = [rng.choice([0, 1, 2, 2, 3, 4]) for _ in range(rng.choice([1, 2, 3]))] if rng.random() < 0.25 else None
    dyn = None
    if discard is not None and router in ("queuer", "sticky") and rng.random() < 0.3:
        dyn = [rng.choice([0, 1, 2, 3]) for _ in range(rng.choice([1, 2, 3]))]
    return {"router": router, "queue": queue, "discard": discard, "rate": rate, "n0": n0, "ctl": ctl, "dyn": dyn}


def gen_scenario(rng, style=None):
    c = gen_cfg(rng)
    style = style or rng.choice(["mixed", "mixed", "burst", "resize", "drain", "drain", "retire_drain", "late_events", "update", "update"])
    if style == "retire_drain":
        return gen_retire_drain(rng)
    if style == "update":
        return gen_update(rng)
    ops = [("settle",)]
    settles = 1
    nid = 0
    maxw = max(c["n0"], 1)
    drained = False
    budget = rng.choice([10, 16, 24])
    wd, wf, wr, wk, wq, wa = {"mixed": (5, 4, 2, 1.5, 1, 0.7), "burst": (8, 3, 0.5, 0.3, 1.5, 0.5),
                              "resize": (4, 3, 5, 3, 2, 0.3), "drain": (5, 4, 1.5, 1.5, 1, 0.5),
                              "late_events": (4, 3, 1.5, 1, 1, 0.3)}[style]
    # episodes in which a worker actor is stopping and its supervision event reaches the factory late
    # (slow post_stop): A = user code stops an idle worker, jobs are dispatched meanwhile (worker-queueing
    # routers); B = a shrink stops the worker and the pool grows again over the same slot meanwhile
    we = {"late_events": 4.0, "resize": 1.0}.get(style, 0.5)
    size = max(c["n0"], 0)
    cur_disc = "none" if c["discard"] is None else f"{c['discard'][0]}:{c['discard'][1]}"
    ticks = 0
    if c["rate"]:
        wa = 2.0
    drain_at = rng.randint(2, budget) if style == "drain" or rng.random() < 0.25 else None
    step = 0
    while step < budget and settles < 40:
        step += 1
        if rng.random() < 0.06:
            cur_disc = gen_discard_update(rng)
            ops += [("upd", cur_disc), ("settle",)]
            settles += 1
            c["dyn_live"] = False
            continue
        if ticks < 3 and rng.random() < (0.12 if (c.get("ctl") or c.get("dyn")) else 0.03):
            ticks += 1
            ops += [("tick",), ("settle",)]
            settles += 1
            continue
        if rng.random() < 0.03:
            ops += [("updhooks",), ("settle",)]
            settles += 1
            continue
        if drain_at is not None and step == drain_at and not drained:
            ops += [("drain",), ("settle",)]
            settles += 1
            drained = True
            continue
        r = rng.random() * (wd + wf + wr + wk + wq + wa + we)
        if r >= wd + wf + wr + wk + wq + wa:
            if drained or size == 0:
                continue
            w = rng.randrange(size)
            newest0 = cur_disc.endswith("newest:0")
            if c["router"] in ("rr", "custom", "kp") and not newest0 and rng.random() < 0.5:
                ops += [("stopw", w), ("settle",)]
                settles += 1
                for _ in range(rng.choice([1, 2, 3])):
                    for _ in range(rng.choice([1, 2, 3])):
                        nid += 1
                        ops.append(("d", nid, rng.choice([w, w, rng.randint(0, 7)]), 3, 1))
                    ops.append(("settle",))
                    settles += 1
                ops += [("openstop", w), ("settle",)]
                settles += 1
            else:
                a = rng.randint(max(1, w - 1), w) if w >= 1 else None
                if a is None:
                    continue
                b = rng.randint(w + 1, min(w + 3, 5))
                ops += [("gatestop", w), ("resize", a), ("settle",), ("resize", b), ("settle",),
                        ("openstop", w), ("settle",)]
                settles += 3
                size = b
                maxw = max(maxw, b)
            continue
        if r < wd:
            n = rng.choice([1, 1, 2, 3, 4, 6]) if style != "burst" else rng.choice([2, 3, 5, 7])
            for _ in range(n):
                nid += 1
                if c["router"] in ("kp", "sticky"):
                    # few distinct keys, so that key affinity / stickiness is exercised
                    rk, prio, disc = rng.choice([(0, 3, 1), (0, 3, 1), (1, 3, 1), (2, 1, 1), (3, 3, 0), (5, 4, 1)])
                else:
                    prio = rng.choice([0, 1, 2, 3, 3, 4, 6])
                    disc = 1 if rng.random() < 0.75 else 0
                    rk = rng.randint(0, 7)
                ops.append(("d", nid, rk, prio, disc))
                if rng.random() < 0.3:
                    ops.append(("settle",))
                    settles += 1
            if ops[-1] != ("settle",):
                ops.append(("settle",))
                settles += 1
        elif r < wd + wf:
            if rng.random() < 0.3:
                ops += [("finall",), ("settle",)]
            else:
                ops += [("finw", rng.randint(0, maxw)), ("settle",)]
            settles += 1
        elif r < wd + wf + wr:
            n = rng.choice([0, 1, 1, 2, 2, 3, 4, 5])
            maxw = max(maxw, n)
            if n:
                size = n
            ops += [(rng.choice(["resize", "resize", "updn"]), n), ("settle",)]
            settles += 1
        elif r < wd + wf + wr + wk:
            ops += [(rng.choice(["kill", "failw"]), rng.randint(0, maxw)), ("settle",)]
            settles += 1
        elif r < wd + wf + wr + wk + wq:
            ops += [("q",), ("settle",)]
            settles += 1
        else:
            ops += [("adv", rng.choice([1, 1, 2, 3]) * MS), ("settle",)]
            settles += 1
    # finishing phase: let every running job complete until nothing runs, then look
    for _ in range(min(nid + 2, 85 - settles)):
        ops += [("finall",), ("settle",)]
    ops += [("q",), ("settle",)]
    return {"cfg": c, "ops": ops, "style": style}


def gen_update(rng):
    """runtime UpdateSettings{discard_settings}: workers (or the factory queue) are loaded, the settings are
    replaced (None -> limit, limit change, mode switch, limit -> None), bursts follow onto the workers that
    existed before the update"""
    c = gen_cfg(rng)
    c["rate"] = None
    c["n0"] = rng.choice([1, 1, 2, 2, 3])
    if rng.random() < 0.5:
        c["discard"] = None
        c["dyn"] = None
    ops = [("settle",)]
    nid = 0
    settles = 1
    kp = c["router"] in ("kp", "sticky")

    def burst(n):
        nonlocal nid, settles
        for _ in range(n):
            nid += 1
            if kp:
                rk, prio, disc = rng.choice([(0, 3, 1), (0, 3, 1), (1, 3, 1), (2, 1, 1), (5, 4, 1)])
            else:
                rk, prio, disc = rng.randint(0, 7), rng.choice([1, 3, 3, 4]), 1 if rng.random() < 0.85 else 0
            ops.append(("d", nid, rk, prio, disc))
            if rng.random() < 0.25:
                ops.append(("settle",))
                settles += 1
        if ops[-1] != ("settle",):
            ops.append(("settle",))
            settles += 1

    burst(rng.choice([2, 4, 6]))
    for _ in range(rng.choice([1, 2, 3])):
        ops += [("upd", gen_discard_update(rng)), ("settle",)]
        settles += 1
        for _ in range(rng.choice([1, 2])):
            burst(rng.choice([2, 3, 5]))
            r = rng.random()
            if r < 0.3:
                ops += [("finw", rng.randrange(c["n0"])), ("settle",)]
                settles += 1
            elif r < 0.4:
                ops += [("q",), ("settle",)]
                settles += 1
            elif r < 0.5:
                n = rng.choice([1, 2, 3])
                ops += [("resize", n), ("settle",)]
                settles += 1
    for _ in range(max(0, min(nid + 2, 85 - settles))):
        ops += [("finall",), ("settle",)]
    ops += [("q",), ("settle",)]
    return {"cfg": c, "ops": ops, "style": "update"}


def gen_retire_drain(rng):
    """a busy worker with queued accepted jobs is retired by a shrink, the other workers become idle,
    then DrainRequests: everything accepted must still finish"""
    c = gen_cfg(rng)
    c["router"] = rng.choice(["rr", "custom", "kp"])
    c["rate"] = None
    c["dyn"] = None
    c["n0"] = rng.choice([2, 2, 3, 4])
    if c["discard"] is not None and c["discard"][1] < 2:
        c["discard"] = (c["discard"][0], rng.choice([2, 3, 5]))
    ops = [("settle",)]
    nid = 0
    for _ in range(rng.choice([1, 2])):
        for _ in range(rng.choice([3, 5, 7])):
            nid += 1
            rk, prio, disc = (rng.choice([(0, 3, 1), (1, 3, 1), (2, 1, 1), (5, 4, 1)]) if c["router"] == "kp"
                              else (rng.randint(0, 7), 3, 1))
            ops.append(("d", nid, rk, prio, disc))
        ops.append(("settle",))
    new = rng.randint(1, c["n0"] - 1)
    ops += [("resize", new), ("settle",)]
    for _ in range(rng.choice([0, 2, 4, 8])):
        ops += [("finw", rng.randrange(new)), ("settle",)]
    if rng.random() < 0.3:
        ops += [("q",), ("settle",)]
    ops += [("drain",), ("settle",)]
    if rng.random() < 0.5:
        nid += 1
        ops += [("d", nid, 0, 3, 1), ("settle",)]
    settles = sum(1 for o in ops if o[0] == "settle")
    for _ in range(min(nid + 2, 85 - settles)):
        ops += [("finall",), ("settle",)]
    ops += [("q",), ("settle",)]
    return {"cfg": c, "ops": ops, "style": "retire_drain"}


def scn_line(s):
    c = s["cfg"]
    disc = "none" if c["discard"] is None else f"{c['discard'][0]}:{c['discard'][1]}"
    if c["rate"] is None:
        rate = "none"
    else:
        r = c["rate"]
        rate = (f"{r['refill']}:{r['interval']}:{'-' if r['max'] is None else r['max']}:"
                f"{'-' if r['initial'] is None else r['initial']}")
    ops = " ; ".join(" ".join(str(x) for x in o) for o in s["ops"])
    scr = lambda v: "-" if v is None else (",".join(str(x) for x in v) or "-")
    return f"cap {c['router']} {c['queue']} {disc} {rate} {c['n0']} {scr(c.get('ctl'))} {scr(c.get('dyn'))} ; {ops}"


USIZE_MAX = 2**64 - 1
IMAX = (2**63 - 2**32) * 10**9


HASHES = {}   # packed key -> [hash_with_max(key, n) for n in 1..8], filled from the harness


def pk(rk, prio, disc):
    return rk * 65536 + prio * 256 + (1 if disc else 0)


def cfg_term(c, ops=()):
    router = {"queuer": "RQueuer", "rr": "RRoundRobin", "custom": "RCustom", "kp": "RKeyPersistent",
              "sticky": "RSticky"}[c["router"]]
    table = "[]"
    if c["router"] == "kp":
        keys = sorted({pk(o[2], o[3], o[4]) for o in ops if o[0] == "d"})
        table = "[" + "; ".join(f"({k}, [" + "; ".join(str(h) for h in HASHES[k]) + "])" for k in keys) + "]"
    queue = {"default": "QDefault", "prio": "QPrio"}[c["queue"]]
    disc = "None" if c["discard"] is None else \
        f"(Some ({c['discard'][1]}, {'Newest' if c['discard'][0] == 'newest' else 'Oldest'}))"
    if c["rate"] is None:
        rate = "None"
    else:
        r = c["rate"]
        maxb = USIZE_MAX // 2 if r["max"] is None else r["max"]
        init = "None" if r["initial"] is None else f"(Some {r['initial']})"
        rate = f"(Some (mkCfg {r['refill']} {r['interval']} {maxb} {USIZE_MAX} {IMAX}, {init}))"
    lst = lambda v: "[" + "; ".join(str(x) for x in (v or [])) + "]"
    return f"(mkFcfg {router} {queue} {disc} {rate} {c['n0']} {table} ({lst(c.get('ctl'))}, {lst(c.get('dyn'))}))"


def disc_term(d):
    """none | newest:L | oldest:L | dyn-newest:L | dyn-oldest:L  (Dynamic = Static between two 10 s ping cycles)"""
    if d == "none":
        return "None"
    m, l = d.split(":")
    return f"(Some ({l}, {'Newest' if m.endswith('newest') else 'Oldest'}))"


def gen_discard_update(rng):
    r = rng.random()
    if r < 0.15:
        return "none"
    return rng.choice(["newest", "oldest", "dyn-newest", "dyn-oldest"]) + ":" + str(rng.choice([0, 1, 1, 2, 2, 3]))


def op_term(o):
    k = o[0]
    if k == "d":
        return f"FDispatch (mkJob {o[1]} {o[2]} {o[3]} {'true' if o[4] else 'false'})"
    return {"finw": lambda: f"FFinishW {o[1]}", "failw": lambda: f"FFailW {o[1]}", "kill": lambda: f"FKill {o[1]}",
            "resize": lambda: f"FResize {o[1]}", "drain": lambda: "FDrain", "adv": lambda: f"FAdv {o[1]}",
            "settle": lambda: "FSettle", "q": lambda: "FQuery", "finall": lambda: "FFinishAll",
            "stopw": lambda: f"FStopW {o[1]}", "openstop": lambda: f"FOpenStop {o[1]}",
            "upd": lambda: "FUpdate " + disc_term(o[1]), "tick": lambda: "FTick",
            "updn": lambda: f"FResize {o[1]}", "updhooks": lambda: "FNudge"}[k]()


def model_ops(ops):
    """`gatestop w` only makes the post_stop of slot w's current actor slow: no label of the model"""
    return [o for o in ops if o[0] != "gatestop"]


def ops_term(ops):
    return "[" + "; ".join(op_term(o) for o in model_ops(ops)) + "]"


def split_windows(ops):
    """ops grouped into settle-delimited windows (each ends with its settle)"""
    out, cur = [], []
    for o in ops:
        cur.append(o)
        if o[0] == "settle":
            out.append(cur)
            cur = []
    if cur:
        out.append(cur)
    return out


def model_windows(ops, per_op):
    """model output = start-up events + one event list per op; regroup per settle window"""
    wins, cur = [], list(per_op[0])
    for o, evs in zip(model_ops(ops), per_op[1:]):
        cur += evs
        if o[0] == "settle":
            wins.append(cur)
            cur = []
    if cur:
        wins.append(cur)
    return wins


def ev_key(e):
    return show_term(e)


ORACLE_CLAUSES = ["discard_once", "queue_bound", "shed_identity", "reject_reported", "rate_window",
                  "drain_refuses", "drain_finishes_then_stops", "hooks_order", "resize_converges",
                  "accepted_jobs_finish"]


def obs_term(s, impl_windows):
    ws = split_windows(s["ops"])
    parts = []
    for k, evs in enumerate(impl_windows):
        ops = ws[k] if k < len(ws) else []
        parts.append(f"({ops_term(ops)}, {show_term(evs)})")
    return "[" + "; ".join(parts) + "]"


def finding_signature(s, impl_windows):
    """known-finding signature F6: a worker dies (kill / failing handler) while it is draining
    after a shrink.  Matched on the scenario + implementation trace, not on the property."""
    target = s["cfg"]["n0"]
    running = {}          # slot -> job id, from the implementation's EStart / EEnd / ELost events
    ws = split_windows(s["ops"])
    for k, ops in enumerate(ws):
        for o in ops:
            if o[0] == "resize" and o[1] != 0:
                target = min(o[1], 1_000_000)
            if o[0] in ("kill", "failw") and o[1] >= target and o[1] in running:
                return True
        for e in (impl_windows[k] if k < len(impl_windows) else []):
            if isinstance(e, tuple) and e[0] == "EStart":
                running[e[2]] = e[1]
            if isinstance(e, tuple) and e[0] in ("EEnd", "ELost"):
                for w in [w for w, j in running.items() if j == e[1]]:
                    del running[w]
    return False


def factory_part(chk, build, factor):
    quick = chk.tier == "quick"
    rng = chk.rng
    n = (500 if quick else 6000) * factor
    scns = [gen_scenario(rng) for _ in range(n)]
    corpus_dir = os.path.join(ROOT, "corpus", "C15")
    if os.path.isdir(corpus_dir):
        for f in sorted(os.listdir(corpus_dir)):
            if f.endswith(".json"):
                scns.insert(0, json.load(open(os.path.join(corpus_dir, f))))
    for s in scns:
        s["ops"] = [tuple(o) for o in s["ops"]]
        if isinstance(s["cfg"].get("discard"), list):
            s["cfg"]["discard"] = tuple(s["cfg"]["discard"])
    # KeyPersistentRouting's hash (DefaultHasher) is data of the scenario: ask the real function
    keys = sorted({(o[2], o[3], o[4]) for s in scns if s["cfg"]["router"] == "kp" for o in s["ops"] if o[0] == "d"})
    if keys:
        hs = run_harness(build, "eng_capacity", [f"hash {a} {b} {c}" for a, b, c in keys])
        for (a, b, c), h in zip(keys, hs):
            HASHES[pk(a, b, c)] = parse_term(h)
    impl = run_harness(build, "eng_capacity", [scn_line(s) for s in scns], shards=8)
    exprs = []
    for s, iv in zip(scns, impl):
        it = parse_term(iv)
        s["impl"] = it
        ct = cfg_term(s["cfg"], s["ops"])
        s["cfg_term"] = ct
        exprs.append(f"(factory_run {ct} {ops_term(s['ops'])}, check_C15_factory_clauses {ct} {obs_term(s, it)})")
    model = coq_eval(f"C15fp{os.getpid()}", IMPORTS, exprs)
    distinct = set()
    for k, (s, mv) in enumerate(zip(scns, model)):
        mt = parse_term(mv)
        assert mt[0] == "tuple" and len(mt) == 3, mv[:200]
        per_op, clauses = mt[1], mt[2]
        mw = model_windows(s["ops"], per_op)
        iw = s["impl"]
        chk.coverage["evaluations"] += 1
        chk.count("factory.style." + s.get("style", "corpus"))
        chk.count("factory.router." + s["cfg"]["router"])
        for o in s["ops"]:
            if o[0] in ("stopw", "gatestop", "openstop", "resize", "drain", "kill", "failw", "upd", "tick", "updn",
                        "updhooks"):
                chk.count("factory.op." + o[0])
        chk.count("factory.discard." + ("none" if s["cfg"]["discard"] is None else s["cfg"]["discard"][0]))
        flat = [e for w in iw for e in w]
        kinds = {}
        for e in flat:
            key = e[0] if isinstance(e, tuple) else e
            if key == "EDiscard":
                key += "." + str(e[2])
            kinds[key] = kinds.get(key, 0) + 1
        for key, v in kinds.items():
            chk.count("factory.ev." + key, v)
        for key in ("EDiscard.Loadshed", "EDiscard.RateLimited", "EDiscard.Shutdown", "ELost", "EStopped"):
            if kinds.get(key):
                chk.count("factory.scenarios_with." + key)
        if kinds.get("EDiscard.Loadshed") or kinds.get("EStopped") or kinds.get("ELost") or kinds.get("EDiscard.RateLimited"):
            distinct.add(scn_line(s))
        desc = {"kind": "factory", "harness_line": scn_line(s), "coq_cfg": s["cfg_term"],
                "coq_ops": ops_term(s["ops"])}
        bad = [name for name, v in zip(ORACLE_CLAUSES, clauses) if v != "true"]
        diff = None
        for wi in range(max(len(mw), len(iw))):
            a = sorted(ev_key(e) for e in (mw[wi] if wi < len(mw) else []))
            b = sorted(ev_key(e) for e in (iw[wi] if wi < len(iw) else []))
            if a != b:
                diff = (wi, a, b)
                break
        if diff is None:
            sel = lambda w: [ev_key(e) for x in w for e in x if isinstance(e, tuple) and e[0] in ("EDiscard", "EHook")]
            if sel(mw) != sel(iw):
                diff = (-1, sel(mw), sel(iw))
        if bad:
            desc["failed_clauses"] = bad
            desc["impl_windows"] = [[ev_key(e) for e in w] for w in iw]
            f6 = next((f for f in chk.finding_entries() if f.get("id") == "F6"), None)
            sig = f6 is not None and bad == ["resize_converges"] and finding_signature(s, iw)
            payload = ("C15 oracle check_C15_factory rejects the implementation's trace: clause(s) "
                       + ", ".join(bad) + "\n" + json.dumps(desc, indent=1))
            if sig:
                chk.count("factory.known_finding.F6")
                chk.known_finding("F6", "a worker that dies while draining after a shrink is replaced and never "
                                        "retired: live workers do not converge to the requested size")
            else:
                chk.violation("factory capacity control violated: " + ", ".join(bad), payload)
        elif diff is not None:
            chk.coverage["disagreements_checked"] += 1
            desc["first_difference_window"] = diff[0]
            desc["model"] = diff[1]
            desc["impl"] = diff[2]
            chk.violation("model/implementation disagree (factory capacity view)",
                          f"correspondence E1:capacity differs in settle window {diff[0]} (oracle accepts)\n"
                          + json.dumps(desc, indent=1), failing_input=False)
        if k in (5, 50) and len(chk.coverage["samples"]) < 6:
            desc["impl_windows"] = [[ev_key(e) for e in w] for w in iw][:12]
            chk.coverage["samples"].append(desc)
    chk.coverage["traces_validated_against_impl"] += len(scns)
    return distinct
