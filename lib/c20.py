"""C20 — remote actors behave like the actors they stand for (DESIGN.md section 4/C20).

Two engines:
  E3  the real `RemoteActor::handle_serialized` on a real `RemoteActorState` (cfg-gated hook
      `ractor_cluster::remote_verif`) against the Coq model `pstep`/`prun_view`, step by step;
  E4  two real `NodeServer`s in one process over an in-memory chaotic transport
      (`eng_remote_net`), judged by the executable oracle `check_C20` inside Coq.
"""
import json

from common import *

IMPORTS = "Cluster.Remote"
# work-directory tag: unique per process, so that concurrent runs (quick + thorough) do not share files
TAG = "C20x%d" % os.getpid()


# --------------------------------------------------------------------------------------
# E3: proxy histories

def gen_proxy_case(rng, big):
    """A history of casts / calls / replies / abandoned callers / session failure."""
    L = rng.choice([6, 12, 25, 40, 80] if not big else [80, 150, 250])
    ops = []
    outstanding = []   # (tag, port) in the model's eyes
    tag = 0
    port = 100
    down = False
    # styles: balanced, pile-up (many pending, few replies: exercises the cleanup budget),
    # churn (everything is abandoned quickly)
    style = rng.choice(["balanced", "pile", "churn", "pile"])
    for _ in range(L):
        r = rng.random()
        if style == "balanced":
            w = (0.2, 0.55, 0.8, 0.97)
        elif style == "pile":
            w = (0.1, 0.7, 0.78, 0.99)
        else:
            w = (0.15, 0.5, 0.6, 0.99)
        if r < w[0]:
            ops.append(("cast", rng.choice([1, 2]), rnd_bytes(rng)))
        elif r < w[1]:
            port += 1
            tag += 1
            ops.append(("call", rng.choice([3, 4, 5]), rnd_bytes(rng), port))
            if not down:
                outstanding.append((tag, port))
        elif r < w[2]:
            if outstanding and rng.random() < 0.85:
                t, _ = outstanding.pop(rng.randrange(len(outstanding)))
            else:
                t = rng.choice([0, tag + 1, tag + 7, max(1, tag // 2)])  # unknown / stale tags
                outstanding = [(a, b) for a, b in outstanding if a != t]
            ops.append(("reply", t, rnd_bytes(rng)))
        elif r < w[3]:
            if outstanding:
                k = rng.choice([1, 1, 2, 5, 20]) if style != "balanced" else 1
                for _ in range(min(k, len(outstanding))):
                    _, p = rng.choice(outstanding)
                    ops.append(("drop", p))
        else:
            if not down and rng.random() < 0.5:
                down = True
                ops.append(("down",))
    return {"pid": rng.choice([1, 7, 2 ** 40]), "ops": ops}


def rnd_bytes(rng):
    n = rng.choice([0, 0, 1, 2, 5])
    return [rng.randrange(256) for _ in range(n)]


def proxy_line(c):
    def b(x):
        return ",".join(map(str, x)) if x else "-"
    parts = []
    for op in c["ops"]:
        if op[0] == "cast":
            parts.append(f"cast {op[1]} {b(op[2])}")
        elif op[0] == "call":
            parts.append(f"call {op[1]} {b(op[2])} {op[3]}")
        elif op[0] == "reply":
            parts.append(f"reply {op[1]} {b(op[2])}")
        elif op[0] == "drop":
            parts.append(f"drop {op[1]}")
        else:
            parts.append("down")
    return f"proxy {c['pid']} | " + " ; ".join(parts)


def proxy_events(c):
    """Coq term: list pev"""
    ab = []
    ok = True
    evs = []

    def bl(x):
        return "[" + "; ".join(map(str, x)) + "]"
    for op in c["ops"]:
        env = f"({bl(ab)}, {'true' if ok else 'false'})"
        if op[0] == "cast":
            evs.append(f"({env}, PSend (mkMsg false {op[1]} {bl(op[2])}) 0)")
        elif op[0] == "call":
            evs.append(f"({env}, PSend (mkMsg true {op[1]} {bl(op[2])}) {op[3]})")
        elif op[0] == "reply":
            evs.append(f"({env}, PReply {op[1]} {bl(op[2])})")
        elif op[0] == "drop":
            if op[1] not in ab:
                ab = ab + [op[1]]
        else:
            ok = False
    return "[" + "; ".join(evs) + "]"


# --------------------------------------------------------------------------------------
# E3b: the session-side handlers (real NodeSession on a real state, no network)

RB = 1000000


def gen_sess_case(rng, case_id):
    L = rng.choice([8, 15, 30, 60])
    ops = []
    nprobe = 0
    alive = set()
    member = set()      # (i, g) local memberships
    port = 100
    used_ports = []
    # 77: a peer actor whose pid NUMBER equals the local pid of the session's transport actor
    qs = [0, 1, 2, 77] if rng.random() < 0.5 else [0, 1, 2]
    for _ in range(L):
        r = rng.random()
        if r < 0.03 and nprobe > 0:
            # an announced actor that is still in pre_start when frames for it arrive
            i = nprobe
            nprobe += 1
            ops.append(("sspawn", i))
            for j in range(rng.choice([1, 2, 4])):
                sb = [rng.choice([1, 2]), j] + rnd_bytes(rng)
                if rng.random() < 0.5:
                    ops.append(("grcall", i, rng.randrange(1, 50), rng.choice([2, 4, 6, 3]), sb))
                else:
                    ops.append(("grcast", i, rng.choice([1, 2, 3, 4]), sb))
            ops.append(("release", i))
            alive.add(i)
        elif r < 0.08 or nprobe == 0:
            ops.append(("spawn", nprobe))
            alive.add(nprobe)
            nprobe += 1
        elif r < 0.16:
            i = rng.choice(sorted(alive)) if alive and rng.random() < 0.9 else rng.randrange(nprobe)
            g = rng.randrange(3)
            ops.append(("join", i, g))
            if i in alive:
                member.add((i, g))
        elif r < 0.21:
            ms = sorted(m for m in member if m[0] in alive)
            if ms:
                i, g = rng.choice(ms)
                member.discard((i, g))
                ops.append(("leave", i, g))
        elif r < 0.25:
            if alive:
                i = rng.choice(sorted(alive))
                alive.discard(i)
                member = {m for m in member if m[0] != i}
                if rng.random() < 0.5:
                    ops.append(("exit", i))
                else:
                    # the actor is gone from the registry, the session has not yet handled its
                    # lifecycle event, and messages from the peer that were in flight arrive first
                    ops.append(("hexit", i))
                    for _ in range(rng.choice([1, 1, 2, 3])):
                        j = i if rng.random() < 0.8 else rng.choice(list(range(nprobe)) + [99])
                        if rng.random() < 0.5:
                            ops.append(("rcast", j, rng.choice([1, 2, 3, 4]), [1] + rnd_bytes(rng)))
                        else:
                            ops.append(("rcall", j, rng.randrange(1, 50), rng.choice([1, 2, 3, 4, 6]), [2] + rnd_bytes(rng)))
        elif r < 0.33:
            i = rng.choice(list(range(nprobe)) + [99])
            ops.append(("rcast", i, rng.choice([1, 2, 3, 4]), [rng.choice([1, 2])] + rnd_bytes(rng)))
        elif r < 0.43:
            i = rng.choice(list(range(nprobe)) + [99])
            ops.append(("rcall", i, rng.randrange(1, 50), rng.choice([1, 2, 3, 4, 6]), [rng.choice([1, 2])] + rnd_bytes(rng)))
        elif r < 0.48:
            # a burst of frames already queued at the session, handled back to back: one sender issues
            # calls (not awaited) and casts to the same actor; arrival order = sending order
            i = rng.choice(sorted(alive)) if alive else 99
            snd = rng.choice([1, 2])
            n = rng.choice([2, 2, 3, 4, 6])
            for j in range(n):
                held = "h" if j < n - 1 else ""
                sb = [snd if rng.random() < 0.85 else 3 - snd] + [j] + rnd_bytes(rng)
                if rng.random() < 0.5:
                    ops.append((held + "rcall", i, rng.randrange(1, 50), rng.choice([2, 4, 6, 3]), sb))
                else:
                    ops.append((held + "rcast", i, rng.choice([1, 2, 3, 4]), sb))
        elif r < 0.56:
            ops.append(("fspawn", rng.choice(qs)))
        elif r < 0.60:
            ops.append(("fterm", rng.choice(qs)))
        elif r < 0.68:
            ops.append(("fjoin", rng.randrange(3), rng.choice(qs)))
        elif r < 0.73:
            ops.append(("fleave", rng.randrange(3), rng.choice(qs)))
        elif r < 0.81:
            ops.append(("send", rng.choice(qs), rng.choice([1, 2]), rnd_bytes(rng)))
        elif r < 0.90:
            port += 1
            used_ports.append(port)
            ops.append(("scall", rng.choice(qs), rng.choice([3, 4]), rnd_bytes(rng), port))
        elif r < 0.97:
            ops.append(("freply", rng.choice(qs), rng.choice([1, 1, 2, 2, 3, 4, 9]), rnd_bytes(rng)))
        else:
            if used_ports:
                ops.append(("drop", rng.choice(used_ports)))
    return {"id": case_id, "ops": ops, "nprobe": nprobe}


def sess_line(c):
    def b(x):
        return ",".join(map(str, x)) if x else "-"
    parts = []
    for op in c["ops"]:
        k = op[0]
        if k in ("rcast", "hrcast", "grcast", "send"):
            parts.append(f"{k} {op[1]} {op[2]} {b(op[3])}")
        elif k in ("rcall", "hrcall", "grcall"):
            parts.append(f"{k} {op[1]} {op[2]} {op[3]} {b(op[4])}")
        elif k == "scall":
            parts.append(f"scall {op[1]} {op[2]} {b(op[3])} {op[4]}")
        elif k == "freply":
            parts.append(f"freply {op[1]} {op[2]} {b(op[3])}")
        else:
            parts.append(" ".join(map(str, op)))
    return f"sess {c['id']} 0,1,2,77 | " + " ; ".join(parts)


def sess_model(c):
    def bl(x):
        return "[" + "; ".join(map(str, x)) + "]"
    ops = []
    for op in c["ops"]:
        k = op[0]
        if k in ("spawn", "sspawn"):
            ops.append(f"USpawn {op[1]}")
        elif k == "release":
            ops.append("UAbandon 0")      # no model step: the model's actor handles messages from its spawn on
        elif k == "join":
            ops.append(f"UJoin {op[1]} {op[2]}")
        elif k == "leave":
            ops.append(f"ULeave {op[1]} {op[2]}")
        elif k in ("exit", "hexit"):
            ops.append(f"UExit {op[1]}")
        elif k in ("rcast", "hrcast", "grcast"):
            ops.append(f"URecvF (FMsg {op[1]} 0 (mkMsg false {op[2]} {bl(op[3])}) 0)")
        elif k in ("rcall", "hrcall", "grcall"):
            ops.append(f"URecvF (FMsg {op[1]} {op[2]} (mkMsg true {op[3]} {bl(op[4])}) 0)")
        elif k == "fspawn":
            ops.append(f"URecvB (FSpawn {RB + op[1]})")
        elif k == "fterm":
            ops.append(f"URecvB (FTerm {RB + op[1]})")
        elif k == "fjoin":
            ops.append(f"URecvB (FJoin {op[1]} {RB + op[2]})")
        elif k == "fleave":
            ops.append(f"URecvB (FLeave {op[1]} {RB + op[2]})")
        elif k == "freply":
            ops.append(f"URecvB (FReply {RB + op[1]} {op[2]} {bl(op[3])} 0)")
        elif k == "send":
            ops.append(f"USend {RB + op[1]} (mkMsg false {op[2]} {bl(op[3])}) 0")
        elif k == "scall":
            ops.append(f"USend {RB + op[1]} (mkMsg true {op[2]} {bl(op[3])}) {op[4]}")
        elif k == "drop":
            ops.append(f"UAbandon {op[1]}")
    xs = bl([RB, RB + 1, RB + 2, RB + 77])
    ys = bl(list(range(c["nprobe"])) + [99])
    return f"urun 4 {xs} {ys} (init 0 0) [" + "; ".join(ops) + "]"


def sess_inbound(c, want_must=False):
    """the Cast/Call frames that arrive, in arrival order: list (N * msg)"""
    def bl(x):
        return "[" + "; ".join(map(str, x)) + "]"
    items, must, live = [], [], set()
    for op in c["ops"]:
        if op[0] in ("spawn", "sspawn"):
            live.add(op[1])
        elif op[0] in ("exit", "hexit"):
            live.discard(op[1])
        it = None
        if op[0] in ("rcast", "hrcast", "grcast"):
            it = f"({op[1]}, mkMsg false {op[2]} {bl(op[3])})"
        elif op[0] in ("rcall", "hrcall", "grcall"):
            it = f"({op[1]}, mkMsg true {op[3]} {bl(op[4])})"
        if it:
            items.append(it)
            if op[1] in live:
                must.append(it)
    if want_must:
        return "[" + "; ".join(must) + "]"
    return "[" + "; ".join(items) + "]"


def canon_u(t, ops=None):
    """Sort the per-operation wire frames (HashSet iteration order on the implementation side).
    A held exit (`hexit`: the actor is gone, the session has not handled the lifecycle event yet) is
    merged with the operations up to and including the next one that lets the session handle its
    events: the model's exit is atomic, the real Terminate frame is written when the event is handled."""
    out = []
    acc = None
    for j, u in enumerate(t):
        if not (isinstance(u, tuple) and u[0] == "mkU"):
            out.append(u)
            continue
        wire, dlv, res = list(u[2]), list(u[3]), list(u[4])
        if acc is not None:
            wire, dlv, res = acc[0] + wire, acc[1] + dlv, acc[2] + res
            acc = None
        if ops is not None and j < len(ops) and ops[j][0] in ("hexit", "hrcast", "hrcall", "sspawn", "grcast", "grcall"):
            acc = (wire, dlv, res)
            continue
        out.append(("mkU", u[1], sorted(wire, key=show_term), dlv, res, u[5], u[6]))
    return out


def load_sess_corpus():
    d = os.path.join(ROOT, "corpus", "C20")
    out = []
    p = os.path.join(d, "sess.jsonl")
    if os.path.exists(p):
        for l in open(p):
            l = l.strip()
            if l and not l.startswith("#"):
                c = json.loads(l)
                c["ops"] = [tuple(o) for o in c["ops"]]
                out.append(c)
    return out


# --------------------------------------------------------------------------------------
# E4: two-node scenarios

class Scen:
    """Builds one scenario line and what the generator knows about it."""

    def __init__(self, rng, seed, chunk, jitter, tcp=False):
        self.rng = rng
        self.head = f"net seed={seed} chunk={chunk} jitter={jitter}" + (" tcp=1" if tcp else "")
        self.ops = []
        self.nprobe = 0
        self.alive = set()
        self.known = set()        # probes certainly mirrored on both sides (spawned, then settled after connect)
        self.pending_known = set()
        self.connected = False
        self.rid = 0
        self.calls = {}           # rid -> dict
        self.expect = set()
        self.quiescent = []
        self.strict = True
        self.last_settle = False
        self.groups = {}
        self.starting = set()     # probes still in pre_start: they answer only after `release`

    def op(self, s):
        self.ops.append(s)
        self.last_settle = s == "settle"

    def spawn(self):
        i = self.nprobe
        self.nprobe += 1
        self.alive.add(i)
        self.pending_known.add(i)
        self.op(f"spawn {i}")
        return i

    def settle(self):
        self.op("settle")
        if self.connected:
            self.known |= (self.pending_known & self.alive)
            self.pending_known = set()

    def connect(self):
        self.op("connect")
        self.connected = True

    def obs(self):
        self.quiescent.append(self.last_settle)
        self.ops.append("obs")
        self.last_settle = False

    def cast(self, sender, via, tgt, blob):
        self.op(f"cast {sender} {via} {tgt} {self.rng.choice([0, 1])} {blob}")

    def call(self, caller, via, tgt, mode, delay, timeout, blob):
        rid = self.rid
        self.rid += 1
        self.op(f"call {caller} {via} {tgt} {mode} {delay} {timeout} {blob}")
        self.calls[rid] = {"mode": mode, "delay": delay, "timeout": timeout, "tgt": tgt}
        if (self.connected and tgt in self.known and tgt in self.alive
                and not (tgt in self.starting and timeout != 0)
                and (mode == 0 or (mode == 1 and (timeout == 0 or delay + 3 <= timeout)))):
            self.expect.add(rid)
        return rid

    def abandon(self, rid):
        self.op(f"abandon {rid}")
        c = self.calls[rid]
        if c["mode"] != 0:
            self.expect.discard(rid)

    def line(self):
        return self.head + " | " + " ; ".join(self.ops)


def gkey(rng):
    """group key: 1000 * scope + group; scope 0 = the default scope (named scopes share group names
    with the default scope on purpose)"""
    return rng.choice([0, 1, 2, 1, 1001, 1002, 2001, 1001])


def blob_len(rng):
    return rng.choice([0, 1, 5, 16, 40, 40, 300, 3000]) if rng.random() < 0.97 else rng.choice([9000, 70000])


def traffic(s, n, fault_free=True):
    rng = s.rng
    for _ in range(n):
        r = rng.random()
        tgts = sorted(s.known & s.alive) or sorted(s.alive)
        if not tgts:
            s.spawn()
            continue
        anyt = sorted(range(s.nprobe))
        if r < 0.45:
            s.cast(rng.randrange(4), rng.choice([0, 1]), rng.choice(tgts if rng.random() < 0.9 else anyt), blob_len(rng))
        elif r < 0.80:
            mode = rng.choice([0, 0, 0, 1, 1, 2, 3])
            delay = rng.choice([1, 5, 30]) if mode == 1 else 0
            timeout = rng.choice([0, 0, 5, 100])
            # callers share the senders' identities half of the time: a sender's calls and casts to one
            # remote reference form ONE stream whose order must be preserved
            who = rng.randrange(4) if rng.random() < 0.5 else 10 + rng.randrange(4)
            s.call(who, rng.choice([0, 1]), rng.choice(tgts if rng.random() < 0.9 else anyt),
                   mode, delay, timeout, rng.choice([0, 8, 16, 200]))
        elif r < 0.86:
            live = [rid for rid, c in s.calls.items() if c["mode"] in (1, 2, 3)]
            if live:
                s.abandon(rng.choice(live))
        elif r < 0.90:
            s.op(f"advance {rng.choice([1, 6, 10, 40])}")
        elif r < 0.93:
            s.settle()
        elif r < 0.96:
            s.spawn()
        elif r < 0.98:
            if s.alive:
                i = rng.choice(sorted(s.alive))
                g = gkey(rng)
                s.op(f"join {i} {g}")
        else:
            if s.alive:
                i = rng.choice(sorted(s.alive))
                s.op(f"leave {i} {gkey(rng)}")


def traffic_tcp(s, n):
    """fault-free traffic whose completion can be awaited logically (real TCP, real time)"""
    rng = s.rng
    for _ in range(n):
        r = rng.random()
        tgts = sorted(s.known & s.alive)
        if r < 0.45:
            s.cast(rng.randrange(4), rng.choice([0, 1]), rng.choice(tgts), blob_len(rng))
        elif r < 0.8:
            mode = rng.choice([0, 0, 1, 2])
            s.call(rng.randrange(4), rng.choice([0, 1]), rng.choice(tgts), mode, rng.choice([1, 3]) if mode == 1 else 0, 0,
                   rng.choice([0, 8, 200]))
        elif r < 0.86:
            s.spawn()
            s.settle()
        elif r < 0.94:
            s.op(f"join {rng.choice(sorted(s.alive))} {gkey(rng)}")
        elif r < 0.97:
            s.op(f"leave {rng.choice(sorted(s.alive))} {gkey(rng)}")
        else:
            s.settle()


def gen_net_case(rng, kind):
    seed = rng.randrange(1, 2 ** 32)
    chunk = rng.choice([0, 0, 1, 3, 7, 64, 1000])
    jitter = rng.choice([0, 1, 1])
    if kind == "tcp":
        # the nodes are connected through node B's real TCP listener and client_connect
        s = Scen(rng, seed, 0, 0, tcp=True)
        for _ in range(rng.choice([1, 2, 3])):
            i = s.spawn()
            for _ in range(rng.choice([0, 1, 2])):
                s.op(f"join {i} {gkey(rng)}")
        s.connect()
        s.settle()
        s.obs()
        traffic_tcp(s, rng.choice([5, 20, 50]))
        s.settle()
        s.obs()
        return s
    s = Scen(rng, seed, chunk, jitter)
    for _ in range(rng.choice([1, 2, 3])):
        i = s.spawn()
        # memberships that exist BEFORE the session authenticates (initial synchronisation), in the
        # default scope and in named scopes
        for _ in range(rng.choice([0, 1, 1, 2, 3])):
            s.op(f"join {i} {gkey(rng)}")
    s.connect()
    s.settle()
    s.obs()
    if kind == "longlived":
        # long enough (virtual time) for the sessions' ping / pong frames to interleave with the traffic
        tg = sorted(s.known & s.alive)
        for _ in range(rng.choice([2, 3])):
            traffic(s, rng.choice([5, 15]))
            # calls WITHOUT a timeout whose real actor answers only after 11-30 virtual seconds: the
            # session is up, the actor does answer, so the reply must come back to the caller
            for _ in range(rng.choice([1, 2])):
                s.call(rng.randrange(4), rng.choice([0, 1]), rng.choice(tg), 1, rng.choice([11000, 15000, 29000]), 0, 8)
            s.settle()
            s.op(f"advance {rng.choice([2500, 6000])}")
        s.op("advance 31000")
        s.settle()
        s.op("advance 300")
        s.settle()
        s.obs()
    elif kind == "slowstart":
        # an advertised actor that is still in pre_start (Starting) when the first messages for it arrive
        for _ in range(rng.choice([1, 2])):
            i = s.nprobe
            s.nprobe += 1
            s.alive.add(i)
            s.pending_known.add(i)
            s.op(f"spawnslow {i}")
            s.starting.add(i)
            if rng.random() < 0.5:
                s.op(f"join {i} {gkey(rng)}")
            s.settle()
            via = rng.choice([0, 1])
            for _ in range(rng.choice([1, 3, 6])):
                if rng.random() < 0.6:
                    s.cast(rng.randrange(3), via, i, rng.choice([0, 5, 40]))
                else:
                    s.call(rng.randrange(3), rng.choice([0, 1]), i, 0, 0, 0, 8)
            s.settle()
            if rng.random() < 0.5:
                s.obs()
            traffic(s, rng.choice([0, 5]))
            s.op(f"release {i}")
            s.starting.discard(i)
            s.settle()
            traffic(s, rng.choice([2, 8]))
        s.settle()
        s.op("advance 300")
        s.settle()
        s.obs()
    elif kind == "callcast":
        # one sender issues calls WITHOUT awaiting them and then casts / further calls to the same remote
        # reference; all frames are queued at the peer session before it gets to run
        for _ in range(rng.choice([2, 4, 8])):
            tgt = rng.choice(sorted(s.known))
            via = rng.choice([0, 1])
            who = rng.randrange(3)
            for _ in range(rng.choice([2, 3, 5])):
                if rng.random() < 0.5:
                    mode = rng.choice([0, 0, 1, 2])
                    s.call(who, via, tgt, mode, 5 if mode == 1 else 0, 0, rng.choice([0, 8, 40]))
                else:
                    s.cast(who, via, tgt, rng.choice([0, 5, 40]))
            if rng.random() < 0.4:
                s.settle()
        s.settle()
        s.op("advance 300")
        s.settle()
        s.obs()
    elif kind == "burst":
        # many outstanding calls through ONE proxy, most of them never answered and abandoned by
        # timeout, so that the proxy reclaims beyond its per-message budget of 16; then live traffic
        tgt = sorted(s.known)[0]
        via = rng.choice([0, 1])
        for _ in range(rng.choice([20, 40, 70])):
            mode = rng.choice([2, 2, 3, 0, 1])
            s.call(10 + rng.randrange(6), via, tgt, mode, 3 if mode == 1 else 0,
                   0 if mode in (0, 1) and rng.random() < 0.5 else rng.choice([5, 5, 50]), rng.choice([0, 8]))
        s.op("advance 10")
        for _ in range(rng.choice([5, 20, 40])):
            if rng.random() < 0.5:
                s.cast(rng.randrange(3), via, tgt, rng.choice([0, 5]))
            else:
                s.call(10 + rng.randrange(6), via, tgt, 0, 0, 0, 8)
        s.settle()
        s.op("advance 300")
        s.settle()
        s.obs()
    elif kind == "bigburst":
        # a writer backlog far beyond any plausible batch / buffer limit: many large frames from ONE
        # sender are queued at the session's write task before it gets to run (no settle in between),
        # so batching, chunking or buffer caps in the writer must neither lose nor reorder a frame
        tgt = sorted(s.known)[0]
        via = rng.choice([0, 1])
        who = rng.randrange(3)
        size = rng.choice([3000, 5000, 9000])
        for _ in range(rng.choice([30, 60])):
            if rng.random() < 0.85:
                s.cast(who, via, tgt, size)
            else:
                s.call(who, via, tgt, 0, 0, 0, rng.choice([8, 3000]))
        traffic(s, 5)
        s.settle()
        s.op("advance 300")
        s.settle()
        s.obs()
    elif kind == "strict":
        traffic(s, rng.choice([5, 15, 40, 80]))
        s.settle()
        s.op("advance 300")
        s.settle()
        s.obs()
    elif kind == "exit":
        s.strict = False
        traffic(s, rng.choice([5, 15, 30]))
        for _ in range(rng.choice([1, 2])):
            if s.alive:
                i = rng.choice(sorted(s.alive))
                s.alive.discard(i)
                s.op(f"{rng.choice(['exit', 'exit', 'kill'])} {i}")
                for rid, c in s.calls.items():
                    if c["tgt"] == i:
                        s.expect.discard(rid)
            traffic(s, rng.choice([3, 10]))
        s.settle()
        s.op("advance 300")
        s.settle()
        s.obs()
        s.expect = set()
    else:  # cut
        s.strict = False
        traffic(s, rng.choice([3, 10, 25]))
        how = rng.random()
        d = rng.choice([0, 1])
        if how < 0.4:
            s.op(f"cut {d} bytes {rng.choice([0, 1, 7, 8, 9, 13, 50, 100, 300, 1000, rng.randrange(2000)])}")
        elif how < 0.8:
            s.op(f"cut {d} frames {rng.choice([0, 1, 2, 3, 5, 10])}")
        else:
            s.op("cut now")
        traffic(s, rng.choice([3, 10, 25]))
        s.settle()
        s.op("advance 300")
        s.settle()
        s.obs()
        s.op("stale")
        s.expect = set()
    return s


def gen_cut_sweep(rng, quick):
    """One fixed small scenario, cut at every frame boundary and at every byte offset of a
    window, in both directions."""
    out = []
    base = ("spawn 0 ; spawn 1 ; join 0 1 ; connect ; settle ; obs ; "
            "cast 1 0 0 0 5 ; call 11 0 1 0 0 0 8 ; cast 2 1 1 1 9 ; call 12 1 0 1 5 0 8 ; CUT ; "
            "cast 1 0 0 1 7 ; cast 2 1 1 0 3 ; call 11 0 1 0 0 0 4 ; call 12 1 0 0 0 0 4 ; spawn 2 ; join 1 2 ; "
            "cast 1 0 1 0 30 ; cast 2 1 0 0 30 ; settle ; advance 50 ; settle ; obs ; stale")
    for d in (0, 1):
        for k in range(0, 9):
            out.append((f"net seed=5 chunk=0 jitter=0 | " + base.replace("CUT", f"cut {d} frames {k}"), 2, 2))
        step = 1 if not quick else 3
        for n in range(0, 420, step):
            out.append((f"net seed=5 chunk={rng.choice([0, 5])} jitter={rng.choice([0, 1])} | "
                        + base.replace("CUT", f"cut {d} bytes {n}"), 2, 2))
    return out


def load_corpus():
    """corpus/C20/net*.jsonl: fixed regression scenarios {kind, line, strict, expect, quiescent}"""
    d = os.path.join(ROOT, "corpus", "C20")
    out = []
    if os.path.isdir(d):
        for f in sorted(os.listdir(d)):
            if f.startswith("net") and f.endswith(".jsonl"):
                for l in open(os.path.join(d, f)):
                    l = l.strip()
                    if l and not l.startswith("#"):
                        c = json.loads(l)
                        c["kind"] = "corpus"
                        out.append(c)
    return out


def expect_up_of(line):
    """per `obs`: the nodes were connected and the scenario has not cut the link so far"""
    out, connected, cut = [], False, False
    for op in line.split("|", 1)[1].split(";"):
        w = op.split()
        if not w:
            continue
        if w[0] == "connect":
            connected = True
        elif w[0] == "cut":
            cut = True
        elif w[0] == "obs":
            out.append(connected and not cut)
    return out


def parse_obs(t):
    """('mkObs', sent, recv, calls, snaps, stale)"""
    assert isinstance(t, tuple) and t[0] == "mkObs", t
    return {"sent": t[1], "recv": t[2], "calls": t[3], "snaps": t[4], "stale": t[5]}


def last_up(o):
    snaps = o["snaps"]
    return snaps[-1][1] == "true" if snaps else True


# --------------------------------------------------------------------------------------

def split_stuck(chk, what, cases, outs, line_of_case):
    """a harness line `stuck "<why>"` = the real code wedged or panicked on this case (reported as a
    failing input); `skipped` = not evaluated after that"""
    kc, ko = [], []
    for c, out in zip(cases, outs):
        if out.startswith("skipped"):
            chk.count(what + ".skipped_after_stuck")
        elif out.startswith("stuck"):
            chk.coverage["evaluations"] += 1
            chk.violation(f"{what}: the real code got stuck / panicked: " + out[:200],
                          f"C20 {what} engine: the real handlers could not finish the history\n"
                          + json.dumps({"kind": what, "harness_line": line_of_case(c), "observation": out}, indent=1))
        else:
            kc.append(c)
            ko.append(out)
    return kc, ko


def run(chk):
    quick = chk.tier == "quick"
    ok_proofs = chk.proofs()
    factor = 1 if ok_proofs else 5
    build = cargo_build(["eng_remote", "eng_remote_net"])
    if not build["ok"]:
        ok, log = repo_builds_without_hooks()
        if not ok:
            return infrastructure_failure(chk.prop, "/repo does not compile even without hooks:\n" + log[-1500:])
        chk.violation("harness no longer builds against /repo with hooks on",
                      "correspondence E3/E4: eng_remote / eng_remote_net cannot be built against the current tree\n"
                      + build["log"][-3000:], failing_input=False)
        return chk.finish(trusted_base=TRUSTED)
    rng = chk.rng
    distinct = set()

    # ---------------- E3: the proxy handler ----------------
    n_px = (250 if quick else 4000) * factor
    pcases = [gen_proxy_case(rng, big=(i % 10 == 0)) for i in range(n_px)]
    impl = run_harness(build, "eng_remote", [proxy_line(c) for c in pcases], shards=4)
    pcases, impl = split_stuck(chk, "proxy", pcases, impl, proxy_line)
    n_px = len(pcases)
    exprs = []
    for c in pcases:
        exprs.append(f"prun_view pst0 {proxy_events(c)}")
    impl_t = [parse_term(x) for x in impl]
    for c, it in zip(pcases, impl_t):
        outs = "[" + "; ".join(show_term(step[1]) if isinstance(step, tuple) else "[]" for step in it) + "]"
        exprs.append(f"check_C20_proxy {proxy_events(c)} {outs}")
    model = coq_eval(TAG + "p", IMPORTS, exprs)
    for i, c in enumerate(pcases):
        mv = parse_term(model[i])
        iv = impl_t[i]
        oracle = model[n_px + i]
        chk.coverage["evaluations"] += 1
        for op in c["ops"]:
            chk.count("proxy.op." + op[0])
        npend = max([len(st[2][2]) if isinstance(st[2][2], list) else 0 for st in iv] + [0]) if iv else 0
        chk.count("proxy.maxpending>=16" if npend >= 16 else "proxy.maxpending<16")
        if len(c["ops"]) >= 3:
            distinct.add(proxy_line(c))
        desc = json.dumps({"kind": "proxy", "harness_line": proxy_line(c), "impl": show_term(iv),
                           "model": show_term(mv)}, indent=1)
        if oracle != "true":
            chk.violation("proxy: tags not fresh or a reply resolved a port it was not inserted under",
                          "C20 oracle check_C20_proxy rejects the real handler's outputs\n" + desc)
        elif mv != iv:
            chk.coverage["disagreements_checked"] += 1
            first = next((j for j, (a, b) in enumerate(zip(mv, iv)) if a != b), None)
            chk.violation("model/implementation disagree (RemoteActor::handle_serialized)",
                          f"correspondence E3:proxy differs at step #{first} (oracle accepts)\n" + desc,
                          failing_input=False)
        if i == 1:
            chk.coverage["samples"].append(json.loads(desc))

    # ---------------- E3b: the session-side handlers ----------------
    n_ss = (150 if quick else 2500) * factor
    scases = [gen_sess_case(rng, i + 1) for i in range(n_ss)]
    for k, c in enumerate(load_sess_corpus()):
        c["id"] = 100000 + k
        scases.insert(0, c)
    n_ss = len(scases)
    try:
        impl = run_harness(build, "eng_remote", [sess_line(c) for c in scases], shards=4)
    except RuntimeError as e:
        return infrastructure_failure(chk.prop, "session engine did not complete: " + str(e)[-1500:])
    scases, impl = split_stuck(chk, "sess", scases, impl, sess_line)
    n_ss = len(scases)
    sexprs = [sess_model(c) for c in scases]
    for c, out in zip(scases, impl):
        exited = sorted({op[1] for op in c["ops"] if op[0] in ("exit", "hexit")})
        terms = "[" + "; ".join(f"Some {RB + op[1]}" if op[0] == "fterm" else "None" for op in c["ops"]) + "]"
        sexprs.append(f"check_C20_sess_term {terms} {out} && check_C20_sess [{'; '.join(map(str, exited))}] {out} "
                      f"&& check_C20_sess_order {sess_inbound(c)} {out} "
                      f"&& check_C20_sess_complete {sess_inbound(c, True)} {out}")
    model = coq_eval(TAG + "s", IMPORTS, sexprs)
    for i, c in enumerate(scases):
        mv = canon_u(parse_term(model[i]), c["ops"])
        iv = canon_u(parse_term(impl[i]), c["ops"])
        if model[n_ss + i] != "true":
            desc = json.dumps({"kind": "sess", "harness_line": sess_line(c),
                               "clause": "every announced local actor that exited is reported with a Terminate frame; what a local actor "
                                         "handled is, per sender, a subsequence of the frames that arrived for it, in arrival order (calls included); every frame that "
                                         "arrives for an actor that is alive (in pre_start or running) is handled, once, in order; a Terminate frame about one pid "
                                         "stops that pid's remote reference only",
                               "impl": impl[i]}, indent=1)
            chk.violation("session: an announced actor's exit was never reported (no Terminate frame), or frames from one sender "
                          "were handed to the actor out of arrival order",
                          "C20 oracle check_C20_sess rejects what the real NodeSession handlers wrote\n" + desc)
            continue
        chk.coverage["evaluations"] += 1
        for op in c["ops"]:
            chk.count("sess.op." + op[0])
        distinct.add(sess_line(c).split("|", 1)[1])
        if mv != iv:
            chk.coverage["disagreements_checked"] += 1
            first = next((j for j, (a, b) in enumerate(zip(mv, iv)) if a != b), None)
            desc = json.dumps({"kind": "sess", "harness_line": sess_line(c), "first_difference_at_op": first,
                               "op": list(c["ops"][first]) if first is not None and first < len(c["ops"]) else None,
                               "impl": show_term(iv[first]) if first is not None else show_term(iv),
                               "model": show_term(mv[first]) if first is not None else show_term(mv)}, indent=1)
            chk.violation("model/implementation disagree (NodeSession node/control/lifecycle handlers)",
                          f"correspondence E3b:session differs at op #{first}\n" + desc, failing_input=False)
        if i == 2:
            chk.coverage["samples"].append({"harness_line": sess_line(c), "impl": impl[i][:1200]})

    # ---------------- E4: two real nodes ----------------
    ncases = []
    n_net = (200 if quick else 3000) * factor
    for i in range(n_net):
        kind = ["strict", "strict", "exit", "cut", "cut", "burst", "callcast", "slowstart"][i % 8]
        s = gen_net_case(rng, kind)
        ncases.append({"kind": kind, "line": s.line(), "strict": s.strict, "expect": sorted(s.expect),
                       "quiescent": s.quiescent})
    for i in range((6 if quick else 60) * factor):
        for kind in ("tcp", "longlived"):
            s = gen_net_case(rng, kind)
            ncases.append({"kind": kind, "line": s.line(), "strict": s.strict, "expect": sorted(s.expect),
                           "quiescent": s.quiescent})
    # writer-backlog family; its own generator state, so the streams above and below are unchanged
    import random as _random
    for i in range((4 if quick else 40) * factor):
        s = gen_net_case(_random.Random(f"bigburst-{chk.seed if hasattr(chk, 'seed') else 0}-{i}"), "bigburst")
        ncases.append({"kind": "bigburst", "line": s.line(), "strict": s.strict, "expect": sorted(s.expect),
                       "quiescent": s.quiescent})
    for c in load_corpus():
        ncases.insert(0, c)
    for line, nq1, nq2 in gen_cut_sweep(rng, quick):
        ncases.append({"kind": "sweep", "line": line, "strict": False, "expect": [], "quiescent": [True, True]})
    try:
        impl = run_harness(build, "eng_remote_net", [c["line"] for c in ncases], shards=4, timeout=2400)
    except RuntimeError as e:
        return infrastructure_failure(chk.prop, "two-node engine did not complete: " + str(e)[-1500:])
    exprs = []
    obs = []
    nstuck = 0
    kept = []
    for c, out in zip(ncases, impl):
        if out.startswith("skipped"):
            chk.count("net.skipped_after_stuck")
            continue
        if out.startswith("stuck"):
            # the code under test wedged the run (a node or actor that does not stop, a panic, ...):
            # an observation about the implementation with the scenario as failing input
            nstuck += 1
            chk.coverage["evaluations"] += 1
            chk.violation("two real nodes: the run got stuck / crashed: " + out[:200],
                          "C20 two-node engine: the real nodes could not finish the scenario\n"
                          + json.dumps({"kind": "net", "scenario_kind": c["kind"], "harness_line": c["line"], "observation": out}, indent=1))
            continue
        kept.append((c, out))
    ncases = [c for c, _ in kept]
    impl = [o for _, o in kept]
    for c, out in zip(ncases, impl):
        t = parse_term(out)
        o = parse_obs(t)
        obs.append(o)
        closed = not last_up(o)
        b = lambda x: "true" if x else "false"
        q = "[" + "; ".join(b(x) for x in c["quiescent"]) + "]"
        ex = "[" + "; ".join(map(str, c["expect"])) + "]"
        eu = "[" + "; ".join(b(x) for x in expect_up_of(c["line"])) + "]"
        c["expect_up"] = eu
        exprs.append(f"check_C20 {b(c['strict'])} {b(closed)} {ex} {q} {eu} ({out})")
    verdicts = coq_eval(TAG + "n", IMPORTS, exprs)
    n_closed = 0
    for c, o, v, out in zip(ncases, obs, verdicts, impl):
        chk.coverage["evaluations"] += 1
        chk.count("net." + c["kind"])
        chk.count("net.sends", len(o["sent"]))
        chk.count("net.received", len(o["recv"]))
        chk.count("net.calls", len(o["calls"]))
        for call in o["calls"]:
            chk.count(f"net.call.out={call[5]}")
        if not last_up(o):
            n_closed += 1
        distinct.add(c["line"].split("|", 1)[1])
        if v != "true":
            # which clause
            parts = coq_eval(TAG + "n1", IMPORTS, [
                f"(let o := ({out}) in (check_fifo {'true' if c['strict'] else 'false'} o, "
                f"check_calls {'true' if c['strict'] else 'false'} (fun rid => memN rid [{'; '.join(map(str, c['expect']))}]) o, "
                f"map check_snap (o_snaps o), check_up {c['expect_up']} o, check_stale {'false' if last_up(o) else 'true'} o))"], shards=1)
            desc = json.dumps({"kind": "net", "scenario_kind": c["kind"], "harness_line": c["line"],
                               "strict": c["strict"], "expect_reply": c["expect"], "quiescent": c["quiescent"],
                               "clauses(fifo,calls,snaps,up,stale)": parts[0], "impl": out}, indent=1)
            chk.violation("two real nodes: order / reply correlation / mirror / session-up / close clause violated",
                          "C20 oracle check_C20 rejects what the two real nodes did\n" + desc)
        if len(chk.coverage["samples"]) < 3 and c["kind"] in ("strict", "cut") and len(o["recv"]) > 4:
            chk.coverage["samples"].append({"harness_line": c["line"], "impl": out[:1500], "oracle": v})
    chk.count("net.closed_at_end", n_closed)
    chk.coverage["traces_validated_against_impl"] = n_px + n_ss + len(ncases)
    chk.coverage["distinct_nontrivial"] = len(distinct)
    chk.coverage["rule"] = ("E3: seeded histories of casts/calls/replies/abandoned callers/session failure through the real "
                            "proxy handler (three styles: balanced, pile-up beyond the cleanup budget of 16, churn), compared "
                            "step by step with the model; E3b: seeded histories of frames (Cast/Call/Reply/Spawn/Terminate/PgJoin/PgLeave), local actor "
                            "lifecycle events and sends through proxies against the real NodeSession handlers on a real state, compared operation "
                            "by operation with the transition system's component functions; E4: seeded two-node scenarios (fault-free with full-delivery check, "
                            "actors exiting, connection cut at byte offsets / frame boundaries / immediately) plus a sweep of one "
                            "fixed scenario over every frame boundary 0..8 and a window of byte offsets in both directions. "
                            "non-trivial = at least 3 proxy ops / any two-node scenario; distinct = distinct scenario texts")
    chk.coverage["exhaustive_part"] = "cut sweep: frames 0..8 and byte offsets 0..419 (step 3 in the quick tier) in both directions"
    return chk.finish(trusted_base=TRUSTED)


TRUSTED = [
    "Coq 8.16.1 kernel (coqc); vm_compute for evaluating the model and the oracle on cases",
    "no axioms: every property theorem prints 'Closed under the global context'",
    "hand-written model coq/Cluster/Remote.v: the proxy part is tied to ractor_cluster/src/remote_actor.rs by step-by-step "
    "differential runs (E3); the two-node transition system is tied to the code only through the oracle evaluated on real two-node runs (E4)",
    "hook ractor_cluster/src/remote_actor/verif.rs (cfg slawlor_ractor_verif) calls the real handler on a real state; recording session stub",
    "E4 harness eng_remote_net: two real NodeServers in ONE process (shared pid registry and pg; node ids made distinct by a dummy session), "
    "tokio current_thread runtime with paused clock, in-memory duplex wrapped in a fragmenting/cutting transport; payload identity by length + fnv1a-64",
    "generator-side knowledge used by the oracle: which scenarios are fault free (strict), which calls must be answered, which snapshots are quiescent",
    "lib/common.py term parser; tokio runtime, oneshot channels, prost encoding are trusted runtime pieces",
]
