"""C14 — Factory routing keeps its promises about where a job runs (DESIGN.md section 4/C14)."""
import json

from factory_model import *
import c13

TRUSTED = c13.TRUSTED + [
    "hash::hash_with_max (DefaultHasher) is opaque in the model: its values for the keys and pool sizes of a scenario are "
    "tabulated by calling the real function; theorems use only h k n < n",
]


def gen_affinity_scenario(rng):
    """histories aimed at affinity: few keys, one or two workers to start with, completions and
    kills while the factory is held (stale completions), then growth and more same-key jobs"""
    router = rng.choice(["kp", "kp", "sq"])
    n = rng.choice([1, 1, 2])
    keys = rng.sample(range(0, 12), rng.choice([1, 2]))
    ops, jid = [], 0
    def d(k=None):
        nonlocal jid
        jid += 1
        ops.append(["d", jid, k if k is not None else rng.choice(keys), "-", 1 if rng.random() < 0.5 else 0])
    for _ in range(rng.choice([2, 3, 4])):
        d(keys[0])
    if rng.random() < 0.8:
        ops.append(["hold"])
        for _ in range(rng.choice([1, 2, 3])):
            ops.append([rng.choice(["g", "g", "k", "f", "d"]), rng.randrange(0, n)] if rng.random() < 0.8 else ["q"])
            if ops[-1][0] == "d":
                ops.pop()
                d()
        ops.append(["rel", rng.choice([0, 0, 2, 4])])
    for _ in range(rng.choice([2, 4, 8])):
        r = rng.random()
        if r < 0.3:
            d()
        elif r < 0.6:
            ops.append(["g", rng.randrange(0, 4)])
        elif r < 0.7:
            ops.append(["r", rng.choice([1, 2, 3, 4])])
        elif r < 0.8:
            ops.append(["k", rng.randrange(0, 3)])
        else:
            ops.append(["q"])
    ops.append(["q"])
    return {"router": router, "queue": rng.choice(["d", "p"]), "n": n, "disc": "none", "hash": {}, "rl": "", "ops": ops}


def gen_spread_scenario(rng):
    """round robin (and the other routers for contrast): the scenario opens with n dispatches on the idle pool"""
    s = gen_scenario(rng, router=rng.choice(["rr", "rr", "rr", "q", "cu"]), style=rng.choice(["plain", "resize", "faulty"]))
    n = rng.choice([1, 2, 3, 4, 5])
    s["n"], s["rl"] = n, ""
    if rng.random() < 0.8:
        s["disc"] = "none"
    base = 1000
    head = [["d", base + i, rng.randrange(0, 40), "-", rng.choice([0, 1])] for i in range(n)]
    s["ops"] = head + s["ops"][:70]
    return s


def classify(chk, s, r, an, findings):
    kind = an[0] if isinstance(an, tuple) else an
    if kind == "AIdleBacklog" and s["router"] != "q":
        # sticky: a queued job whose key is being processed waits for that worker whoever else is idle; worker-queueing
        # routers (rr, kp, cu) use the factory queue only while the pool is empty. The clause is applied where the model's
        # own run of the scenario has no idle backlog at the same op
        if oracle_only(s):
            return "ok", "not judged: the clause is validated on the model's run, which does not carry this scenario"
        if any(isinstance(m, tuple) and m[0] == "AIdleBacklog" and m[1] == an[1] for m in r["m14"]):
            return "ok", "the model's own run has the same settled point (the queued job's key is being processed)"
        return "violation", (f"settled point at op #{an[1]}: the factory queue is non-empty while a worker is idle, and no queued "
                             "job is held back legitimately (the model's run of the same scenario starts it)")
    if "F3" in findings:
        sig = None
        if kind == "AAffinity":
            k, w1, w2 = an[1], an[2], an[3]
            sig = f3_signature(s, r, w1, k) or f3_signature(s, r, w2, k)
        elif kind == "AActiveUnder":
            # some worker really running a job while the factory counts it idle: must be a worker with a stale completion
            for pair in r["stale"]:
                sig = sig or f3_signature(s, r, pair[1])
        elif kind == "ATwoAtOnce":
            sig = f3_signature(s, r, an[1])
        elif kind == "AOrder":
            # once a stale completion has split one key over two workers, start order across them is arbitrary
            k = an[1]
            for j in (an[2], an[3]):
                w = next((e[2] for evs in r["impl"] for e in evs
                          if isinstance(e, tuple) and e[0] == "EStart" and e[1] == j), None)
                if w is not None:
                    sig = sig or f3_signature(s, r, w, k)
            if not sig:
                for pair in r["stale"]:
                    if job_key(s, pair[2]) == k:
                        sig = sig or f3_signature(s, r, pair[1], k)
        if sig:
            return "known", ("F3", "a Finished(w,k) processed after the death of the sending incarnation while the replacement runs "
                                   "key k is taken for the replacement's job: the factory believes worker w idle while it runs a job "
                                   "(active-worker count too low) and a further job of key k can start on another worker concurrently; "
                                   "e.g. corpus/C14/f3_stale_completion_breaks_affinity.scn")
    if kind == "AAffinity" and "F11" in findings and s["router"] == "sq":
        k, w1, w2, opi = an[1], an[2], an[3], an[4]
        for i, op in enumerate(s["ops"][:opi + 1]):
            if op[0] == "xs" and int(op[1]) in (w1, w2):
                end = next((x for x in range(i, len(s["ops"])) if s["ops"][x][0] == "xr" and s["ops"][x][1] == op[1]), len(s["ops"]))
                inside = [o for o in s["ops"][i:end] if o[0] == "d" and int(o[2]) == k]
                if len(inside) >= 2:
                    return "known", ("F11", "sticky-queuer routing only looks at curr_jobs: a job parked in the queue of a worker that is in "
                                            "its exit window (stopped, post_stop running, not yet replaced) is invisible, a second job of "
                                            "the key goes to another worker and after the replacement both run at once; "
                                            "e.g. corpus/C14/f11_sticky_exit_window.scn")
    if kind == "AOrder" and "F8" in findings and s["router"] == "kp" and s["n"] == 0:
        # the overtaken job (an[2]: dispatched earlier, started later) was dispatched while the pool was empty
        first_grow = next((i for i, op in enumerate(s["ops"]) if op[0] in ("r", "sw", "rel") and int(op[1]) > 0), len(s["ops"]))
        d_op = next((i for i, op in enumerate(s["ops"]) if op[0] == "d" and int(op[1]) == an[2]), None)
        if d_op is not None and d_op < first_grow:
            return "known", ("F8", "key-persistent routing started with an empty pool: jobs backlogged in the factory queue are pulled "
                                   "one per completion after the pool grows, and later jobs of the same key, routed straight to the "
                                   "worker's queue, overtake them; e.g. corpus/C14/f8_empty_pool_backlog_overtaken.scn")
    return "violation", show_term(an)


def run(chk):
    quick = chk.tier == "quick"
    ok_proofs = chk.proofs()
    factor = 1 if ok_proofs else 5
    # RV_FACTORY_BIN_DIR: use an eng_factory binary built elsewhere (mutation experiments against a scratch worktree)
    alt = os.environ.get("RV_FACTORY_BIN_DIR")
    build = {"ok": True, "dir": alt} if alt else cargo_build(["eng_factory"])
    if not build["ok"]:
        ok, log = repo_builds_without_hooks()
        if not ok:
            return infrastructure_failure(chk.prop, "/repo does not compile:\n" + log[-1500:])
        chk.violation("harness no longer builds against /repo",
                      "correspondence E1:eng_factory cannot be built against the current tree\n" + build["log"][-3000:],
                      failing_input=False)
        return chk.finish(trusted_base=TRUSTED)

    findings = {f["id"] for f in chk.finding_entries()} - set(os.environ.get("RV_IGNORE_FINDINGS", "").split(","))
    if getattr(chk, "replay", None):
        scns = scenarios_from_replay(chk.replay)
    else:
        scns = load_corpus("C14") + load_corpus("C13")
        n = (350 if quick else 6000) * factor
        scns += [gen_scenario(chk.rng) for _ in range(n)]
        scns += [gen_affinity_scenario(chk.rng) for _ in range(n)]
        # round robin / custom focus
        scns += [gen_scenario(chk.rng, router=chk.rng.choice(["rr", "cu", "q", "sq"])) for _ in range(n // 2)]
        scns += [gen_spread_scenario(chk.rng) for _ in range(n // 2)]
        scns += [gen_window_scenario(chk.rng) for _ in range(n // 2)]
        scns += [gen_settings_scenario(chk.rng) for _ in range(n // 4)]
        scns += [gen_long_scenario(chk.rng) for _ in range(n // 5)]
        scns += [gen_stuck_scenario(chk.rng) for _ in range(n // 8)]
        scns += [gen_empty_pool_scenario(chk.rng) for _ in range(n // 8)]
        scns += [gen_shrink_window_scenario(chk.rng) for _ in range(n // 6)]
        scns += [gen_backlog_scenario(chk.rng) for _ in range(n // 6)]
        scns += [gen_cursor_scenario(chk.rng) for _ in range(n // 8)]
        scns += [gen_shed_update_scenario(chk.rng) for _ in range(n // 8)]
    res, htbl = evaluate("C14", build, scns)

    distinct = set()
    for s, r in zip(scns, res):
        chk.coverage["evaluations"] += 1
        scn_stats(chk, s, r)
        if nontrivial(s, r):
            distinct.add(scn_line(s))
        desc = ("scenario: " + scn_line(s) + "\n"
                + "implementation events per op: " + show_term(r["impl"]) + "\n"
                + "model events per op:          " + show_term(r["model"]) + "\n"
                + "stale completions (worker, job): " + show_term(r["stale"]) + "\n")
        real = False
        for an in r["a14"]:
            verdict, info = classify(chk, s, r, an, findings)
            chk.count("anomaly." + (an[0] if isinstance(an, tuple) else an) + "." + verdict)
            if verdict == "known":
                chk.known_finding(info[0], info[1])
            elif verdict == "violation":
                real = True
                chk.violation("C14 violated: " + info,
                              "C14 oracle check_C14 rejects the implementation's history: " + info + "\n" + desc)
        d = None if oracle_only(s) else first_diff(s, r["impl"], r["model"])
        if d is not None and not real:
            chk.coverage["disagreements_checked"] += 1
            k, a, b = d
            chk.violation("model/implementation disagree (factory events)",
                          f"correspondence E1:eng_factory differs at op #{k} {s['ops'][k] if k < len(s['ops']) else ''}: "
                          f"impl {show_term(a) if a is not None else '-'} model {show_term(b) if b is not None else '-'}\n" + desc,
                          failing_input=False)
        if len(chk.coverage["samples"]) < 3 and r["stale"] and r["a14"]:
            chk.coverage["samples"].append({"scenario": scn_line(s), "impl": show_term(r["impl"])[:1500],
                                            "check_C14": show_term(r["a14"]), "stale": show_term(r["stale"])})
    chk.coverage["traces_validated_against_impl"] = len(scns)
    chk.coverage["distinct_nontrivial"] = len(distinct)
    chk.coverage["rule"] = ("seeded structured histories over 5 routers x 2 queues + affinity-focused histories (completions and "
                            "kills while the factory is held, then growth) + corpus; per op the sorted event view of the real Factory "
                            "is compared with the model's (this fixes WHICH worker and incarnation ran every job); check_C14 (same key "
                            "never in progress on two workers, key order, one job per worker, custom target inside the pool, initial "
                            "round-robin spread, no idle backlog, active-worker count >= workers really running) is evaluated in Coq "
                            "on the implementation's log. non-trivial = >= 2 jobs started and a death/resize/hold/ttl/stop op")
    return chk.finish(trusted_base=TRUSTED,
                      explanation="An affinity / active-count anomaly is reported as KNOWN-FINDING F3 only if the implementation's "
                                  "own log shows the signature on that worker and key (job ended while the factory was held, worker "
                                  "died before the release, replacement started a job of the same key in the release op); any other "
                                  "anomaly is a VIOLATION.")
