"""C17 — Cluster: nothing from a peer takes effect before authentication (DESIGN.md section 4/C17).

Part 1 (FSM): the two handshake state machines of node/auth.rs, real code vs. coq/Cluster/Auth.v,
exhaustive over short scripts of an adversarial peer + seeded random longer ones.
Part 2 (gate): see c17_gate.py (session handler and live adversary), called from run()."""
import itertools
import json

from common import *

IMPORTS = "Cluster.Auth Cluster.Gate"

S_ALPHA = ["name 1 2 3", "sstatus 0", "cstatus 1", "cstatus 0", "schal 1 2 7", "cchal 5 k:0:I",
           "cchal 5 k:1:I", "sack k:0:I", "empty", "start", "force"]
C_ALPHA = ["name 1 2 3", "sstatus 0", "sstatus 4", "cstatus 1", "schal 1 2 7", "cchal 5 k:0:I",
           "sack k:0:I", "sack k:1:I", "sack E", "empty"]

# structured cookie family (harness/src/lib.rs c17_cookie): k = 100 + 4*len_index + variant
COOKIE_LENS = [0, 1, 31, 32, 59, 60, 61, 64, 65, 200]
COOKIES = [0, 1, 2] + [100 + 4 * i + v for i in range(len(COOKIE_LENS)) for v in range(4)
                       if not (COOKIE_LENS[i] == 0 and v in (1, 2))]


def near_cookies(k):
    """different cookies that share a long prefix with cookie k / differ in the last byte / in length only"""
    if k < 100:
        return [c for c in (0, 1, 2) if c != k]
    i = (k - 100) // 4
    out = [c for c in COOKIES if c >= 100 and (c - 100) // 4 == i and c != k]
    for j in (i - 1, i + 1):
        if 0 <= j < len(COOKIE_LENS):
            out += [c for c in COOKIES if c >= 100 and (c - 100) // 4 == j]
    return out

WRONG_DIGESTS = ["k:1:I", "k:2:I", "k:0:I:g1", "k:0:I:g2", "k:0:I:g3", "k:0:I:g4", "k:0:I:g5",
                 "raw:0", "raw:1", "raw:2", "k:0:12345", "k:0:0", "k:1:7"]


def gen_fsm_exhaustive(n):
    cases = []
    for seq in itertools.product(S_ALPHA, repeat=n):
        cases.append(("sfsm", "init", 0, list(seq)))
    for seq in itertools.product(S_ALPHA, repeat=n - 1):
        cases.append(("sfsm", "wcs", 0, list(seq)))
    for seq in itertools.product(C_ALPHA, repeat=n):
        cases.append(("cfsm", None, 0, list(seq)))
    return cases


def rand_msg(rng, server):
    r = rng.random()
    if r < 0.12:
        return f"name {rng.randint(0, 5)} {rng.randint(0, 5)} {rng.choice([0, 1, 2**63, 7])}"
    if r < 0.24:
        return f"sstatus {rng.choice([0, 1, 2, 3, 4, 5, 77, 2**32 - 1])}"
    if r < 0.36:
        return f"cstatus {rng.choice([0, 1])}"
    if r < 0.48:
        return f"schal {rng.randint(0, 5)} {rng.randint(0, 5)} {rng.choice([0, 7, 2**32 - 1, rng.randint(0, 2**32 - 1)])}"
    if r < 0.64:
        return f"cchal {rng.choice([0, 5, 2**32 - 1])} {rng.choice(['k:0:I', 'E'] + WRONG_DIGESTS)}"
    if r < 0.80:
        return f"sack {rng.choice(['k:0:I', 'E'] + WRONG_DIGESTS)}"
    if r < 0.86:
        return "empty"
    if server:
        return rng.choice(["start", "force"])
    return "empty"


def wrong_digest(rng, ck, sch=None):
    """a digest an adversary WITHOUT cookie ck can produce"""
    r = rng.random()
    if r < 0.35:
        return f"k:{rng.choice(near_cookies(ck))}:I"          # a different cookie (long common prefix ...)
    if r < 0.55:
        return "E"                                             # replay of the digest this side sent
    if r < 0.65 and sch is not None:
        return f"k:{rng.choice(near_cookies(ck))}:{sch}"       # the adversary's own digest of the server challenge
    if r < 0.8:
        return f"k:{ck}:I:g{rng.randint(1, 5)}"                # mangled right digest
    return rng.choice(["raw:0", "raw:1", "raw:2", f"k:{ck}:12345", f"k:{ck}:0"])


def gen_fsm_random(chk, n):
    """Mostly valid handshakes with at most a few mutations, then trailing traffic."""
    rng = chk.rng
    out = []
    # adversarial-acceptor family for the client FSM (directed): ServerStatus(Ok), ServerChallenge(n), then a
    # replayed / echoed / foreign / garbage digest; every structured cookie as the client's cookie
    for ck in COOKIES:
        for sch in (0, 99, 2**32 - 1):
            for d in ["E", "raw:1", "raw:0", f"k:{ck}:{sch}"] + [f"k:{c}:I" for c in near_cookies(ck)[:4]] \
                    + [f"k:{c}:{sch}" for c in near_cookies(ck)[:2]]:
                out.append(("cfsm", None, ck, ["sstatus 0", f"schal 7 8 {sch}", f"sack {d}", "sack E"]))
        # and the server FSM against peers holding a near cookie
        for c in near_cookies(ck)[:6]:
            out.append(("sfsm", "init", ck, ["name 1 2 3", "start", f"cchal 5 k:{c}:I", f"cchal 5 k:{ck}:I"]))
    for _ in range(n):
        server = rng.random() < 0.5
        ck = rng.choice([0, 0, 1] + COOKIES)
        right = f"k:{ck}:I"
        sch = rng.choice([0, 7, 2**32 - 1, rng.randint(0, 2**32 - 1)])
        if server:
            path = rng.choice(["direct", "alive"])
            ops = [f"name {rng.randint(0, 9)} {rng.randint(0, 9)} {rng.choice([0, 3, 2**64 - 1])}"]
            ops += ["start"] if path == "direct" else ["force", "cstatus 1"]
            ops += [f"cchal {rng.choice([0, 5, 99, 2**32 - 1])} {right}"]
        else:
            ops = [f"sstatus {rng.choice([0, 0, 1, 4, 9])}",
                   f"schal {rng.randint(0, 9)} {rng.randint(0, 9)} {sch}",
                   f"sack {right}"]
        style = rng.random()
        if style < 0.25:
            pass  # honest
        elif style < 0.6:
            last = ops[-1].split()
            last[-1] = wrong_digest(rng, ck, None if server else sch)
            ops[-1] = " ".join(last)
        elif style < 0.8:
            i = rng.randrange(len(ops))
            how = rng.choice(["ins", "rep", "drop", "dup"])
            if how == "ins":
                ops.insert(i, rand_msg(rng, server))
            elif how == "rep":
                ops[i] = rand_msg(rng, server)
            elif how == "drop":
                del ops[i]
            else:
                ops.insert(i, ops[i])
        else:
            ops = [rand_msg(rng, server) for _ in range(rng.randint(1, 6))]
        for _ in range(rng.choice([0, 1, 2, 4, 8])):
            ops.append(rng.choice(ops) if rng.random() < 0.5 and ops else rand_msg(rng, server))
        if server:
            out.append(("sfsm", rng.choice(["init", "init", "init", "wcs"]), ck, ops))
        else:
            out.append(("cfsm", None, ck, ops))
    return out


def peer_knows_cookie(c):
    """does the scripted peer ever compute a digest with the FSM's own cookie?"""
    ck = c[2]
    return any(f"k:{ck}:" in op for op in c[3])


def gen_hash_cases(chk, n):
    rng = chk.rng
    out = []
    for a in COOKIES:
        for b in COOKIES:
            out.append((a, 5, b, 5))
            out.append((a, 2**32 - 1, b, 2**32 - 1))
    for _ in range(n):
        a = rng.choice(COOKIES)
        b = rng.choice(near_cookies(a) + [a])
        c1 = rng.choice([0, 1, 255, 256, 2**31, 2**32 - 1, rng.randint(0, 2**32 - 1)])
        c2 = c1 if rng.random() < 0.7 else rng.choice([0, 1, 256, c1 ^ 1, c1 ^ (1 << 31)])
        out.append((a, c1, b, c2))
    return out


def run_hash(chk, build, factor):
    """challenge_digest (real SHA-256 code) vs the injective symbolic digest dg_sym of the model:
    equal digests <=> equal (cookie, challenge) on every structured pair explored."""
    cases = gen_hash_cases(chk, (500 if chk.tier == "quick" else 20000) * factor)
    impl = run_harness(build, "eng_auth", [f"hash {a} {c1} {b} {c2}" for a, c1, b, c2 in cases], shards=4)
    exprs = []
    for k in range(0, len(cases), 500):
        exprs.append("[" + "; ".join(f"N.eqb (dg_sym {a} {c1}) (dg_sym {b} {c2})" for a, c1, b, c2 in cases[k:k + 500]) + "]")
    model = []
    for r in coq_eval("C17hash", IMPORTS, exprs, shards=4):
        model += parse_term(r)
    for c, x, m in zip(cases, impl, model):
        chk.coverage["evaluations"] += 1
        t = parse_term(x)
        same, length = t[1] == "true", t[2]
        chk.count("hash.equal" if same else "hash.distinct")
        desc = json.dumps({"kind": "hash", "harness_line": "hash %d %d %d %d" % c, "real_digests_equal": same,
                           "digest_len": length, "model_dg_sym_equal": m,
                           "cookie_a": f"index {c[0]}", "cookie_b": f"index {c[2]}"}, indent=1)
        if length != 32:
            chk.violation("challenge_digest: digest length is not 32", "C17 hash correspondence\n" + desc, failing_input=False)
        if same and m != "true":
            chk.violation("challenge_digest is not injective: two different (cookie, challenge) inputs give the same "
                          "digest, so a peer holding a DIFFERENT cookie passes the challenge",
                          "C17 oracle (digest equality => cookie and challenge equality) rejects the real challenge_digest\n" + desc)
        elif (not same) and m == "true":
            chk.violation("challenge_digest is not a function of (cookie, challenge)", "C17 hash correspondence\n" + desc,
                          failing_input=False)
    return len(cases)


def fsm_line(c):
    kind, start, ck, ops = c
    if kind == "sfsm":
        return f"sfsm {start} {ck} " + " ; ".join(ops)
    return f"cfsm {ck} " + " ; ".join(ops)


def fsm_expr(c, ops_t, tr_t):
    kind, start, ck, _ = c
    if kind == "sfsm":
        st = "SWaitName" if start == "init" else "SWaitClientStatus"
        return (f"(let ops := {ops_t} in let tr := {tr_t} in "
                f"(list_eqb sauth_eqb (s_trace dg_sym {ck} {st} ops) tr, check_C17_server dg_sym {ck} {st} ops tr))")
    return (f"(let ops := {ops_t} in let tr := {tr_t} in "
            f"(list_eqb cauth_eqb (c_trace dg_sym {ck} CWaitStatus ops) tr, check_C17_client dg_sym {ck} CWaitStatus ops tr))")


def fsm_model_expr(c, ops_t):
    kind, start, ck, _ = c
    if kind == "sfsm":
        st = "SWaitName" if start == "init" else "SWaitClientStatus"
        return f"s_trace dg_sym {ck} {st} {ops_t}"
    return f"c_trace dg_sym {ck} CWaitStatus {ops_t}"


BATCH = 100


def run_fsm(chk, build, factor):
    quick = chk.tier == "quick"
    cases = gen_fsm_exhaustive(4 if quick else 5)
    n_ex = len(cases)
    cases += gen_fsm_random(chk, (2500 if quick else 60000) * factor)
    lines = [fsm_line(c) for c in cases]
    impl = run_harness(build, "eng_auth", lines, shards=8)
    pairs = []
    for x in impl:
        # "(ops, states)": split at the top-level separator "], ["
        i = x.index("], [")
        pairs.append((x[1:i + 1], x[i + 3:-1]))
    exprs = []
    for b in range(0, len(cases), BATCH):
        exprs.append("[" + "; ".join(fsm_expr(c, p[0], p[1])
                                     for c, p in zip(cases[b:b + BATCH], pairs[b:b + BATCH])) + "]")
    res = coq_eval("C17fsm", IMPORTS, exprs, shards=min(NCPU, 12))
    verdicts = []
    for r in res:
        for t in parse_term(r):
            verdicts.append((t[1] == "true", t[2] == "true"))
    assert len(verdicts) == len(cases)
    distinct = set()
    bad = []
    for i, (c, (same, ok)) in enumerate(zip(cases, verdicts)):
        chk.coverage["evaluations"] += 1
        tr = pairs[i][1]
        reached = ("SWaitReply" in tr) or ("CWaitAck" in tr)
        chk.count(f"fsm.{c[0]}.len={min(len(c[3]), 9)}")
        chk.count("fsm.reached_challenge_phase" if reached else "fsm.closed_before_challenge")
        if "SOk" in tr or "COk" in tr:
            chk.count("fsm.reached_ok")
        if reached:
            distinct.add(lines[i])
        if not ok or not same:
            bad.append(i)
    # ---- cookie-less peers never authenticate (judged on the real FSM's states only)
    cookieless = [i for i, c in enumerate(cases)
                  if ("SOk" in pairs[i][1] or "COk" in pairs[i][1]) and not peer_knows_cookie(c)]
    echo_only = [i for i in cookieless if any(op.endswith(" E") for op in cases[i][3])]
    other = [i for i in cookieless if i not in set(echo_only)]
    # an echoed digest is accepted by correct code only if the client's fresh challenge happens to equal the
    # server's (probability 2^-32 per handshake): demand two distinct scripts before calling it a defect
    flagged = other[:3] + (echo_only[:3] if len({lines[i] for i in echo_only}) >= 2 else [])
    for i in flagged:
        chk.violation("auth FSM: a peer that never used the cookie (replayed / foreign-cookie / garbage digests only) "
                      "drove the state machine to Ok",
                      "C17 oracle (Ok only for a peer that computed a digest with this side's cookie) rejects the real state machine\n"
                      + json.dumps({"kind": "fsm", "harness_line": lines[i], "resolved_ops": pairs[i][0],
                                    "impl_states": pairs[i][1],
                                    "cookieless_scripts_reaching_ok": len(cookieless)}, indent=1))
    chk.count("fsm.cookieless_scripts", sum(1 for c in cases if not peer_knows_cookie(c)))
    for i in bad[:5]:
        c = cases[i]
        same, ok = verdicts[i]
        model = coq_eval("C17fsm1", IMPORTS, [fsm_model_expr(c, pairs[i][0])], shards=1)[0]
        desc = json.dumps({"kind": "fsm", "harness_line": lines[i], "resolved_ops": pairs[i][0],
                           "impl_states": pairs[i][1], "model_states": model}, indent=1)
        if not ok:
            chk.violation("auth FSM: Close not absorbing / Ok without the issued challenge's digest / "
                          "unexpected message did not close",
                          "C17 oracle check_C17_server/client rejects the real state machine's answers\n" + desc)
        else:
            chk.coverage["disagreements_checked"] += 1
            chk.violation("model/implementation disagree (auth FSM)",
                          "correspondence E3:eng_auth FSM trace differs (oracle accepts)\n" + desc,
                          failing_input=False)
    for i in (7, n_ex + 3):
        if i < len(cases) and len(chk.coverage["samples"]) < 4:
            chk.coverage["samples"].append({"harness_line": lines[i], "resolved_ops": pairs[i][0],
                                            "impl_states": pairs[i][1], "model_equal": verdicts[i][0],
                                            "oracle": verdicts[i][1]})
    return len(cases), n_ex, distinct


def run(chk):
    quick = chk.tier == "quick"
    ok_proofs = chk.proofs()
    factor = 1 if ok_proofs else 10
    build = cargo_build(["eng_auth", "eng_gate"])
    if not build["ok"]:
        ok, log = repo_builds_without_hooks()
        if not ok:
            return infrastructure_failure(chk.prop, "/repo does not compile even without hooks:\n" + log[-1500:])
        chk.violation("harness no longer builds against /repo with hooks on",
                      "correspondence E3:eng_auth/eng_gate cannot be built against the current tree\n" + build["log"][-3000:],
                      failing_input=False)
        return chk.finish(trusted_base=TRUSTED)

    n_fsm, n_ex, distinct = run_fsm(chk, build, factor)
    n_fsm += run_hash(chk, build, factor)
    import c17_gate
    n_gate, distinct_gate = c17_gate.run_gate(chk, build, factor)
    n_unit, distinct_unit = c17_gate.run_units(chk, build, factor)
    n_gate += n_unit
    distinct_gate |= distinct_unit
    n_tcp, distinct_tcp = c17_gate.run_tcp(chk, build, factor)
    n_gate += n_tcp
    distinct_gate |= distinct_tcp

    chk.coverage["traces_validated_against_impl"] = n_fsm + n_gate
    chk.coverage["distinct_nontrivial"] = len(distinct) + len(distinct_gate)
    chk.coverage["rule"] = (
        f"FSM: every script of exactly {4 if quick else 5} operations over an 11-symbol (server, two start states) / 9-symbol (client) "
        "alphabet of peer messages x {right, wrong-cookie} digest and session operations (all shorter scripts are prefixes; "
        "every intermediate state is compared) + seeded random mostly-valid handshakes with one mutation and trailing replays; "
        "non-trivial = the script reaches the challenge phase (WaitReply / WaitAck). "
        "Gate: see c17_gate.py; non-trivial = the session authenticates or at least issues its challenge")
    chk.coverage["exhaustive_part"] = f"{n_ex} FSM scripts (complete enumeration at the stated length)"
    return chk.finish(trusted_base=TRUSTED)


TRUSTED = [
    "Coq 8.16.1 kernel (coqc); vm_compute used for evaluating the model on cases and for Examples",
    "no axioms: every property theorem prints 'Closed under the global context'; the digest is a Section variable "
    "(theorems hold for every digest function), no cryptographic assumption is used in any proof",
    "the reduction 'Ok needs dg cookie ch' becomes 'Ok needs knowledge of the cookie' only under second-preimage "
    "resistance of SHA-256 (hash.rs), which is NOT proved here (DESIGN.md section 6)",
    "hand-written models coq/Cluster/Auth.v, coq/Cluster/Gate.v tied to ractor_cluster/src/node/auth.rs and "
    "node_session.rs by differential runs (this check)",
    "hook wrappers ractor_cluster/src/node/verif_auth.rs and node/node_session/verif_gate.rs "
    "(cfg slawlor_ractor_verif) call the real private functions",
    "digests are compared symbolically: the harness maps SHA-256 values to codes (cookie, challenge) and asserts that "
    "no two codes share a value",
    "live sessions: tokio current_thread runtime with paused clock; quiescence barrier sleep(1ns)",
    "Rust harness eng_auth / eng_gate, lib/common.py term parser and comparison",
]
