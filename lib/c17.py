"""C17 — Cluster: nothing from a peer takes effect before authentication (DESIGN.md section 4/C17).

Part 1 (FSM): the two handshake state machines of node/auth.rs, real code vs. coq/Cluster/Auth.v,
exhaustive over short scripts of an adversarial peer + seeded random longer ones.
Part 2 (gate): see c17_gate.py (session handler and live adversary), called from run()."""
import itertools
import json

from common import *

IMPORTS = "Cluster.Auth Cluster.Gate"

S_ALPHA = ["name 1 2 3", "sstatus 0", "cstatus 1", "cstatus 0", "schal 1 2 7", "cchal 5 k:0:I",
           "cchal 5 k:1:I", "sack k:0:I", "empty", "start", "force"]
C_ALPHA = ["name 1 2 3", "sstatus 0", "sstatus 4", "cstatus 1", "schal 1 2 7", "cchal 5 k:0:I",
           "sack k:0:I", "sack k:1:I", "empty"]

WRONG_DIGESTS = ["k:1:I", "k:2:I", "k:0:I:g1", "k:0:I:g2", "k:0:I:g3", "k:0:I:g4", "k:0:I:g5",
                 "raw:0", "raw:1", "raw:2", "k:0:12345", "k:0:0", "k:1:7"]


def gen_fsm_exhaustive(n):
    cases = []
    for seq in itertools.product(S_ALPHA, repeat=n):
        cases.append(("sfsm", "init", 0, list(seq)))
    for seq in itertools.product(S_ALPHA, repeat=n - 1):
        cases.append(("sfsm", "wcs", 0, list(seq)))
    for seq in itertools.product(C_ALPHA, repeat=n):
        cases.append(("cfsm", None, 0, list(seq)))
    return cases


def rand_msg(rng, server):
    r = rng.random()
    if r < 0.12:
        return f"name {rng.randint(0, 5)} {rng.randint(0, 5)} {rng.choice([0, 1, 2**63, 7])}"
    if r < 0.24:
        return f"sstatus {rng.choice([0, 1, 2, 3, 4, 5, 77, 2**32 - 1])}"
    if r < 0.36:
        return f"cstatus {rng.choice([0, 1])}"
    if r < 0.48:
        return f"schal {rng.randint(0, 5)} {rng.randint(0, 5)} {rng.choice([0, 7, 2**32 - 1, rng.randint(0, 2**32 - 1)])}"
    if r < 0.64:
        return f"cchal {rng.choice([0, 5, 2**32 - 1])} {rng.choice(['k:0:I'] + WRONG_DIGESTS)}"
    if r < 0.80:
        return f"sack {rng.choice(['k:0:I'] + WRONG_DIGESTS)}"
    if r < 0.86:
        return "empty"
    if server:
        return rng.choice(["start", "force"])
    return "empty"


def gen_fsm_random(chk, n):
    """Mostly valid handshakes with at most a few mutations, then trailing traffic."""
    rng = chk.rng
    out = []
    for _ in range(n):
        server = rng.random() < 0.55
        ck = rng.choice([0, 0, 0, 1])
        right = f"k:{ck}:I"
        if server:
            path = rng.choice(["direct", "alive"])
            ops = [f"name {rng.randint(0, 9)} {rng.randint(0, 9)} {rng.choice([0, 3, 2**64 - 1])}"]
            ops += ["start"] if path == "direct" else ["force", "cstatus 1"]
            ops += [f"cchal {rng.choice([0, 5, 99, 2**32 - 1])} {right}"]
        else:
            ops = [f"sstatus {rng.choice([0, 0, 1, 4, 9])}",
                   f"schal {rng.randint(0, 9)} {rng.randint(0, 9)} {rng.randint(0, 2**32 - 1)}",
                   f"sack {right}"]
        style = rng.random()
        if style < 0.25:
            pass  # honest
        elif style < 0.6:
            # corrupt the final digest
            last = ops[-1].split()
            last[-1] = rng.choice([d.replace("k:0:", f"k:{ck}:") if d.startswith("k:0:I:") else d
                                   for d in WRONG_DIGESTS if d != right])
            if last[-1] == right:
                last[-1] = "raw:1"
            ops[-1] = " ".join(last)
        elif style < 0.8:
            # insert / replace / drop one message
            i = rng.randrange(len(ops))
            how = rng.choice(["ins", "rep", "drop", "dup"])
            if how == "ins":
                ops.insert(i, rand_msg(rng, server))
            elif how == "rep":
                ops[i] = rand_msg(rng, server)
            elif how == "drop":
                del ops[i]
            else:
                ops.insert(i, ops[i])
        else:
            ops = [rand_msg(rng, server) for _ in range(rng.randint(1, 6))]
        # trailing traffic: replays after the outcome
        for _ in range(rng.choice([0, 1, 2, 4, 8])):
            ops.append(rng.choice(ops) if rng.random() < 0.5 and ops else rand_msg(rng, server))
        if server:
            out.append(("sfsm", rng.choice(["init", "init", "init", "wcs"]), ck, ops))
        else:
            out.append(("cfsm", None, ck, ops))
    return out


def fsm_line(c):
    kind, start, ck, ops = c
    if kind == "sfsm":
        return f"sfsm {start} {ck} " + " ; ".join(ops)
    return f"cfsm {ck} " + " ; ".join(ops)


def fsm_expr(c, ops_t, tr_t):
    kind, start, ck, _ = c
    if kind == "sfsm":
        st = "SWaitName" if start == "init" else "SWaitClientStatus"
        return (f"(let ops := {ops_t} in let tr := {tr_t} in "
                f"(list_eqb sauth_eqb (s_trace dg_sym {ck} {st} ops) tr, check_C17_server dg_sym {ck} {st} ops tr))")
    return (f"(let ops := {ops_t} in let tr := {tr_t} in "
            f"(list_eqb cauth_eqb (c_trace dg_sym {ck} CWaitStatus ops) tr, check_C17_client dg_sym {ck} CWaitStatus ops tr))")


def fsm_model_expr(c, ops_t):
    kind, start, ck, _ = c
    if kind == "sfsm":
        st = "SWaitName" if start == "init" else "SWaitClientStatus"
        return f"s_trace dg_sym {ck} {st} {ops_t}"
    return f"c_trace dg_sym {ck} CWaitStatus {ops_t}"


BATCH = 100


def run_fsm(chk, build, factor):
    quick = chk.tier == "quick"
    cases = gen_fsm_exhaustive(4 if quick else 5)
    n_ex = len(cases)
    cases += gen_fsm_random(chk, (4000 if quick else 60000) * factor)
    lines = [fsm_line(c) for c in cases]
    impl = run_harness(build, "eng_auth", lines, shards=8)
    pairs = []
    for x in impl:
        # "(ops, states)": split at the top-level separator "], ["
        i = x.index("], [")
        pairs.append((x[1:i + 1], x[i + 3:-1]))
    exprs = []
    for b in range(0, len(cases), BATCH):
        exprs.append("[" + "; ".join(fsm_expr(c, p[0], p[1])
                                     for c, p in zip(cases[b:b + BATCH], pairs[b:b + BATCH])) + "]")
    res = coq_eval("C17fsm", IMPORTS, exprs, shards=min(NCPU, 12))
    verdicts = []
    for r in res:
        for t in parse_term(r):
            verdicts.append((t[1] == "true", t[2] == "true"))
    assert len(verdicts) == len(cases)
    distinct = set()
    bad = []
    for i, (c, (same, ok)) in enumerate(zip(cases, verdicts)):
        chk.coverage["evaluations"] += 1
        tr = pairs[i][1]
        reached = ("SWaitReply" in tr) or ("CWaitAck" in tr)
        chk.count(f"fsm.{c[0]}.len={min(len(c[3]), 9)}")
        chk.count("fsm.reached_challenge_phase" if reached else "fsm.closed_before_challenge")
        if "SOk" in tr or "COk" in tr:
            chk.count("fsm.reached_ok")
        if reached:
            distinct.add(lines[i])
        if not ok or not same:
            bad.append(i)
    for i in bad[:5]:
        c = cases[i]
        same, ok = verdicts[i]
        model = coq_eval("C17fsm1", IMPORTS, [fsm_model_expr(c, pairs[i][0])], shards=1)[0]
        desc = json.dumps({"kind": "fsm", "harness_line": lines[i], "resolved_ops": pairs[i][0],
                           "impl_states": pairs[i][1], "model_states": model}, indent=1)
        if not ok:
            chk.violation("auth FSM: Close not absorbing / Ok without the issued challenge's digest / "
                          "unexpected message did not close",
                          "C17 oracle check_C17_server/client rejects the real state machine's answers\n" + desc)
        else:
            chk.coverage["disagreements_checked"] += 1
            chk.violation("model/implementation disagree (auth FSM)",
                          "correspondence E3:eng_auth FSM trace differs (oracle accepts)\n" + desc,
                          failing_input=False)
    for i in (7, n_ex + 3):
        if i < len(cases) and len(chk.coverage["samples"]) < 4:
            chk.coverage["samples"].append({"harness_line": lines[i], "resolved_ops": pairs[i][0],
                                            "impl_states": pairs[i][1], "model_equal": verdicts[i][0],
                                            "oracle": verdicts[i][1]})
    return len(cases), n_ex, distinct


def run(chk):
    quick = chk.tier == "quick"
    ok_proofs = chk.proofs()
    factor = 1 if ok_proofs else 10
    build = cargo_build(["eng_auth", "eng_gate"])
    if not build["ok"]:
        ok, log = repo_builds_without_hooks()
        if not ok:
            return infrastructure_failure(chk.prop, "/repo does not compile even without hooks:\n" + log[-1500:])
        chk.violation("harness no longer builds against /repo with hooks on",
                      "correspondence E3:eng_auth/eng_gate cannot be built against the current tree\n" + build["log"][-3000:],
                      failing_input=False)
        return chk.finish(trusted_base=TRUSTED)

    n_fsm, n_ex, distinct = run_fsm(chk, build, factor)
    import c17_gate
    n_gate, distinct_gate = c17_gate.run_gate(chk, build, factor)
    n_unit, distinct_unit = c17_gate.run_units(chk, build, factor)
    n_gate += n_unit
    distinct_gate |= distinct_unit

    chk.coverage["traces_validated_against_impl"] = n_fsm + n_gate
    chk.coverage["distinct_nontrivial"] = len(distinct) + len(distinct_gate)
    chk.coverage["rule"] = (
        f"FSM: every script of exactly {4 if quick else 5} operations over an 11-symbol (server, two start states) / 9-symbol (client) "
        "alphabet of peer messages x {right, wrong-cookie} digest and session operations (all shorter scripts are prefixes; "
        "every intermediate state is compared) + seeded random mostly-valid handshakes with one mutation and trailing replays; "
        "non-trivial = the script reaches the challenge phase (WaitReply / WaitAck). "
        "Gate: see c17_gate.py; non-trivial = the session authenticates or at least issues its challenge")
    chk.coverage["exhaustive_part"] = f"{n_ex} FSM scripts (complete enumeration at the stated length)"
    return chk.finish(trusted_base=TRUSTED)


TRUSTED = [
    "Coq 8.16.1 kernel (coqc); vm_compute used for evaluating the model on cases and for Examples",
    "no axioms: every property theorem prints 'Closed under the global context'; the digest is a Section variable "
    "(theorems hold for every digest function), no cryptographic assumption is used in any proof",
    "the reduction 'Ok needs dg cookie ch' becomes 'Ok needs knowledge of the cookie' only under second-preimage "
    "resistance of SHA-256 (hash.rs), which is NOT proved here (DESIGN.md section 6)",
    "hand-written models coq/Cluster/Auth.v, coq/Cluster/Gate.v tied to ractor_cluster/src/node/auth.rs and "
    "node_session.rs by differential runs (this check)",
    "hook wrappers ractor_cluster/src/node/verif_auth.rs and node/node_session/verif_gate.rs "
    "(cfg slawlor_ractor_verif) call the real private functions",
    "digests are compared symbolically: the harness maps SHA-256 values to codes (cookie, challenge) and asserts that "
    "no two codes share a value",
    "live sessions: tokio current_thread runtime with paused clock; quiescence barrier sleep(1ns)",
    "Rust harness eng_auth / eng_gate, lib/common.py term parser and comparison",
]
