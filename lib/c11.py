"""C11 — process groups reflect live membership and tell their monitors (DESIGN.md 4/C11).

Engine E1: the real pg functions and real actor exits on the deterministic runtime
(harness/src/bin/eng_pg.rs); model coq/Pg/Model.v (atomic steps) and coq/Pg/Conc.v
(lock-section micro-steps, run solo); oracle check_C11 evaluated inside Coq on the
implementation's answers."""
import itertools
import json
import os
import re

from common import *

IMPORTS = "Pg.Model Pg.Conc"
ACTORS = [1, 2, 3, 4, 5, 101, 102]   # 5 = thread-local actor (member only), 101/102 remote ids
MONITORS = [1, 2, 3, 4, 101, 102]
SCOPES = [1, 2, 3]
GROUPS = [1, 2, 3]
UNIVERSE = "(mkU [1; 2; 3] [1; 2; 3] [1; 2; 3; 4; 5; 101; 102])"


# ---------------------------------------------------------------- scenario syntax
def op_line(o):
    k = o[0]
    if k in ("j", "l"):
        return f"{k} {o[1]} {o[2]} " + (",".join(str(a) for a in o[3]) if o[3] else "-")
    return " ".join(str(x) for x in o)


def nlist(l):
    return "[" + "; ".join(str(x) for x in l) + "]"


def op_term(o):
    k = o[0]
    if k == "j":
        return f"OJoin {o[1]} {o[2]} {nlist(o[3])}"
    if k == "l":
        return f"OLeave {o[1]} {o[2]} {nlist(o[3])}"
    if k == "m":
        return f"OMon {o[1]} {o[2]}"
    if k == "ms":
        return f"OMonScope {o[1]} {o[2]}"
    if k == "d":
        return f"ODemon {o[1]} {o[2]}"
    if k == "ds":
        return f"ODemonScope {o[1]} {o[2]}"
    if k in ("x", "k"):
        return f"OExit {o[1]}"
    raise ValueError(o)


def case_line(ops):
    return "seq " + ";".join(op_line(o) for o in ops)


def ops_term(ops):
    return "[" + "; ".join(op_term(o) for o in ops) + "]"


def parse_line(line):
    ops = []
    for part in line.split(" ", 1)[1].split(";"):
        w = part.split()
        if not w:
            continue
        if w[0] in ("j", "l"):
            ops.append((w[0], int(w[1]), int(w[2]), [] if w[3] == "-" else [int(a) for a in w[3].split(",")]))
        else:
            ops.append((w[0],) + tuple(int(x) for x in w[1:]))
    return ops


# ---------------------------------------------------------------- generators
def gen_exhaustive(depth):
    """All sequences of `depth` operations over a small alphabet that already contains a
    group monitor, a scope monitor, an all-scopes monitor, duplicate actors, a repeated join,
    a leave of a non-member, and the exits of a member and of a monitor."""
    alpha = [("j", 1, 1, [1]), ("j", 1, 1, [1, 2, 1]), ("j", 2, 1, [1]), ("l", 1, 1, [1]), ("l", 1, 1, [2, 3]),
             ("m", 1, 3), ("ms", 1, 3), ("ms", 0, 3), ("d", 1, 3), ("ds", 1, 3), ("x", 1), ("k", 3),
             ("j", 1, 1, [5]), ("x", 5)]
    return [list(seq) for seq in itertools.product(alpha, repeat=depth)]


def gen_random(rng, n):
    out = []
    for _ in range(n):
        style = rng.choice(["mixed", "mixed", "monitored", "churn", "exits", "narrow"])
        L = rng.choice([6, 10, 14, 20, 28])
        actors = ACTORS if style != "narrow" else [1, 2, 5, 101]
        mons = [a for a in actors if a in MONITORS]
        scopes = SCOPES if style != "narrow" else [1, 2]
        groups = GROUPS if style != "narrow" else [1, 2]
        ops = []
        dead = set()

        def some_actors():
            k = rng.choice([1, 1, 2, 2, 3, 4])
            l = [rng.choice(actors) for _ in range(k)]
            if rng.random() < 0.25 and l:
                l.append(rng.choice(l))  # duplicate in one call
            if rng.random() < 0.03:
                l = []
            return l

        if style in ("monitored", "churn"):
            for _ in range(rng.choice([2, 3, 4])):
                r = rng.random()
                if r < 0.5:
                    ops.append(("m", rng.choice(groups), rng.choice(mons)))
                elif r < 0.85:
                    ops.append(("ms", rng.choice(scopes), rng.choice(mons)))
                else:
                    ops.append(("ms", 0, rng.choice(mons)))
        while len(ops) < L:
            r = rng.random()
            s, g = rng.choice(scopes), rng.choice(groups)
            if style == "churn":
                s, g = rng.choice(scopes[:2]), rng.choice(groups[:2])
            if r < 0.30:
                ops.append(("j", s, g, some_actors()))
                if rng.random() < 0.15:
                    ops.append(ops[-1])  # repeated join
            elif r < 0.48:
                ops.append(("l", s, g, some_actors()))
            elif r < 0.58:
                ops.append(("m", g, rng.choice(mons)))
            elif r < 0.68:
                ops.append(("ms", rng.choice(scopes + [0]), rng.choice(mons)))
            elif r < 0.74:
                ops.append(("d", g, rng.choice(mons)))
            elif r < 0.80:
                ops.append(("ds", rng.choice(scopes + [0]), rng.choice(mons)))
            else:
                p = 0.9 if style == "exits" else 0.45
                if rng.random() < p:
                    a = rng.choice(actors)
                    ops.append((rng.choice(["x", "k"]), a))
                    dead.add(a)
                else:
                    ops.append(("j", s, g, some_actors()))
        # registrations naming actors that already exited (must be rejected / cleaned)
        for a in list(dead)[:2]:
            if rng.random() < 0.7:
                ops.append(rng.choice([("j", rng.choice(scopes), rng.choice(groups), [a, rng.choice(actors)]),
                                       ("m", rng.choice(groups), a if a in MONITORS else 1),
                                       ("ms", rng.choice(scopes + [0]), a if a in MONITORS else 1)]))
        out.append(ops)
    return out


# ---------------------------------------------------------------- comparison
def canon(t):
    """sort every list (HashMap/HashSet iteration orders; events of one settle window)"""
    if isinstance(t, list):
        return sorted((canon(x) for x in t), key=repr)
    if isinstance(t, tuple):
        t = tuple(canon(x) for x in t)
        # Coq prints left-nested pairs flat: ((a, b), c) is shown as (a, b, c)
        while t and t[0] == "tuple" and len(t) > 1 and isinstance(t[1], tuple) and t[1] and t[1][0] == "tuple":
            t = ("tuple",) + t[1][1:] + t[2:]
        return t
    return t


VIEW_FIELDS = ["members", "local_members", "which_scoped_groups", "which_groups", "which_scopes",
               "which_scopes_and_groups", "snapshot", "events"]


def first_diff(mv, iv):
    for i, (a, b) in enumerate(zip(mv, iv)):
        if a != b:
            for j, name in enumerate(VIEW_FIELDS):
                if a[1 + j] != b[1 + j]:
                    return i, name, show_term(a[1 + j]), show_term(b[1 + j])
            return i, "?", "", ""
    return None


def stats(chk, ops, iv):
    eff = evs = 0
    for o, v in zip(ops, iv):
        chk.count("op." + o[0])
        n = len(v[8])
        evs += n
    chk.count("events_delivered", evs)
    return evs



# ---------------------------------------------------------------- E2-lite: exits racing registrations
def rep(label, n):
    return "repeat (" + label + ") " + str(n)


# (name, harness line, model calls, setup ops, model schedule, a linearization of the whole race)
RACES = [
    ("exit between entry acquisition and the locked re-check of join",
     "race m 1 3;ms 1 4 | start A j 1 1 1,2 @join.actor | start B x 1 | go A",
     "[CJoin 1 1 [1; 2]]", [("m", 1, 3), ("ms", 1, 4)],
     [rep("LT 0", 4), rep("LX 1", 3), rep("LT 0", 20)],
     [("x", 1), ("j", 1, 1, [1, 2])]),
    ("exit after join released the entry, before its notifications",
     "race m 1 3;ms 1 4 | start A j 1 1 1,2 @join.released | start B x 1 | go A",
     "[CJoin 1 1 [1; 2]]", [("m", 1, 3), ("ms", 1, 4)],
     [rep("LT 0", 8), rep("LX 1", 20), rep("LT 0", 20)],
     [("j", 1, 1, [1, 2]), ("x", 1)]),
    ("REAL stop + wait() returned while join has released the entry but not yet notified (observation: Join after Leave)",
     "race m 1 3;ms 1 4 | start A j 1 1 1,2 @join.released | stop 1 | go A",
     "[CJoin 1 1 [1; 2]]", [("m", 1, 3), ("ms", 1, 4)],
     [rep("LT 0", 8), rep("LX 1", 20), rep("LT 0", 20)],
     [("j", 1, 1, [1, 2]), ("x", 1)]),
    ("exit between the unlocked filter and the entry acquisition of join",
     "race m 1 3 | start A j 1 1 1,2 @join.filtered | start B x 1 | go A",
     "[CJoin 1 1 [1; 2]]", [("m", 1, 3)],
     [rep("LT 0", 3), rep("LX 1", 20), rep("LT 0", 20)],
     [("x", 1), ("j", 1, 1, [1, 2])]),
    ("leave_scoped and a join racing leave_all after it took the memberships",
     "race ms 0 4;j 1 1 1;j 2 2 1,2 | start B x 1 @leave_all.taken | start A l 1 1 1 | start C j 1 2 1,2 | go B",
     "[CLeave 1 1 [1]; CJoin 1 2 [1; 2]]", [("ms", 0, 4), ("j", 1, 1, [1]), ("j", 2, 2, [1, 2])],
     [rep("LX 1", 5), rep("LT 0", 20), rep("LT 1", 20), rep("LX 1", 20)],
     [("l", 1, 1, [1]), ("x", 1), ("j", 1, 2, [1, 2])]),
    ("monitor_scope holding a relations handle across the whole exit",
     "race j 1 1 2 | start A ms 2 1 @monitor_scope.created | start B x 1 | go A",
     "[CMonScope 2 1]", [("j", 1, 1, [2])],
     [rep("LT 0", 1), rep("LX 1", 20), rep("LT 0", 20)],
     [("x", 1), ("ms", 2, 1)]),
    ("monitor and join between the publication of Stopping and the drain",
     "race j 1 1 1;m 2 1;ms 0 4 | start B x 1 @exit.published | start A m 1 1 | start C j 2 1 1,2 | go B",
     "[CMon 1 1; CJoin 2 1 [1; 2]]", [("j", 1, 1, [1]), ("m", 2, 1), ("ms", 0, 4)],
     [rep("LX 1", 1), rep("LT 0", 20), rep("LT 1", 20), rep("LX 1", 20)],
     [("x", 1), ("m", 1, 1), ("j", 2, 1, [1, 2])]),
    # --- branches found uncovered by the coverage audit (docs/notes/C11.md, "Coverage audit")
    ("join naming one actor that exits before its locked re-check: nothing accepted, group has a listener",
     "race m 1 3 | start A j 1 1 1 @join.actor | start B x 1 | go A",
     "[CJoin 1 1 [1]]", [("m", 1, 3)],
     [rep("LT 0", 3), rep("LX 1", 30), rep("LT 0", 20)],
     [("x", 1), ("j", 1, 1, [1])]),
    ("same without listener: the entry created by or_default is dropped again",
     "race  | start A j 1 2 1 @join.actor | start B x 1 | go A",
     "[CJoin 1 2 [1]]", [],
     [rep("LT 0", 3), rep("LX 1", 30), rep("LT 0", 20)],
     [("x", 1), ("j", 1, 2, [1])]),
    ("leave_scoped removes the actor while leave_all holds the taken memberships; the group keeps another member",
     "race ms 0 4;j 1 1 1,2 | start B x 1 @leave_all.taken | start A l 1 1 1 | go B",
     "[CLeave 1 1 [1]]", [("ms", 0, 4), ("j", 1, 1, [1, 2])],
     [rep("LX 1", 5), rep("LT 0", 20), rep("LX 1", 30)],
     [("l", 1, 1, [1]), ("x", 1)]),
    ("monitor of a stopping actor: its temporary group entry is removed by a demonitor before its own clean-up",
     "race  | start B x 1 | start A m 1 1 @monitor.released | start C d 1 3 | go A",
     "[CMon 1 1; CDemon 1 3]", [],
     [rep("LX 1", 30), rep("LT 0", 2), rep("LT 1", 5), rep("LT 0", 10)],
     [("x", 1), ("m", 1, 1), ("d", 1, 3)]),
    ("monitor_scope of a stopping actor: its temporary world entry is removed by a demonitor_scope first",
     "race  | start B x 1 | start A ms 2 1 @monitor_scope.released | start C ds 2 3 | go A",
     "[CMonScope 2 1; CDemonScope 2 3]", [],
     [rep("LX 1", 30), rep("LT 0", 2), rep("LT 1", 5), rep("LT 0", 10)],
     [("x", 1), ("ms", 2, 1), ("ds", 2, 3)]),
    ("explicit demonitor/demonitor_scope while demonitor_all holds the taken monitor sets: entries already gone",
     "race m 1 1;ms 2 1 | start B x 1 @demonitor_all.taken | start A d 1 1 | start C ds 2 1 | go B",
     "[CDemon 1 1; CDemonScope 2 1]", [("m", 1, 1), ("ms", 2, 1)],
     [rep("LX 1", 2), rep("LT 0", 5), rep("LT 1", 5), rep("LX 1", 30)],
     [("x", 1), ("d", 1, 1), ("ds", 2, 1)]),
    # --- inside leave_all (seeds C11-9, C11-10)
    ("another actor joins the group the exiting actor just emptied, before the exit's notifications",
     "race j 1 1 1 | start B x 1 @leave_all.notify | start A j 1 1 2 | go B",
     "[CJoin 1 1 [2]]", [("j", 1, 1, [1])],
     [rep("LX 1", 8), rep("LT 0", 20), rep("LX 1", 30)],
     [("x", 1), ("j", 1, 1, [2])]),
    ("same in a non-default scope with a second group of that scope staying populated",
     "race j 2 1 1;j 2 2 3 | start B x 1 @leave_all.notify | start A j 2 1 2 | go B",
     "[CJoin 2 1 [2]]", [("j", 2, 1, [1]), ("j", 2, 2, [3])],
     [rep("LX 1", 8), rep("LT 0", 20), rep("LX 1", 30)],
     [("x", 1), ("j", 2, 1, [2])]),
    ("manual leave of the exiting actor from one of six groups (the one that keeps another member) after leave_all took its memberships",
     "race j 1 1 1;j 1 2 1;j 1 3 1;j 2 1 1;j 2 2 1;j 2 3 1,2 | start B x 1 @leave_all.taken | start A l 2 3 1 | go B",
     "[CLeave 2 3 [1]]", [("j", 1, 1, [1]), ("j", 1, 2, [1]), ("j", 1, 3, [1]), ("j", 2, 1, [1]), ("j", 2, 2, [1]), ("j", 2, 3, [1, 2])],
     [rep("LX 1", 5), rep("LT 0", 20), rep("LX 1", 60)],
     [("l", 2, 3, [1]), ("x", 1)]),
    # --- explicit leave / demonitor overlapping a registration of the same actor, then the actor's REAL exit.
    # The pinned code removes the reverse-index record of a membership under the group's forward entry
    # (model: one LL step does both) and never removes the relations record of a live actor.
    ("leave_scoped parked after its entry section, join of the same actor+group, then the actor exits",
     "race m 1 3;j 1 1 1 | start A l 1 1 1 @leave.released | start B j 1 1 1 | go A | stop 1",
     "[CLeave 1 1 [1]; CJoin 1 1 [1]]", [("m", 1, 3), ("j", 1, 1, [1])],
     [rep("LT 0", 3), rep("LT 1", 20), rep("LT 0", 20), rep("LX 1", 30)],
     [("l", 1, 1, [1]), ("j", 1, 1, [1]), ("x", 1)]),
    ("same with a second member and a scope monitor; the leave names both",
     "race ms 1 4;j 1 1 1,2 | start A l 1 1 1,2 @leave.released | start B j 1 1 1 | go A | stop 1",
     "[CLeave 1 1 [1; 2]; CJoin 1 1 [1]]", [("ms", 1, 4), ("j", 1, 1, [1, 2])],
     [rep("LT 0", 4), rep("LT 1", 20), rep("LT 0", 20), rep("LX 1", 30)],
     [("l", 1, 1, [1, 2]), ("j", 1, 1, [1]), ("x", 1)]),
    ("last demonitor while monitor_scope holds the relations handle, then the actor exits",
     "race m 1 1 | start A ms 2 1 @monitor_scope.created | start B d 1 1 | go A | stop 1",
     "[CMonScope 2 1; CDemon 1 1]", [("m", 1, 1)],
     [rep("LT 0", 1), rep("LT 1", 5), rep("LT 0", 10), rep("LX 1", 30)],
     [("d", 1, 1), ("ms", 2, 1), ("x", 1)]),
    ("last demonitor_scope while monitor holds the relations handle, then the actor exits",
     "race ms 2 1 | start A m 1 1 @monitor.created | start B ds 2 1 | go A | stop 1",
     "[CMon 1 1; CDemonScope 2 1]", [("ms", 2, 1)],
     [rep("LT 0", 1), rep("LT 1", 5), rep("LT 0", 10), rep("LX 1", 30)],
     [("ds", 2, 1), ("m", 1, 1), ("x", 1)]),
    ("last demonitor while monitor (other group) holds the handle; a member joins the monitored group; exit",
     "race m 1 1;ms 0 4 | start A m 2 1 @monitor.created | start B d 1 1 | go A | start C j 1 2 2 | stop 1 | start D l 1 2 2",
     "[CMon 2 1; CDemon 1 1; CJoin 1 2 [2]; CLeave 1 2 [2]]", [("m", 1, 1), ("ms", 0, 4)],
     [rep("LT 0", 1), rep("LT 1", 5), rep("LT 0", 10), rep("LT 2", 20), rep("LX 1", 30), rep("LT 3", 20)],
     [("d", 1, 1), ("m", 2, 1), ("j", 1, 2, [2]), ("x", 1), ("l", 1, 2, [2])]),
]


def per_recipient(evs):
    """recipient -> its notifications in delivery order (payload as a sorted tuple)"""
    d = {}
    for e in evs:
        d.setdefault(e[1], []).append((e[2], e[3], e[4], tuple(sorted(e[5]))))
    return d


def run_races(chk, build, rounds, only=None):
    sel = [r for r in RACES if only is None or r[1] in only]
    if not sel:
        return
    lines = [r[1] for r in sel] * rounds
    impl = run_harness(build, "eng_pg", lines, shards=1, timeout=600)
    exprs = []
    for k, line in enumerate(lines):
        name, _, calls, setup, sched, lin = sel[k % len(sel)]
        sch = " ++ ".join(sched)
        exprs.append(f"view_of {UNIVERSE} (c_pg (crun (fold_left solo_op {ops_term(setup)} (cinit {calls})) ({sch}))) "
                     f"(clog (fold_left solo_op {ops_term(setup)} (cinit {calls})) ({sch}))")
        views = parse_term(impl[k])
        v = show_term(views[-1])
        ops = ops_term(setup + lin)
        e = f"check_queries {UNIVERSE} (spec_run {ops}) {v} && check_snapshot {UNIVERSE} (spec_run {ops}) (v_snap {v})"
        # the exit itself: view taken right after wait() returned, judged as the step OExit a
        stops = [w for w in line.split("|") if w.split()[:1] == ["stop"]]
        if stops:
            a = int(stops[-1].split()[1])
            xi = max(i for i, o in enumerate(lin) if o[0] == "x" and o[1] == a)
            nstop_after = 0  # views: [setup, (pre, post)*, final]; the last stop's post view
            post = show_term(views[-2])
            before = ops_term(setup + lin[:xi])
            upto = ops_term(setup + lin[:xi + 1])
            e += (f" && check_view {UNIVERSE} (spec_run {before}) (OExit {a}) {post}"
                  f" && check_exit_counts {UNIVERSE} (spec_run {before}) (spec_run {upto}) {a} (v_events {post})")
        exprs.append(f"({e})%bool")
    vals = coq_eval("C11r", IMPORTS, exprs, shards=min(NCPU, 6))
    bad = []
    for k, line in enumerate(lines):
        name = sel[k % len(sel)][0]
        mv = canon(parse_term(vals[2 * k]))
        views = parse_term(impl[k])
        iv = canon(views[-1])
        chk.coverage["evaluations"] += 1
        chk.count("race." + name)
        # observation (not judged: the property does not order notifications of different calls):
        # a monitor handles the automatic Leave of an actor and only later the Join naming it
        evs = [e for v in views[1:] for e in v[8]]
        seen_obs = False
        for l in {e[1] for e in evs}:
            mine = [e for e in evs if e[1] == l]
            for i1, e1 in enumerate(mine):
                for e2 in mine[i1 + 1:]:
                    if e1[2] == "false" and e2[2] == "true" and e1[3:5] == e2[3:5] and set(e1[5]) <= set(e2[5]):
                        chk.count("observation.join_delivered_after_leave_of_same_actor")
                        seen_obs = True
                        note = f"observation: monitor {l} got Leave {e1[5]} then Join {e2[5]} for key {e1[3:5]} in: {line}"
                        if note not in chk.notes:
                            chk.notes.append(note)
        if "@join.released" in line and not seen_obs:
            # documented behaviour of the unchanged code (corpus/C11/races.txt): the Join is sent after
            # the entry was released, so it arrives after the exit's Leave; a change shows up here
            chk.violation("race: documented notification order (Leave of the exited actor, then the Join naming it) no longer observed",
                          "correspondence E2:pg race event order differs from the documented one (oracle accepts)\n" + line
                          + "\nevents: " + show_term(evs), failing_input=False)
        desc = f"{line}\nrace: {name}\nimplementation views (after setup; [before stop; after wait() returned;] final): {show_term(views)}\nmodel final view: {vals[2 * k]}\n"
        if vals[2 * k + 1].strip() != "true":
            bad.append(("999" in show_term(views[-1]),
                        "race: zombie / stale index / leaked entry after an exit racing a registration: " + name,
                        "C11 oracle rejects the race: after the actor's exit completed (wait() returned) it must be in no member list, no which_* listing, no monitor list, no reverse-index record, and one Leave per membership held at exit must have reached every monitor\n" + desc))
        elif mv[1:8] != iv[1:8] or per_recipient(parse_term(vals[2 * k])[8]) != per_recipient(evs):
            # all query fields, the snapshot, and for every recipient the SEQUENCE of its notifications
            chk.coverage["disagreements_checked"] += 1
            chk.violation("race: micro-step model and implementation end in different states: " + name,
                          "correspondence E2:pg race differs (oracle accepts)\n" + desc, failing_input=False)
    for _, what, payload in sorted(bad, key=lambda b: b[0]):
        chk.violation(what, payload)
    chk.coverage["races_validated_against_impl"] = len(lines)


WHY = {1: "a query disagrees with the membership sets (listed iff has members)",
       2: "cross-index disagreement / zombie / leaked reverse-index entry in the four indexes",
       3: "a notification is missing, went to a non-monitor or has the wrong scope/group/actors",
       4: "wrong number of views"}


def run(chk):
    quick = chk.tier == "quick"
    ok_proofs = chk.proofs()
    factor = 1 if ok_proofs else 5
    build = cargo_build(["eng_pg"])
    if not build["ok"]:
        ok, log = repo_builds_without_hooks()
        if not ok:
            return infrastructure_failure(chk.prop, "/repo does not compile even without hooks:\n" + log[-1500:])
        chk.violation("harness no longer builds against /repo with hooks on",
                      "correspondence E1:eng_pg cannot be built against the current tree\n" + build["log"][-3000:],
                      failing_input=False)
        return chk.finish(trusted_base=TRUSTED)

    cases = []
    if getattr(chk, "replay", None):
        for line in open(chk.replay).read().split("\n"):
            if line.startswith("seq "):
                cases.append(parse_line(line))
    else:
        cdir = os.path.join(ROOT, "corpus", chk.prop)
        if os.path.isdir(cdir):
            for f in sorted(os.listdir(cdir)):
                for line in open(os.path.join(cdir, f)).read().split("\n"):
                    if line.startswith("seq "):
                        cases.append(parse_line(line))
        n_corpus = len(cases)
        cases += gen_exhaustive(2 if quick else 3)
        cases += gen_random(chk.rng, (260 if quick else 2000) * factor)

    lines = [case_line(c) for c in cases]
    impl = run_harness(build, "eng_pg", lines, shards=min(NCPU, 8), timeout=2400)
    impl_t = [parse_term(x) for x in impl]

    exprs = []
    for c in cases:
        exprs.append(f"run_views {UNIVERSE} pg0 {ops_term(c)}")
    for c, raw in zip(cases, impl):
        exprs.append(f"(check_C11 {UNIVERSE} {ops_term(c)} {raw}, why_C11 {UNIVERSE} {ops_term(c)} {raw})")
    for c in cases:
        exprs.append(f"forallb (op_in {UNIVERSE}) {ops_term(c)} && check_C11 {UNIVERSE} {ops_term(c)} (run_views {UNIVERSE} pg0 {ops_term(c)})")
    for c in cases:
        # the lock-section model (coq/Pg/Conc.v) run solo must agree with the atomic model
        exprs.append(f"solo_agree {UNIVERSE} (cinit []) pg0 {ops_term(c)}")
    # each shard needs ~1.5 GB for the large view terms: cap the parallelism
    model = coq_eval("C11", IMPORTS, exprs, shards=max(1, min(NCPU, 8, len(exprs) // 20)))
    n = len(cases)
    distinct = set()
    hard = []
    for i, c in enumerate(cases):
        mv = canon(parse_term(model[i]))
        iv = canon(impl_t[i])
        verdict = parse_term(model[n + i])
        if model[2 * n + i].strip() != "true":
            # the oracle must accept the model's own run (oracle soundness, evaluated per case)
            chk.violation("oracle check_C11 rejects the model's own run (or op outside the universe)",
                          f"{lines[i]}\ncheck_C11 U ops (run_views U pg0 ops) = false", failing_input=False)
        chk.coverage["evaluations"] += 1
        if model[3 * n + i].strip() != "true":
            chk.violation("micro-step model run solo disagrees with the atomic model",
                          f"{lines[i]}\nsolo_agree U (cinit []) pg0 ops = false (coq/Pg/Conc.v vs coq/Pg/Model.v)",
                          failing_input=False)
        nev = stats(chk, c, iv)
        if nev > 0 and any(o[0] in ("x", "k", "l") for o in c):
            distinct.add(lines[i])
        desc = lines[i] + "\n" + json.dumps({"ops": [op_term(o) for o in c]}, indent=1)
        if verdict[1] != "true":
            at, code = verdict[2][1], verdict[2][2]
            d = first_diff(mv, iv)
            vtxt = show_term(impl_t[i][at]) if at < len(impl_t[i]) else '-'
            # leftovers of an earlier failing case show up as foreign names (999): report the
            # cases that fail on their own names first
            hard.append((("999" in vtxt, len(c)),
                         f"check_C11 rejects the implementation at op #{at}: {WHY.get(code, code)}",
                         f"{lines[i]}\nC11 oracle check_C11 rejects the implementation's answers at op #{at} "
                         f"({op_term(c[at]) if at < len(c) else '-'}): {WHY.get(code, code)}\n"
                         f"implementation view at that op: {vtxt}\n"
                         f"first model/implementation difference: {d}\n" + desc))
        elif mv != iv:
            chk.coverage["disagreements_checked"] += 1
            d = first_diff(mv, iv)
            chk.violation("model/implementation disagree (pg view)",
                          f"{lines[i]}\ncorrespondence E1:pg differs (oracle accepts) at op #{d[0]} field {d[1]}\n"
                          f"model: {d[2]}\nimpl:  {d[3]}\n" + desc, failing_input=False)
        if len(chk.coverage["samples"]) < 3 and len(c) >= 6 and nev > 2 and i % 7 == 0:
            chk.coverage["samples"].append({"harness_line": lines[i], "last_view_impl": show_term(impl_t[i][-1]),
                                            "last_view_model": model[i][-600:]})
    for _, what, payload in sorted(hard, key=lambda h: h[0]):
        chk.violation(what, payload)
    if not getattr(chk, "replay", None):
        run_races(chk, build, 3 if quick else 30)
    else:
        run_races(chk, build, 1, only=[l.strip() for l in open(chk.replay).read().split("\n") if l.startswith("race ")])
    chk.coverage["traces_validated_against_impl"] = n
    chk.coverage["distinct_nontrivial"] = len(distinct)
    chk.coverage["rule"] = ("exhaustive: all op sequences of length %d over a 14-letter alphabet (joins with duplicates, "
                            "repeats, leaves of non-members, group/scope/all-scopes monitors, stop and kill); random: seeded "
                            "histories of 6-30 ops over 3 scopes x 3 groups x 6 actors (2 with remote ids), with exits and "
                            "registrations naming exited actors. View after EVERY op: all query functions, the four indexes "
                            "(cfg hook), each actor's ProcessGroupChanged log. non-trivial = at least one notification "
                            "delivered and at least one leave/exit" % (2 if quick else 3))
    chk.coverage["exhaustive_part"] = "op sequences of length %d over the 14-letter alphabet" % (2 if quick else 3)
    return chk.finish(trusted_base=TRUSTED)


TRUSTED = [
    "Coq 8.16.1 kernel (coqc); vm_compute for evaluating model and oracle on cases",
    "hand-written model coq/Pg/Model.v tied to ractor/src/pg.rs + actor_cell.rs::set_status by differential runs (this check)",
    "DashMap entry locks, Mutex, AtomicU8 fetch_max, tokio mpsc (supervision port) are not modelled below their contracts",
    "cfg hook ractor/src/pg/verif.rs::snapshot copies the four indexes (no logic)",
    "Rust harness eng_pg (deterministic current_thread runtime, paused clock, sleep(1ns) barrier), lib/common.py term parser",
]
