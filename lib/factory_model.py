"""Shared by C13 and C14: scenario representation for the factory engine, the harness line and
the Coq term of a scenario, event normalisation, and the executable oracles' python helpers.

A scenario is a dict:
  {"router": "kp|q|sq|rr|cu", "queue": "d|p", "n": int, "disc": "none|new:L|old:L",
   "hash": {key: value}, "rl": "" | "1011", "ops": [[op, args...], ...]}
"""
from common import *

ROUTERS = {"kp": "RKeyPersistent", "q": "RQueuer", "sq": "RSticky", "rr": "RRoundRobin", "cu": "RCustom"}
IMPORTS = "Factory.Model Factory.Scenario Factory.Oracle"


def scn_line(s):
    h = ",".join(f"{k}:{v}" for k, v in sorted(s.get("hash", {}).items())) or "-"
    rl = s.get("rl") or "-"
    head = f"{s['router']} {s['queue']} {s['n']} {s['disc']} {h} {rl}" + (f" dmsk:{s['dmsk']}" if s.get("dmsk") else (f" dms:{s['dms']}" if s.get("dms") else ""))
    return head + " ; " + " ; ".join(" ".join(str(x) for x in op) for op in s["ops"])


def parse_scn_line(line):
    parts = [p.split() for p in line.split(";") if p.split()]
    c = parts[0]
    h = {}
    if c[4] != "-":
        for kv in c[4].split(","):
            k, v = kv.split(":")
            h[int(k)] = int(v)
    ops = []
    for p in parts[1:]:
        ops.append([p[0]] + [int(x) if x.lstrip("-").isdigit() else x for x in p[1:]])
    out = {"router": c[0], "queue": c[1], "n": int(c[2]), "disc": c[3], "hash": h,
           "rl": "" if c[5] == "-" else c[5], "ops": ops}
    if len(c) > 6 and c[6].startswith("dms:"):
        out["dms"] = int(c[6][4:])
    if len(c) > 6 and c[6].startswith("dmsk:"):
        out["dmsk"] = int(c[6][5:])
    return out


def disc_term(d):
    if d == "none":
        return "None"
    m, l = d.split(":")
    return f"(Some ({l}, {'Newest' if m == 'new' else 'Oldest'}))"


def op_term(op):
    k = op[0]
    if k == "d":
        ttl = "None" if op[3] == "-" else f"(Some {op[3]})"
        return f"ODispatch {op[1]} {op[2]} {ttl} {'true' if int(op[4]) else 'false'}"
    return {
        "g": lambda: f"OComplete {op[1]}", "f": lambda: f"OFail {op[1]}", "p": lambda: f"OFail {op[1]}",
        "k": lambda: f"OKill {op[1]}", "r": lambda: f"OResize {op[1]}", "t": lambda: f"OAdvance {op[1]}",
        "hold": lambda: "OHold", "rel": lambda: f"ORelease {op[1]}", "drain": lambda: "ODrain",
        "stop": lambda: "OStop", "q": lambda: "OQuery", "sd": lambda: f"OSetDisc {disc_term(op[1])}",
        "sw": lambda: f"OSetCount {op[1]}", "xs": lambda: f"OXStop {op[1]}", "xr": lambda: f"OXRelease {op[1]}",
        "xg": lambda: f"OXGate {op[1]}",
        "sh": lambda: "OSetHandler", "ud": lambda: "OSetHandler",
    }[k]()


def pool_sizes(s):
    ns = {s["n"]}
    for op in s["ops"]:
        if op[0] in ("r", "sw", "rel") and int(op[1]) > 0:
            ns.add(min(int(op[1]), 1000000))
    return sorted(ns)


def keys_of(s):
    return sorted({int(op[2]) for op in s["ops"] if op[0] == "d"})


def hash_requests(scns):
    """harness lines asking for hash_with_max of every (n, key) a key-persistent scenario can need"""
    need = {}
    for s in scns:
        if s["router"] != "kp":
            continue
        for n in pool_sizes(s):
            if n > 0:
                need.setdefault(n, set()).update(keys_of(s))
    reqs = [(n, sorted(ks)) for n, ks in sorted(need.items()) if ks]
    return reqs, [f"hash {n} " + " ".join(str(k) for k in ks) for n, ks in reqs]


def hash_table(reqs, answers):
    tbl = {}
    for (n, ks), ans in zip(reqs, answers):
        vals = parse_term(ans)
        for k, v in zip(ks, vals):
            tbl[(n, k)] = v
    return tbl


def cfg_term(s, htbl):
    ent = []
    if s["router"] == "kp":
        for n in pool_sizes(s):
            for k in keys_of(s):
                if (n, k) in htbl:
                    ent.append(f"({n}, {k}, {htbl[(n, k)]})")
    ctbl = "; ".join(f"({k}, {v})" for k, v in sorted(s.get("hash", {}).items()))
    mk = "mk_config"
    return (f"({mk} {ROUTERS[s['router']]} {'true' if s['queue'] == 'p' else 'false'} "
            f"[{'; '.join(ent)}] [{ctbl}])")


def scn_args(s, htbl):
    rl = "[" + "; ".join("true" if ch == "1" else "false" for ch in s.get("rl", "")) + "]"
    ops = "[" + "; ".join(op_term(o) for o in s["ops"]) + "]"
    return f"{cfg_term(s, htbl)} {s['n']} {disc_term(s['disc'])} {rl} {ops}"


def events_term(s, htbl):
    return f"scenario_events {scn_args(s, htbl)}"


def norm_event(e):
    """model events carry the cause of a drop; the implementation cannot observe it"""
    if isinstance(e, tuple) and e[0] == "EDrop":
        return ("EDrop", e[1])
    return e


def norm_events(per_op):
    """sorted per-op views; `EPortClosed` is a harness-side diagnostic (a dropped acceptance
    port), implied by the ESendErr/EDrop next to it, and not part of the view"""
    return [sorted((norm_event(e) for e in evs if not (isinstance(e, tuple) and e[0] == "EPortClosed")), key=repr)
            for evs in per_op]


def impl_events_term(per_op):
    """implementation events as a Coq term (drops get the placeholder cause CInbox)"""
    def one(e):
        if isinstance(e, tuple) and e[0] == "EDrop":
            return f"EDrop {e[1]} CInbox"
        return show_term(e).strip("()") if isinstance(e, tuple) else str(e)
    return "[" + "; ".join("[" + "; ".join(one(e) for e in evs) + "]" for evs in per_op) + "]"


# --------------------------------------------------------------------------------------
# generators

def gen_scenario(rng, router=None, length=None, style=None):
    """Structured random history: mostly dispatches and completions with bursts of one key,
    worker deaths at arbitrary points (including while the factory is held inside the capacity
    controller, which is what produces stale completions), resizes, ttl, drain/stop near the end."""
    router = router or rng.choice(["kp", "q", "sq", "rr", "cu"])
    style = style or rng.choice(["plain", "plain", "faulty", "resize", "ttl", "shed", "hold", "rate", "shutdown"])
    n = rng.choice([1, 1, 2, 2, 3, 4]) if rng.random() > 0.04 else 0
    disc = "none"
    if style == "shed" or rng.random() < 0.15:
        disc = rng.choice(["new", "old"]) + ":" + str(rng.choice([0, 1, 1, 2, 3]))
    rl = ""
    if style == "rate" or rng.random() < 0.05:
        rl = "".join(rng.choice("1110") for _ in range(rng.choice([4, 8, 16, 30])))
    nkeys = rng.choice([1, 2, 3, 6])
    keys = rng.sample(range(0, 40), nkeys)
    h = {}
    if router == "cu":
        for k in keys:
            h[k] = rng.choice([0, 1, 2, 3, 5, 7, 2**32 + 3, 2**63 + 1, 2**64 - 1, rng.randrange(0, 1000)])
    L = length or rng.choice([6, 12, 20, 30, 45])
    ops, jid, held, clock = [], 0, False, 0   # clock: seconds moved by t/hold ops; kept < 10 (ping timer)
    wmax = max(n, 1)
    wts = {"d": 40, "g": 22, "f": 2, "p": 1, "k": 3, "r": 3, "t": 2, "hold": 1, "q": 6, "sd": 1, "sw": 1,
           "drain": 0.3, "stop": 0.3}
    if style == "faulty":
        wts.update({"f": 6, "p": 4, "k": 10})
    if style == "resize":
        wts.update({"r": 10, "sw": 4})
    if style == "ttl":
        wts.update({"t": 8})
    if style == "hold":
        wts.update({"hold": 6, "k": 8, "g": 30})
    if style == "shutdown":
        wts.update({"drain": 3, "stop": 3})
    names, ww = list(wts), list(wts.values())
    for _ in range(L):
        k = rng.choices(names, ww)[0]
        if held and rng.random() < 0.25:
            k = "rel"
        if k == "d":
            jid += 1
            key = rng.choice(keys) if rng.random() > 0.1 else keys[0]
            ttl = "-"
            if style == "ttl" and rng.random() < 0.6 or rng.random() < 0.05:
                ttl = rng.choice([0, 0, 1, 2, 4])
            ops.append(["d", jid, key, ttl, 1 if rng.random() < 0.6 else 0])
        elif k in ("g", "f", "p", "k"):
            ops.append([k, rng.randrange(0, wmax + 1) if rng.random() < 0.1 else rng.randrange(0, wmax)])
        elif k in ("r", "sw"):
            m = rng.choice([0, 1, 2, 3, 4, 5])
            wmax = max(wmax, m)
            ops.append([k, m])
        elif k == "t":
            dt = rng.choice([1, 1, 2, 3])
            if clock + dt <= 9:
                clock += dt
                ops.append(["t", dt])
        elif k == "hold":
            if not held and clock + 1 <= 9:
                held = True
                clock += 1
                ops.append(["hold"])
        elif k == "rel":
            m = rng.choice([0, 0, 0, 1, 2, 3, 4])
            wmax = max(wmax, m)
            ops.append(["rel", m])
            held = False
        elif k == "sd":
            ops.append(["sd", rng.choice(["none", "new:0", "new:1", "new:2", "old:0", "old:1", "old:2"])])
        else:
            ops.append([k])
    if held:
        ops.append(["rel", 0])
    # let things finish so that terminal fates are observed
    for _ in range(rng.choice([0, 2, 6])):
        for w in range(wmax):
            ops.append(["g", w])
    if rng.random() < 0.5:
        ops.append([rng.choice(["stop", "drain"])])
        for _ in range(3):
            for w in range(wmax):
                ops.append(["g", w])
    ops.append(["q"])
    return {"router": router, "queue": rng.choice(["d", "d", "p"]), "n": n, "disc": disc, "hash": h, "rl": rl,
            "ops": ops[:80]}


# --------------------------------------------------------------------------------------
# shared evaluation: implementation run, model run, oracles (all scenarios in one pass)

def load_corpus(prop):
    d = os.path.join(ROOT, "corpus", prop)
    out = []
    if os.path.isdir(d):
        for f in sorted(os.listdir(d)):
            if f.endswith(".scn"):
                for line in open(os.path.join(d, f)):
                    line = line.strip()
                    if line and not line.startswith("#"):
                        s = parse_scn_line(line)
                        s["corpus"] = f
                        out.append(s)
    return out


def scenarios_from_replay(path):
    out = []
    for line in open(path):
        if line.startswith("scenario: "):
            out.append(parse_scn_line(line[len("scenario: "):].strip()))
    return out


def evaluate(tag, build, scns):
    """returns per scenario: dict(impl=per-op events (chronological), model=..., a13=[...], a14=[...], stale=[...])"""
    reqs, hl = hash_requests(scns)
    htbl = hash_table(reqs, run_harness(build, "eng_factory", hl)) if hl else {}
    impl_raw = run_harness(build, "eng_factory", [scn_line(s) for s in scns], shards=8)
    impl = []
    for s, line in zip(scns, impl_raw):
        if line.strip() == "EHarnessPanic":
            raise RuntimeError("harness panicked on scenario: " + scn_line(s))
        impl.append(parse_term(line))
    exprs = []
    for s, it in zip(scns, impl):
        args = scn_args(s, htbl)
        c = cfg_term(s, htbl)
        ops = "[" + "; ".join(op_term(o) for o in s["ops"]) + "]"
        evs = impl_events_term(strip_diag(it))
        common_args = f"{c} {s['n']} {disc_term(s['disc'])} {ops} {evs}"
        pre = f"{c} {s['n']} {disc_term(s['disc'])} {ops}"
        exprs.append(f"(scenario_events {args}, check_C13 {common_args}, check_C14 {common_args}, "
                     f"stale_completions {ops} {evs}, check_C13 {pre} (scenario_events {args}), "
                     f"check_C14 {pre} (scenario_events {args}))")
    vals = coq_eval(tag, IMPORTS, exprs)
    res = []
    for s, it, v in zip(scns, impl, vals):
        t = parse_term(v)
        assert t[0] == "tuple" and len(t) == 7, v[:200]
        # m13: check_C13 on the MODEL's own run (clauses validated on the model: applied to the implementation
        # only where the model's run is clean)
        res.append({"impl": strip_diag(it), "model": t[1], "a13": t[2], "a14": t[3], "stale": t[4], "m13": t[5],
                    "m14": t[6]})
    return res, htbl


def strip_diag(per_op):
    return [[e for e in evs if not (isinstance(e, tuple) and e[0] == "EPortClosed")] for evs in per_op]


def first_diff(s, impl, model):
    a, b = norm_events(impl), norm_events(model)
    for k, (x, y) in enumerate(zip(a, b)):
        if x != y:
            return k, x, y
    if len(a) != len(b):
        return min(len(a), len(b)), None, None
    return None


def model_cause(model, j):
    for evs in model:
        for e in evs:
            if isinstance(e, tuple) and e[0] == "EDrop" and e[1] == j:
                return e[2]
    return None


def job_key(s, j):
    for op in s["ops"]:
        if op[0] == "d" and int(op[1]) == j:
            return int(op[2])
    return None


def actor_wid(events, aid):
    for evs in events:
        for e in evs:
            if isinstance(e, tuple) and e[0] in ("EStart", "EEnd") and e[3] == aid:
                return e[2]
    return None


def f3_signature(s, r, wid, key=None):
    """F3: a Finished(w,k) processed after the death of the sending incarnation while the
    replacement runs key k.  Read off the IMPLEMENTATION's log: worker `wid`'s actor ended a job
    of key k while the factory was held, died before the release, and in the release op the
    replacement started a job of the same key k."""
    for pair in r["stale"]:
        w, j = pair[1], pair[2]
        if w != wid:
            continue
        k = job_key(s, j)
        if key is not None and k != key:
            continue
        # op index where j ended, then the next release op
        end_op = next((i for i, evs in enumerate(r["impl"])
                       for e in evs if isinstance(e, tuple) and e[0] == "EEnd" and e[1] == j), None)
        if end_op is None:
            continue
        rel = next((i for i in range(end_op, len(s["ops"])) if s["ops"][i][0] == "rel"), None)
        if rel is None:
            continue
        for e in r["impl"][rel]:
            if isinstance(e, tuple) and e[0] == "EStart" and e[2] == wid and job_key(s, e[1]) == k:
                return {"worker": wid, "key": k, "stale_job": j, "release_op": rel, "replacement_job": e[1]}
        # the replacement was handed a job of key k (curr_jobs has k) but lost it before its handler started
        started = {e[1] for evs in r["impl"] for e in evs if isinstance(e, tuple) and e[0] == "EStart"}
        for e in r["impl"][rel]:
            if isinstance(e, tuple) and e[0] == "EDrop" and e[1] not in started and job_key(s, e[1]) == k:
                return {"worker": wid, "key": k, "stale_job": j, "release_op": rel, "replacement_job": e[1]}
    return None


def gen_window_scenario(rng):
    """the exiting-worker window: a worker is stopped from outside and parks in its post_stop (status Stopping,
    ports closed, supervisor not yet told); jobs are routed to it meanwhile (they wait in its queue), the pool is
    resized, the post_stop returns, the replacement takes over. No `hold` here (see docs/notes/C13.md)."""
    router = rng.choice(["kp", "kp", "rr", "cu", "sq", "sq", "q"])
    n = rng.choice([1, 1, 2, 3])
    keys = rng.sample(range(0, 30), rng.choice([1, 2, 3]))
    h = {k: rng.choice([0, 1, 2, 3, 5, 2**32 + 3]) for k in keys} if router == "cu" else {}
    disc = "none" if rng.random() < 0.7 else rng.choice(["new", "old"]) + ":" + str(rng.choice([1, 2, 3]))
    ops, jid = [], 0
    def d(k=None, ttl="-"):
        nonlocal jid
        jid += 1
        ops.append(["d", jid, k if k is not None else rng.choice(keys), ttl, rng.choice([0, 1])])
    for _ in range(rng.choice([0, 1, 2])):
        d(keys[0])
        if rng.random() < 0.6:
            ops.append(["g", rng.randrange(0, n)])
    wv = rng.randrange(0, n)
    if rng.random() < 0.3:
        ops.append(["g", wv])
    ops.append(["xs", wv])
    if rng.random() < 0.3:
        ops.append(["g", wv])
    for _ in range(rng.choice([1, 2, 2, 3, 4])):
        d(keys[0] if rng.random() < 0.7 else None)
    r = rng.random()
    if r < 0.45:
        ops.append([rng.choice(["r", "sw"]), rng.choice([1, 1, 2, 3])])
    elif r < 0.55:
        ops.append(["q"])
    if rng.random() < 0.3:
        d()
    if rng.random() < 0.15:
        ops.append(["k", wv])
    ops.append(["xr", wv])
    for _ in range(rng.choice([2, 4, 6])):
        x = rng.random()
        if x < 0.5:
            ops.append(["g", rng.randrange(0, 3)])
        elif x < 0.7:
            d()
        elif x < 0.8:
            ops.append(["r", rng.choice([1, 2, 3])])
        else:
            ops.append(["q"])
    for _ in range(3):
        for w in range(3):
            ops.append(["g", w])
    if rng.random() < 0.3:
        ops.append([rng.choice(["stop", "drain"])])
        for w in range(3):
            ops.append(["g", w])
    ops.append(["q"])
    return {"router": router, "queue": rng.choice(["d", "d", "p"]), "n": n, "disc": disc, "hash": h, "rl": "", "ops": ops[:80]}


def gen_shrink_window_scenario(rng):
    """the exit window of a worker the FACTORY retires: the top worker(s) of the pool get a slow post_stop (`xg`),
    a shrink stops them (at once when idle, after the running job when busy), the pool grows again to the same
    worker ids while the retired actor still sits in its post_stop, jobs reach the new worker, and only then the
    old actor's post_stop returns (`xr`) and its termination event reaches the factory."""
    router = rng.choice(["kp", "kp", "rr", "cu", "sq", "q"])
    n = rng.choice([2, 2, 3])
    keys = rng.sample(range(0, 30), rng.choice([1, 2, 3]))
    h = {k: rng.choice([0, 1, 2, 3, 5, 2**32 + 3]) for k in keys} if router == "cu" else {}
    ops, jid = [], 0
    def d(k=None):
        nonlocal jid
        jid += 1
        ops.append(["d", jid, k if k is not None else rng.choice(keys), "-", rng.choice([0, 1])])
    for _ in range(rng.choice([0, 0, 1, 2, 3])):
        d()
        if rng.random() < 0.4:
            ops.append(["g", rng.randrange(0, n)])
    m = rng.randrange(1, n)                      # new size: workers m..n-1 are retired
    gated = [w for w in range(m, n) if rng.random() < 0.85]
    for w in gated:
        ops.append(["xg", w])
    ops.append([rng.choice(["r", "r", "sw"]), m])
    if rng.random() < 0.4:
        for w in range(m, n):                    # a busy retired worker goes after its running job
            if rng.random() < 0.7:
                ops.append(["g", w])
    if rng.random() < 0.2:
        d()
    ops.append([rng.choice(["r", "r", "sw"]), rng.choice([n, n, n + 1])])
    for _ in range(rng.choice([1, 2, 3, 4])):
        d(keys[0] if rng.random() < 0.6 else None)
    if rng.random() < 0.3:
        ops.append(["g", rng.randrange(0, n)])
    if rng.random() < 0.2:
        ops.append(["q"])
    for w in gated:
        if rng.random() < 0.9:
            ops.append(["xr", w])
    for _ in range(rng.choice([2, 4, 6])):
        x = rng.random()
        if x < 0.45:
            d(keys[0] if rng.random() < 0.5 else None)
        elif x < 0.8:
            ops.append(["g", rng.randrange(0, n + 1)])
        elif x < 0.87:
            ops.append(["k", rng.randrange(0, n)])
        else:
            ops.append(["q"])
    ops.append(["q"])
    for w in gated:
        ops.append(["xr", w])
    for _ in range(3):
        for w in range(n + 1):
            ops.append(["g", w])
    if rng.random() < 0.25:
        ops.append([rng.choice(["stop", "drain"])])
        for w in range(n + 1):
            ops.append(["g", w])
    ops.append(["q"])
    return {"router": router, "queue": rng.choice(["d", "d", "p"]), "n": n, "disc": "none", "hash": h, "rl": "", "ops": ops[:80]}


def gen_backlog_scenario(rng):
    """factory-queueing routers with a real backlog: every worker busy, two or more jobs of one key (and others)
    waiting in the factory queue -- some of them with a ttl that runs out while they wait --, completions in a
    random order (so that with sticky routing the queue head's key is sometimes running elsewhere when a worker
    frees up), a worker killed / stopped while busy, then further jobs and a settled-point query: whoever is
    idle then must get the work."""
    router = rng.choice(["sq", "sq", "sq", "q", "q"])
    n = rng.choice([2, 2, 3])
    rl = "" if rng.random() < 0.85 else "".join(rng.choice("1110") for _ in range(rng.choice([8, 16, 30])))
    ops, jid, clock = [], 0, 0
    fresh = iter(rng.sample(range(0, 60), 30))
    def d(k, ttl="-"):
        nonlocal jid
        jid += 1
        ops.append(["d", jid, k, ttl, rng.choice([0, 1])])
    running = [next(fresh) for _ in range(n)]
    for k in running:
        d(k)
    waiting = [next(fresh) for _ in range(rng.choice([1, 1, 2]))]
    if rng.random() < 0.25:
        waiting.append(rng.choice(running))
    for _ in range(rng.choice([2, 2, 3, 4, 5])):
        d(rng.choice(waiting), rng.choice([1, 2]) if rng.random() < 0.2 else "-")
    for _ in range(rng.choice([1, 2, 3, 4, 6])):
        x = rng.random()
        if x < 0.62:
            ops.append(["g", rng.randrange(0, n)])
        elif x < 0.72:
            ops.append([rng.choice(["k", "k", "f", "xs"]), rng.randrange(0, n)])
            if ops[-1][0] == "xs":
                ops.append(["xr", ops[-1][1]])
        elif x < 0.8 and clock + 3 <= 9:
            dt = rng.choice([1, 2, 3])
            clock += dt
            ops.append(["t", dt])
        elif x < 0.9:
            d(rng.choice(waiting + running))
        else:
            ops.append(["q"])
    for _ in range(rng.choice([1, 1, 2, 3])):
        d(next(fresh) if rng.random() < 0.7 else rng.choice(waiting))
        if rng.random() < 0.5:
            ops.append(["q"])
    ops.append(["q"])
    for _ in range(rng.choice([1, 3])):
        order = list(range(n))
        rng.shuffle(order)
        for w in order:
            ops.append(["g", w])
        if rng.random() < 0.5:
            d(next(fresh))
            ops.append(["q"])
    if rng.random() < 0.5:
        # the backlog is gone: a worker dies by termination (kill / stop from outside) while busy and the factory
        # queue is empty; its replacement must be a routing target again
        for _ in range(2):
            for w in range(n):
                ops.append(["g", w])
        for _ in range(rng.choice([1, n])):
            d(next(fresh))
        wv = rng.randrange(0, n)
        ops.append([rng.choice(["k", "k", "xs", "f"]), wv])
        if ops[-1][0] == "xs":
            ops += [["g", wv], ["xr", wv]]
        for _ in range(rng.choice([n, n + 1])):
            d(next(fresh))
        ops.append(["q"])
    for _ in range(4):
        for w in range(n):
            ops.append(["g", w])
    ops.append(["q"])
    return {"router": router, "queue": rng.choice(["d", "d", "p"]), "n": n, "disc": "none", "hash": {}, "rl": rl, "ops": ops[:90]}


def gen_cursor_scenario(rng):
    """worker-queueing routers across a shrink: k jobs are routed (the round-robin cursor ends anywhere in the old
    pool, in particular at or beyond the new size), everything completes, the pool shrinks, further jobs arrive and a
    settled-point query follows: they must run on the workers that are left, not wait in the factory queue."""
    router = rng.choice(["rr", "rr", "rr", "kp", "cu"])
    n = rng.choice([2, 3, 3, 4, 5])
    keys = rng.sample(range(0, 40), rng.choice([2, 3, 6]))
    h = {k: rng.choice([0, 1, 2, 3, 5, 7, 2**32 + 3]) for k in keys} if router == "cu" else {}
    ops, jid = [], 0
    def d():
        nonlocal jid
        jid += 1
        ops.append(["d", jid, rng.choice(keys), "-", rng.choice([0, 1])])
    for _ in range(rng.randrange(1, 2 * n + 1)):
        d()
    for _ in range(rng.choice([2, 3])):
        for w in range(n):
            ops.append(["g", w])
    m = rng.randrange(1, n)
    ops.append([rng.choice(["r", "r", "sw"]), m])
    for _ in range(rng.choice([1, 2, m + 1])):
        d()
    ops.append(["q"])
    for _ in range(rng.choice([1, 2])):
        for w in range(n):
            ops.append(["g", w])
        if rng.random() < 0.5:
            d()
            ops.append(["q"])
    if rng.random() < 0.3:
        ops.append(["r", rng.choice([n, n + 1])])
        d()
        d()
        ops.append(["q"])
    for _ in range(3):
        for w in range(n + 1):
            ops.append(["g", w])
    ops.append(["q"])
    return {"router": router, "queue": rng.choice(["d", "d", "p"]), "n": n, "disc": "none", "hash": h, "rl": "", "ops": ops[:80]}


def gen_shed_update_scenario(rng):
    """discard settings changed at runtime under a factory-queueing router: a worker is busy with key k, the limit is
    set (UpdateSettings), then more than limit + 1 jobs of key k arrive (sticky: they are parked at that worker, whose
    private queue has no limit) next to jobs of other keys; load shedding may only hit the factory queue."""
    router = rng.choice(["sq", "sq", "sq", "q"])
    n = rng.choice([1, 2, 2, 3])
    limit = rng.choice([0, 1, 1, 2])
    k0, k1, k2 = rng.sample(range(0, 40), 3)
    ops, jid = [], 0
    def d(k):
        nonlocal jid
        jid += 1
        ops.append(["d", jid, k, "-", rng.choice([0, 1, 1])])
    d(k0)
    if rng.random() < 0.4:
        d(k1)
    ops.append(["sd", rng.choice(["new", "old"]) + ":" + str(limit)])
    for _ in range(limit + rng.choice([2, 3])):
        d(k0 if rng.random() < 0.85 else k2)
    ops.append(["q"])
    for _ in range(rng.choice([2, 4])):
        x = rng.random()
        if x < 0.5:
            ops.append(["g", rng.randrange(0, n)])
        elif x < 0.8:
            d(rng.choice([k0, k0, k1, k2]))
        else:
            ops.append(["sd", rng.choice(["none", "new:1", "old:1", "new:0"])])
    for _ in range(6):
        for w in range(n):
            ops.append(["g", w])
    ops.append(["q"])
    return {"router": router, "queue": rng.choice(["d", "d", "p"]), "n": n, "disc": rng.choice(["none", "none", "new:3"]),
            "hash": {}, "rl": "", "ops": ops[:80]}


def gen_long_scenario(rng):
    """long-running factories: the clock passes the 10 s ping period several times (DoPings -> FactoryPing ->
    WorkerPong), a dead man's switch in detection-only mode watches the workers, and UpdateSettings replaces the
    dead man's switch / capacity controller / lifecycle hooks / stats layer at runtime. None of this may touch a job.
    No `drain` here: is_drained is re-evaluated after every ping/pong message, which the model does not carry."""
    s = gen_scenario(rng, style=rng.choice(["plain", "faulty", "resize", "ttl", "shed", "rate"]))
    ops = [op for op in s["ops"] if op[0] not in ("drain", "t", "hold", "rel")]
    out, clock = [], 0
    for op in ops:
        out.append(op)
        r = rng.random()
        if r < 0.18 and clock < 34:
            dt = rng.choice([3, 4, 6, 11])
            clock += dt
            out.append(["t", dt])
        elif r < 0.26:
            out.append(["ud", rng.choice(["dms:3", "dms:7", "dms:off", "ctl", "hooks", "hooksoff", "stats", "statsoff"])])
    s["ops"] = out[:80]
    if rng.random() < 0.6:
        s["dms"] = rng.choice([3, 7])
    return s


def oracle_only(s):
    """scenarios whose behaviour the model does not carry (a dead man's switch that KILLS stuck workers): the
    implementation's history is judged by the oracles alone, there is no view comparison"""
    return bool(s.get("dmsk")) or any(op[0] == "ud" and str(op[1]).startswith("dmsk:") for op in s["ops"])


def gen_stuck_scenario(rng):
    """a dead man's switch with kill_worker = true: a worker that is busy (its gate stays closed) when a ping goes
    out and still busy `timeout` seconds later is killed by the factory; its running job is lost with it, the
    replacement inherits the queue (and is pinged at once, so a busy replacement is killed again later)."""
    router = rng.choice(["kp", "rr", "q", "sq", "cu"])
    n = rng.choice([1, 1, 2])
    keys = rng.sample(range(0, 20), rng.choice([1, 2, 3]))
    h = {k: rng.choice([0, 1, 2, 3]) for k in keys} if router == "cu" else {}
    ops, jid = [], 0
    def d():
        nonlocal jid
        jid += 1
        ops.append(["d", jid, rng.choice(keys), "-", rng.choice([0, 1])])
    for _ in range(rng.choice([2, 3, 5])):
        d()
    ops.append(["t", 11])
    for _ in range(rng.choice([1, 2, 3])):
        ops.append(["t", rng.choice([2, 4])])
        if rng.random() < 0.5:
            d()
        if rng.random() < 0.4:
            ops.append(["g", rng.randrange(0, n)])
        if rng.random() < 0.2:
            ops.append(["q"])
    if rng.random() < 0.3:
        ops.append(["ud", "dms:off"])
    for _ in range(4):
        for w in range(n):
            ops.append(["g", w])
    if rng.random() < 0.4:
        ops.append(["stop"])
        for w in range(n):
            ops.append(["g", w])
    ops.append(["q"])
    return {"router": router, "queue": rng.choice(["d", "p"]), "n": n, "disc": rng.choice(["none", "none", "new:2", "old:2"]),
            "hash": h, "rl": "", "dmsk": 3, "ops": ops[:80]}


def gen_empty_pool_scenario(rng):
    """worker-queueing routers started with an empty pool: everything backlogs into the factory queue (also with
    ttl, load shedding, priorities), then the pool grows (once or twice), shrinks below existing slots and grows again"""
    s = gen_scenario(rng, router=rng.choice(["kp", "rr", "cu", "kp"]), style=rng.choice(["ttl", "shed", "plain"]))
    s["n"] = 0
    head = []
    jid = 2000
    for _ in range(rng.choice([2, 3, 5])):
        jid += 1
        head.append(["d", jid, rng.randrange(0, 12), rng.choice(["-", "-", 0, 1, 2]), rng.choice([0, 1])])
        if rng.random() < 0.3:
            head.append(["t", 1])
    head.append([rng.choice(["r", "sw"]), rng.choice([1, 2, 3])])
    head.append(["r", rng.choice([1, 2, 4])])
    head.append(["r", 1])
    head.append(["r", rng.choice([2, 3])])
    body = [op for op in s["ops"] if not (op[0] == "t")]
    s["ops"] = (head + body)[:80]
    return s


def gen_settings_scenario(rng):
    """UpdateSettings at runtime (new discard handler, discard settings variant / mode, worker count) on
    worker-queueing routers, followed by discards out of WORKER queues: load shedding, ttl expiry, shutdown."""
    router = rng.choice(["kp", "rr", "cu", "sq", "kp", "rr"])
    n = rng.choice([1, 1, 2])
    keys = rng.sample(range(0, 30), rng.choice([1, 2]))
    h = {k: rng.choice([0, 1, 2, 3]) for k in keys} if router == "cu" else {}
    disc = rng.choice(["none", "new:1", "new:2", "old:1", "old:2", "new:3"])
    ops, jid, clock = [], 0, 0
    def d(ttl="-"):
        nonlocal jid
        jid += 1
        ops.append(["d", jid, rng.choice(keys), ttl, rng.choice([0, 1])])
    for _ in range(rng.choice([1, 2, 3])):
        d()
    for _ in range(rng.choice([1, 2])):
        ops.append([rng.choice(["sh", "sh", "sd"])] if rng.random() < 0.7 else ["sw", rng.choice([1, 2, 3])])
        if ops[-1][0] == "sd":
            ops[-1].append(rng.choice(["none", "new:0", "new:1", "new:2", "old:0", "old:1", "old:2"]))
        for _ in range(rng.choice([2, 3, 5])):
            d(rng.choice(["-", "-", 0, 1]))
        if rng.random() < 0.5 and clock < 8:
            clock += 2
            ops.append(["t", 2])
        if rng.random() < 0.6:
            ops.append(["g", rng.randrange(0, n)])
    x = rng.random()
    if x < 0.5:
        ops.append(["stop"])
    elif x < 0.7:
        ops.append(["drain"])
    for _ in range(3):
        for w in range(3):
            ops.append(["g", w])
    ops.append(["q"])
    return {"router": router, "queue": rng.choice(["d", "p"]), "n": n, "disc": disc, "hash": h, "rl": "", "ops": ops[:80]}


def scn_stats(chk, s, r):
    chk.count("router." + s["router"])
    chk.count("queue." + s["queue"])
    chk.count("disc." + s["disc"].split(":")[0])
    if s.get("rl"):
        chk.count("rate_limited_scenarios")
    for op in s["ops"]:
        chk.count("op." + op[0])
    for evs in r["impl"]:
        for e in evs:
            if isinstance(e, tuple):
                chk.count("ev." + e[0] + ("." + str(e[2]) if e[0] == "EDisc" else ""))
    if r["stale"]:
        chk.count("histories_with_stale_completion")


def nontrivial(s, r):
    """a scenario that reached the phase the properties are about: at least two jobs started and
    at least one of {death, resize, hold, discard, ttl} happened"""
    starts = sum(1 for evs in r["impl"] for e in evs if isinstance(e, tuple) and e[0] == "EStart")
    special = any(op[0] in ("k", "f", "p", "r", "sw", "hold", "t", "stop", "drain") for op in s["ops"])
    return starts >= 2 and special
