"""Shared by C13 and C14: scenario representation for the factory engine, the harness line and
the Coq term of a scenario, event normalisation, and the executable oracles' python helpers.

A scenario is a dict:
  {"router": "kp|q|sq|rr|cu", "queue": "d|p", "n": int, "disc": "none|new:L|old:L",
   "hash": {key: value}, "rl": "" | "1011", "ops": [[op, args...], ...]}
"""
from common import *

ROUTERS = {"kp": "RKeyPersistent", "q": "RQueuer", "sq": "RSticky", "rr": "RRoundRobin", "cu": "RCustom"}
IMPORTS = "Factory.Model Factory.Scenario Factory.Oracle"


def scn_line(s):
    h = ",".join(f"{k}:{v}" for k, v in sorted(s.get("hash", {}).items())) or "-"
    rl = s.get("rl") or "-"
    head = f"{s['router']} {s['queue']} {s['n']} {s['disc']} {h} {rl}"
    return head + " ; " + " ; ".join(" ".join(str(x) for x in op) for op in s["ops"])


def parse_scn_line(line):
    parts = [p.split() for p in line.split(";") if p.split()]
    c = parts[0]
    h = {}
    if c[4] != "-":
        for kv in c[4].split(","):
            k, v = kv.split(":")
            h[int(k)] = int(v)
    ops = []
    for p in parts[1:]:
        ops.append([p[0]] + [x if x == "-" or ":" in x or x == "none" else int(x) for x in p[1:]])
    return {"router": c[0], "queue": c[1], "n": int(c[2]), "disc": c[3], "hash": h,
            "rl": "" if c[5] == "-" else c[5], "ops": ops}


def disc_term(d):
    if d == "none":
        return "None"
    m, l = d.split(":")
    return f"(Some ({l}, {'Newest' if m == 'new' else 'Oldest'}))"


def op_term(op):
    k = op[0]
    if k == "d":
        ttl = "None" if op[3] == "-" else f"(Some {op[3]})"
        return f"ODispatch {op[1]} {op[2]} {ttl} {'true' if int(op[4]) else 'false'}"
    return {
        "g": lambda: f"OComplete {op[1]}", "f": lambda: f"OFail {op[1]}", "p": lambda: f"OFail {op[1]}",
        "k": lambda: f"OKill {op[1]}", "r": lambda: f"OResize {op[1]}", "t": lambda: f"OAdvance {op[1]}",
        "hold": lambda: "OHold", "rel": lambda: f"ORelease {op[1]}", "drain": lambda: "ODrain",
        "stop": lambda: "OStop", "q": lambda: "OQuery", "sd": lambda: f"OSetDisc {disc_term(op[1])}",
        "sw": lambda: f"OSetCount {op[1]}",
    }[k]()


def pool_sizes(s):
    ns = {s["n"]}
    for op in s["ops"]:
        if op[0] in ("r", "sw", "rel") and int(op[1]) > 0:
            ns.add(min(int(op[1]), 1000000))
    return sorted(ns)


def keys_of(s):
    return sorted({int(op[2]) for op in s["ops"] if op[0] == "d"})


def hash_requests(scns):
    """harness lines asking for hash_with_max of every (n, key) a key-persistent scenario can need"""
    need = {}
    for s in scns:
        if s["router"] != "kp":
            continue
        for n in pool_sizes(s):
            if n > 0:
                need.setdefault(n, set()).update(keys_of(s))
    reqs = [(n, sorted(ks)) for n, ks in sorted(need.items()) if ks]
    return reqs, [f"hash {n} " + " ".join(str(k) for k in ks) for n, ks in reqs]


def hash_table(reqs, answers):
    tbl = {}
    for (n, ks), ans in zip(reqs, answers):
        vals = parse_term(ans)
        for k, v in zip(ks, vals):
            tbl[(n, k)] = v
    return tbl


def cfg_term(s, htbl):
    ent = []
    if s["router"] == "kp":
        for n in pool_sizes(s):
            for k in keys_of(s):
                if (n, k) in htbl:
                    ent.append(f"({n}, {k}, {htbl[(n, k)]})")
    ctbl = "; ".join(f"({k}, {v})" for k, v in sorted(s.get("hash", {}).items()))
    return (f"(mk_config {ROUTERS[s['router']]} {'true' if s['queue'] == 'p' else 'false'} "
            f"[{'; '.join(ent)}] [{ctbl}])")


def scn_args(s, htbl):
    rl = "[" + "; ".join("true" if ch == "1" else "false" for ch in s.get("rl", "")) + "]"
    ops = "[" + "; ".join(op_term(o) for o in s["ops"]) + "]"
    return f"{cfg_term(s, htbl)} {s['n']} {disc_term(s['disc'])} {rl} {ops}"


def events_term(s, htbl):
    return f"scenario_events {scn_args(s, htbl)}"


def norm_event(e):
    """model events carry the cause of a drop; the implementation cannot observe it"""
    if isinstance(e, tuple) and e[0] == "EDrop":
        return ("EDrop", e[1])
    return e


def norm_events(per_op):
    """sorted per-op views; `EPortClosed` is a harness-side diagnostic (a dropped acceptance
    port), implied by the ESendErr/EDrop next to it, and not part of the view"""
    return [sorted((norm_event(e) for e in evs if not (isinstance(e, tuple) and e[0] == "EPortClosed")), key=repr)
            for evs in per_op]


def impl_events_term(per_op):
    """implementation events as a Coq term (drops get the placeholder cause CInbox)"""
    def one(e):
        if isinstance(e, tuple) and e[0] == "EDrop":
            return f"EDrop {e[1]} CInbox"
        return show_term(e).strip("()") if isinstance(e, tuple) else str(e)
    return "[" + "; ".join("[" + "; ".join(one(e) for e in evs) + "]" for evs in per_op) + "]"


# --------------------------------------------------------------------------------------
# generators

def gen_scenario(rng, router=None, length=None, style=None):
    """Structured random history: mostly dispatches and completions with bursts of one key,
    worker deaths at arbitrary points (including while the factory is held inside the capacity
    controller, which is what produces stale completions), resizes, ttl, drain/stop near the end."""
    router = router or rng.choice(["kp", "q", "sq", "rr", "cu"])
    style = style or rng.choice(["plain", "plain", "faulty", "resize", "ttl", "shed", "hold", "rate", "shutdown"])
    n = rng.choice([1, 1, 2, 2, 3, 4]) if rng.random() > 0.04 else 0
    disc = "none"
    if style == "shed" or rng.random() < 0.15:
        disc = rng.choice(["new", "old"]) + ":" + str(rng.choice([0, 1, 1, 2, 3]))
    rl = ""
    if style == "rate" or rng.random() < 0.05:
        rl = "".join(rng.choice("1110") for _ in range(rng.choice([4, 8, 16, 30])))
    nkeys = rng.choice([1, 2, 3, 6])
    keys = rng.sample(range(0, 40), nkeys)
    h = {}
    if router == "cu":
        for k in keys:
            h[k] = rng.choice([0, 1, 2, 3, 5, 7, 2**32 + 3, 2**63 + 1, 2**64 - 1, rng.randrange(0, 1000)])
    L = length or rng.choice([6, 12, 20, 30, 45])
    ops, jid, held, clock = [], 0, False, 0   # clock: seconds moved by t/hold ops; kept < 10 (ping timer)
    wmax = max(n, 1)
    wts = {"d": 40, "g": 22, "f": 2, "p": 1, "k": 3, "r": 3, "t": 2, "hold": 1, "q": 6, "sd": 1, "sw": 1,
           "drain": 0.3, "stop": 0.3}
    if style == "faulty":
        wts.update({"f": 6, "p": 4, "k": 10})
    if style == "resize":
        wts.update({"r": 10, "sw": 4})
    if style == "ttl":
        wts.update({"t": 8})
    if style == "hold":
        wts.update({"hold": 6, "k": 8, "g": 30})
    if style == "shutdown":
        wts.update({"drain": 3, "stop": 3})
    names, ww = list(wts), list(wts.values())
    for _ in range(L):
        k = rng.choices(names, ww)[0]
        if held and rng.random() < 0.25:
            k = "rel"
        if k == "d":
            jid += 1
            key = rng.choice(keys) if rng.random() > 0.1 else keys[0]
            ttl = "-"
            if style == "ttl" and rng.random() < 0.6 or rng.random() < 0.05:
                ttl = rng.choice([0, 0, 1, 2, 4])
            ops.append(["d", jid, key, ttl, 1 if rng.random() < 0.6 else 0])
        elif k in ("g", "f", "p", "k"):
            ops.append([k, rng.randrange(0, wmax + 1) if rng.random() < 0.1 else rng.randrange(0, wmax)])
        elif k in ("r", "sw"):
            m = rng.choice([0, 1, 2, 3, 4, 5])
            wmax = max(wmax, m)
            ops.append([k, m])
        elif k == "t":
            dt = rng.choice([1, 1, 2, 3])
            if clock + dt <= 9:
                clock += dt
                ops.append(["t", dt])
        elif k == "hold":
            if not held and clock + 1 <= 9:
                held = True
                clock += 1
                ops.append(["hold"])
        elif k == "rel":
            m = rng.choice([0, 0, 0, 1, 2, 3, 4])
            wmax = max(wmax, m)
            ops.append(["rel", m])
            held = False
        elif k == "sd":
            ops.append(["sd", rng.choice(["none", "new:0", "new:1", "new:2", "old:0", "old:1", "old:2"])])
        else:
            ops.append([k])
    if held:
        ops.append(["rel", 0])
    # let things finish so that terminal fates are observed
    for _ in range(rng.choice([0, 2, 6])):
        for w in range(wmax):
            ops.append(["g", w])
    if rng.random() < 0.5:
        ops.append([rng.choice(["stop", "drain"])])
        for _ in range(3):
            for w in range(wmax):
                ops.append(["g", w])
    ops.append(["q"])
    return {"router": router, "queue": rng.choice(["d", "d", "p"]), "n": n, "disc": disc, "hash": h, "rl": rl,
            "ops": ops[:80]}
