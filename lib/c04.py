"""C04 — failures contained, reported to the supervisor exactly once (DESIGN.md 4/C04)."""
from loopsim import *


def run(chk):
    return run_loop_check(chk, lambda n, links, t: f"check_C04 {links} {t}", "mixed",
                          "supervision event missing, duplicated, misclassified or sent to a stranger")
