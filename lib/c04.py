"""C04 — failures contained, reported to the supervisor exactly once (DESIGN.md 4/C04)."""
from loopsim import *


def run(chk):
    # `links` = "<links> <locals>" (loopsim.links_coq).  check_C04: at most once + classification + no
    # strangers on every trace; check_C04_complete: at least once, on settled traces, judged against
    # the model's own trace of the same scenario (loopsim.compare_build).
    return run_loop_check(chk, lambda n, links, t: f"check_C04 {links} {t}", "mixed",
                          "supervision event missing, duplicated, misclassified or sent to a stranger",
                          complete_fn=lambda links, t: f"check_C04_complete {links} {t}")
