"""C04 — failures contained, reported to the supervisor exactly once (DESIGN.md 4/C04)."""
from loopsim import *


def run(chk):
    # `links` = "<links> <locals>" (loopsim.links_coq).  check_C04: at most once + classification + no
    # strangers on every trace; check_C04_complete: at least once, on settled traces, judged against
    # the model's own trace of the same scenario (loopsim.compare_build).
    # check_C04_join (also on settled traces): a failed callback leaves a normally completed join handle.
    # check_C04_terminal_first: a terminal event already sent is handled before any later user message.
    # check_C04_started_first: ActorStarted(c) is handled before the terminal event about c if post_start succeeded.
    lo = lambda links: (links.split("] [")[0] + "]") if "] [" in links else links
    return run_loop_check(chk, lambda n, links, t: f"andb (check_C04 {links} {t}) (andb (check_C04_terminal_first {lo(links)} {t}) (check_C04_started_first {lo(links)} {t}))", "mixed",
                          "supervision event missing, duplicated, misclassified or sent to a stranger",
                          complete_fn=lambda links, t: f"andb (check_C04_complete {links} {t}) (andb (check_C04_join (List.length {links}) {t}) (check_C04_join_cancel (List.length {links}) {t}))")
