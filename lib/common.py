"""Shared machinery for all property checks (see DESIGN.md section 2.7).

Every check:  gates + coq build of Properties/<id>.vo  ->  harness build against /repo's
working tree  ->  cases through the implementation and through the Coq model  ->
view diff + executable oracle on implementation outputs  ->  verdict + evidence.
"""
import hashlib
import json
import os
import random
import re
import subprocess
import sys
import time
from concurrent.futures import ThreadPoolExecutor

ROOT = os.path.dirname(os.path.dirname(os.path.abspath(__file__)))
COQ = os.path.join(ROOT, "coq")
HARNESS = os.environ.get("RV_HARNESS") or os.path.join(ROOT, "harness")  # RV_HARNESS: scratch copy for mutation experiments
WORK = os.path.join(ROOT, "work")
OUT = os.environ.get("RV_OUT") or ROOT   # RV_OUT: where evidence/ and replays/ go (mutation experiments use a scratch dir)
REPO = "/repo"
NCPU = os.cpu_count() or 4

STD_AXIOM_ALLOW = {
    # standard-library axioms that may appear (named in DESIGN.md section 6); none expected
    "functional_extensionality_dep", "Eqdep.Eq_rect_eq.eq_rect_eq", "JMeq_eq",
    "proof_irrelevance", "classic",
}

GATE_RE = re.compile(
    r"\b(Admitted|admit|Axiom|Axioms|Parameter|Parameters|Conjecture|Hypothesis|Variable|"
    r"Variables|Hypotheses|Admit Obligations)\b|Unset Guard|bypass_check|type-in-type|"
    r"impredicative-set|Unset Positivity|Unset Universe")


def sh(cmd, timeout=1800, cwd=None, env=None, stdin=None, merge_stderr=True):
    e = dict(os.environ)
    e.setdefault("CARGO_NET_OFFLINE", "true")
    if env:
        e.update(env)
    try:
        p = subprocess.run(cmd, shell=isinstance(cmd, str), cwd=cwd, env=e, input=stdin,
                           stdout=subprocess.PIPE,
                           stderr=subprocess.STDOUT if merge_stderr else subprocess.PIPE,
                           timeout=timeout, text=True)
        if not merge_stderr and p.returncode != 0:
            return p.returncode, p.stdout + "\n[stderr]\n" + (p.stderr or "")[-3000:]
        return p.returncode, p.stdout
    except subprocess.TimeoutExpired as ex:
        out = ex.stdout or ""
        if isinstance(out, bytes):
            out = out.decode(errors="replace")
        return 124, out + "\n[timeout]"


# --------------------------------------------------------------------------------------
# Coq side

def strip_comments(src):
    out, depth, i = [], 0, 0
    while i < len(src):
        if src.startswith("(*", i):
            depth += 1
            i += 2
        elif src.startswith("*)", i) and depth:
            depth -= 1
            i += 2
        else:
            if not depth:
                out.append(src[i])
            i += 1
    return "".join(out)


def gate_grep(only=None):
    """Forbidden constructs in the development (comments stripped); `only` restricts the scan to
    the given files (relative to coq/), i.e. the transitive dependencies of one property, so that
    another property's work in progress cannot fail this one.
    `Variable`/`Hypothesis` are allowed only inside a Section."""
    hits = []
    only = None if only is None else {os.path.normpath(x) for x in only}
    for d, _, fs in os.walk(COQ):
        if "/work" in d:
            continue
        for f in fs:
            if not f.endswith(".v"):
                continue
            p = os.path.join(d, f)
            if only is not None and os.path.normpath(os.path.relpath(p, COQ)) not in only:
                continue
            src = strip_comments(open(p).read())
            depth = 0
            for n, line in enumerate(src.split("\n"), 1):
                if re.match(r"\s*Section\b", line):
                    depth += 1
                if re.match(r"\s*End\b", line) and depth:
                    depth -= 1
                m = GATE_RE.search(line)
                if m:
                    w = m.group(0)
                    if w in ("Variable", "Variables", "Hypothesis", "Hypotheses") and depth > 0:
                        continue
                    hits.append(f"{os.path.relpath(p, ROOT)}:{n}: {line.strip()[:120]}")
    return hits


def coq_deps(target_v):
    """Transitive .v dependencies (inside the development) of a file, via coqdep."""
    rc, out = sh("coqdep -Q . RV $(find . -name '*.v' -not -path './work/*')", cwd=COQ)
    deps = {}
    for line in out.split("\n"):
        if ":" not in line:
            continue
        lhs, rhs = line.split(":", 1)
        tgt = [t for t in lhs.split() if t.endswith(".vo")]
        if not tgt:
            continue
        key = os.path.normpath(tgt[0])[:-1]  # .v
        deps[key] = [os.path.normpath(x)[:-1] for x in rhs.split()
                     if x.endswith(".vo") and not x.startswith("/")]
    seen, todo = [], [os.path.normpath(target_v)]
    while todo:
        x = todo.pop()
        if x in seen:
            continue
        seen.append(x)
        todo.extend(deps.get(x, []))
    return seen


def count_obligations(files):
    n = 0
    names = []
    for f in files:
        src = strip_comments(open(os.path.join(COQ, f)).read())
        for m in re.finditer(r"^\s*(Theorem|Lemma|Corollary|Example|Proposition|Fact|Remark)\s+([A-Za-z0-9_']+)",
                             src, re.M):
            n += 1
            names.append(m.group(2))
    return n, names


def coq_build(prop):
    """make Properties/<prop>.vo; returns dict(ok, log, files, obligations, assumptions)."""
    t0 = time.time()
    tgt = f"Properties/{prop}.vo"
    rc, out = sh(f"make -j{NCPU} {tgt}", cwd=COQ, timeout=3000)
    res = {"ok": rc == 0, "log": out[-4000:], "wall_s": round(time.time() - t0, 1)}
    files = coq_deps(f"Properties/{prop}.v")
    res["files"] = files
    res["obligations"], res["names"] = count_obligations(files)
    res["discharged"] = res["obligations"] if rc == 0 else 0
    # Print Assumptions output of the property file
    res["assumptions"] = []
    res["closed"] = 0
    logp = os.path.join(COQ, f"Properties/{prop}.log")
    if rc == 0 and os.path.exists(logp):
        txt = open(logp).read()
        res["closed"] = txt.count("Closed under the global context")
        in_ax = False
        for line in txt.split("\n"):
            if line.startswith("Axioms:"):
                in_ax = True
                continue
            if in_ax:
                m = re.match(r"^([A-Za-z_][\w.']*)\s*:", line)
                if m:
                    res["assumptions"].append(m.group(1))
                elif line and not line.startswith(" "):
                    in_ax = False
    res["n_print_assumptions"] = len(re.findall(
        r"^\s*Print Assumptions", strip_comments(open(os.path.join(COQ, f"Properties/{prop}.v")).read()), re.M))
    res["n_property_theorems"] = len(re.findall(
        r"^\s*Theorem\s", strip_comments(open(os.path.join(COQ, f"Properties/{prop}.v")).read()), re.M))
    return res


COQ_PRELUDE = ("Import ListNotations.\nSet Printing Width 1000000.\nSet Printing Depth 1000000.\n"
               "Unset Printing Records.\n")


def _coq_eval_shard(args):
    k, tag, imports, scope, exprs = args
    # one work directory per process: two runs of the same check (e.g. a mutation experiment next
    # to a normal run) must never write each other's case files
    d = os.path.join(WORK, f"{tag}.{os.getpid()}")
    os.makedirs(d, exist_ok=True)
    path = os.path.join(d, f"cases_{k}.v")
    with open(path, "w") as f:
        f.write("From Coq Require Import List NArith ZArith Bool String.\n")
        f.write(f"From RV Require Import {imports}.\n")
        f.write(COQ_PRELUDE)
        if scope:
            f.write(f"Local Open Scope {scope}.\n")
        for e in exprs:
            f.write(f"Eval vm_compute in ({e}).\n")
    rc, out = sh(["coqc", "-noglob", "-Q", COQ, "RV", "-Q", d, f"W{tag}", path], timeout=1500)
    for ext in (".vo", ".vok", ".vos", ".glob", ".v"):
        try:
            if rc == 0 or ext != ".v":
                os.remove(path[:-2] + ext)
        except OSError:
            pass
    try:
        os.remove(os.path.join(d, f".cases_{k}.aux"))
    except OSError:
        pass
    try:
        os.rmdir(d)
    except OSError:
        pass
    if rc != 0:
        raise RuntimeError(f"coqc failed on {path}:\n{out[-3000:]}")
    vals = []
    cur = None
    for line in out.split("\n"):
        if line.startswith("     = "):
            cur = [line[7:]]
        elif line.startswith("     : "):
            if cur is not None:
                vals.append(" ".join(cur))
                cur = None
        elif cur is not None:
            cur.append(line.strip())
    if len(vals) != len(exprs):
        raise RuntimeError(f"coqc output count mismatch in {path}: {len(vals)} vs {len(exprs)}\n{out[-2000:]}")
    return vals


def coq_eval(tag, imports, exprs, scope="N_scope", shards=None):
    """Evaluate Coq expressions with vm_compute, sharded over cores; returns printed values."""
    if not exprs:
        return []
    shards = shards or min(NCPU, max(1, len(exprs) // 20))
    chunks = [exprs[i::shards] for i in range(shards)]
    with ThreadPoolExecutor(max_workers=shards) as ex:
        res = list(ex.map(_coq_eval_shard,
                          [(k, tag, imports, scope, c) for k, c in enumerate(chunks)]))
    out = [None] * len(exprs)
    for k, vals in enumerate(res):
        for j, v in enumerate(vals):
            out[k + j * shards] = v
    return out


# --------------------------------------------------------------------------------------
# Coq-syntax term parser (shared by model output and harness output)

_TOK = re.compile(r'\s*(?:(\[|\]|\(|\)|;|,)|"((?:[^"]|"")*)"|(-?\d+)(?:%\w+)?|([A-Za-z_][\w.\']*)|(\{\||\|\}|:=))')


def tokenize(s):
    pos, toks = 0, []
    s = s.strip()
    while pos < len(s):
        m = _TOK.match(s, pos)
        if not m:
            raise ValueError(f"cannot tokenize at {pos}: {s[pos:pos+40]!r}")
        pos = m.end()
        if m.group(1):
            toks.append(m.group(1))
        elif m.group(2) is not None:
            toks.append(("str", m.group(2)))
        elif m.group(3) is not None:
            toks.append(int(m.group(3)))
        elif m.group(4):
            toks.append(("id", m.group(4)))
        else:
            toks.append(m.group(5))
    return toks


def parse_term(s):
    toks = tokenize(s)
    pos = [0]

    def peek():
        return toks[pos[0]] if pos[0] < len(toks) else None

    def take():
        t = toks[pos[0]]
        pos[0] += 1
        return t

    def atom():
        t = take()
        if t == "[":
            items = []
            if peek() == "]":
                take()
                return items
            while True:
                items.append(app())
                t2 = take()
                if t2 == "]":
                    return items
                assert t2 == ";", f"expected ; got {t2}"
        if t == "(":
            items = [app()]
            while peek() == ",":
                take()
                items.append(app())
            assert take() == ")"
            return items[0] if len(items) == 1 else ("tuple", *items)
        if isinstance(t, int):
            return t
        if isinstance(t, tuple) and t[0] == "str":
            return ("str", t[1])
        if isinstance(t, tuple) and t[0] == "id":
            return t[1]
        raise ValueError(f"unexpected token {t}")

    def app():
        head = atom()
        args = []
        while peek() is not None and peek() not in ("]", ")", ";", ","):
            args.append(atom())
        if args:
            return (head, *args)
        return head

    r = app()
    if pos[0] != len(toks):
        raise ValueError(f"trailing tokens in {s[:80]!r}")
    return r


def show_term(t):
    if isinstance(t, list):
        return "[" + "; ".join(show_term(x) for x in t) + "]"
    if isinstance(t, tuple):
        if t[0] == "tuple":
            return "(" + ", ".join(show_term(x) for x in t[1:]) + ")"
        if t[0] == "str":
            return '"' + t[1] + '"'
        return "(" + " ".join(show_term(x) if i else str(x) for i, x in enumerate(t)) + ")"
    return str(t)


# --------------------------------------------------------------------------------------
# Rust harness

def cargo_build(bins, features=()):
    os.makedirs(HARNESS, exist_ok=True)
    lock = os.path.join(HARNESS, "Cargo.lock")
    if not os.path.exists(lock) and os.path.exists(os.path.join(REPO, "Cargo.lock")):
        import shutil
        shutil.copy(os.path.join(REPO, "Cargo.lock"), lock)
    feat = ("--features " + ",".join(features)) if features else ""
    tdir = os.environ.get("RV_TARGET", "target") + ("-" + "-".join(features) if features else "")
    cmd = f"cargo build --offline {feat} " + " ".join(f"--bin {b}" for b in bins)
    t0 = time.time()
    rc, out = sh(cmd, cwd=HARNESS, timeout=3000, env={"CARGO_TARGET_DIR": os.path.join(HARNESS, tdir)})
    return {"ok": rc == 0, "log": out[-6000:], "wall_s": round(time.time() - t0, 1),
            "dir": os.path.join(HARNESS, tdir, "debug")}


def repo_builds_without_hooks():
    rc, out = sh("cargo check --offline -p ractor -p ractor_cluster", cwd=REPO, timeout=3000,
                 env={"CARGO_TARGET_DIR": os.path.join(HARNESS, "target-nohook")})
    return rc == 0, out[-3000:]


def run_harness(build, binname, lines, timeout=1200, shards=1, args=""):
    exe = os.path.join(build["dir"], binname)
    if shards <= 1 or len(lines) < 2 * shards:
        rc, out = sh(f"{exe} {args}", stdin="\n".join(lines) + "\n", timeout=timeout, merge_stderr=False)
        if rc != 0:
            raise RuntimeError(f"harness {binname} failed rc={rc}:\n{out[-3000:]}")
        return [l for l in out.split("\n") if l.strip()]
    chunks = [lines[i::shards] for i in range(shards)]

    def one(c):
        rc, out = sh(f"{exe} {args}", stdin="\n".join(c) + "\n", timeout=timeout, merge_stderr=False)
        if rc != 0:
            raise RuntimeError(f"harness {binname} failed rc={rc}:\n{out[-3000:]}")
        return [l for l in out.split("\n") if l.strip()]
    with ThreadPoolExecutor(max_workers=shards) as ex:
        res = list(ex.map(one, chunks))
    out = [None] * len(lines)
    for k, vals in enumerate(res):
        if len(vals) != len(chunks[k]):
            raise RuntimeError(f"harness {binname}: output count mismatch {len(vals)} vs {len(chunks[k])}")
        for j, v in enumerate(vals):
            out[k + j * shards] = v
    return out


# --------------------------------------------------------------------------------------
# Verdict + evidence

class Check:
    def __init__(self, prop, tier, seed):
        self.prop, self.tier, self.seed = prop, tier, seed
        self.t0 = time.time()
        self.rng = random.Random(seed)
        self.violations = []        # (kind, description, replay_payload)
        self.known = []
        self.coverage = {"evaluations": 0, "distinct_nontrivial": 0, "samples": [],
                         "traces_validated_against_impl": 0, "disagreements_checked": 0}
        self.assumptions = []
        self.hist = {}
        self.notes = []
        self.known_findings = json.load(open(os.path.join(ROOT, "known_findings.json")))
        os.makedirs(os.path.join(OUT, "replays", prop), exist_ok=True)
        os.makedirs(os.path.join(OUT, "evidence"), exist_ok=True)

    def count(self, key, n=1):
        self.hist[key] = self.hist.get(key, 0) + n

    def replay_path(self, payload, ext="txt"):
        h = hashlib.sha1(payload.encode()).hexdigest()[:12]
        p = os.path.join(OUT, "replays", self.prop, f"{h}.{ext}")
        with open(p, "w") as f:
            f.write(payload)
        return p

    def violation(self, what, payload, failing_input=True):
        """Record a violation; payload is the replay file content."""
        p = self.replay_path(payload)
        self.violations.append((what, p, failing_input))

    def known_finding(self, fid, what):
        if (fid, what) not in self.known:
            self.known.append((fid, what))

    def finding_entries(self):
        return [f for f in self.known_findings.get("findings", []) if f["property"] == self.prop]

    # ---- stage 1: proofs
    def proofs(self):
        b = coq_build(self.prop)
        hits = gate_grep(only=b["files"])
        self.coq = b
        cov = self.coverage
        cov["obligations"] = b["obligations"]
        cov["discharged"] = b["discharged"]
        cov["checker_cmd"] = f"make -C coq Properties/{self.prop}.vo  (coqc 8.16.1, full .vo build; Print Assumptions under every property theorem)"
        cov["property_theorems"] = b["n_property_theorems"]
        cov["print_assumptions_closed"] = b["closed"]
        cov["coq_files"] = b["files"]
        bad_ax = [a for a in b["assumptions"] if a.split(".")[-1] not in {x.split(".")[-1] for x in STD_AXIOM_ALLOW}]
        self.assumptions += [f"Print Assumptions: {b['closed']} of {b['n_print_assumptions']} property theorems closed under the global context"]
        if b["assumptions"]:
            self.assumptions.append("axioms reported: " + ", ".join(b["assumptions"]))
        problems = []
        if hits:
            problems.append("forbidden construct(s): " + "; ".join(hits[:5]))
        if not b["ok"]:
            problems.append("coq build failed:\n" + b["log"][-1500:])
        elif b["closed"] + (1 if b["assumptions"] else 0) < b["n_print_assumptions"] or b["n_print_assumptions"] < b["n_property_theorems"]:
            problems.append(f"Print Assumptions incomplete: closed={b['closed']} printed={b['n_print_assumptions']} theorems={b['n_property_theorems']}")
        if bad_ax:
            problems.append("non-allow-listed axioms: " + ", ".join(bad_ax))
        self.proof_problems = problems
        return not problems

    # ---- final
    def finish(self, level="proof", trusted_base=(), explanation=""):
        cov = self.coverage
        cov["trusted_base"] = list(trusted_base)
        cov["histogram"] = self.hist
        if explanation:
            cov["explanation"] = explanation
        if self.notes:
            cov["notes"] = self.notes
        wall = round(time.time() - self.t0, 1)
        rc = 0
        lines = []
        for fid, what in self.known:
            lines.append(f"KNOWN-FINDING: property={self.prop} {fid}: {what}")
        # proof / correspondence problems without a failing input
        real = [v for v in self.violations if v[2]]
        soft = [v for v in self.violations if not v[2]]
        if getattr(self, "proof_problems", None) and not real:
            payload = (f"property {self.prop}: proof obligations no longer check\n"
                       + "\n".join(self.proof_problems)
                       + "\nNo failing input was found by the search on the implementation.\n")
            p = self.replay_path(payload)
            soft.append(("proof obligations no longer check", p, False))
        if real:
            for what, p, _ in real[:5]:
                lines.append(f"VIOLATION property={self.prop} replay={p}")
            rc = 1
        elif soft:
            for what, p, _ in soft[:3]:
                lines.append(f"VIOLATION property={self.prop} replay={p} no-failing-input-found")
            rc = 1
        ev = {
            "property_id": self.prop, "tier": self.tier, "seed": self.seed, "level": level,
            "coverage": cov, "assumptions": self.assumptions, "wall_s": wall,
            "violations": len(real) + len(soft),
            "known_findings_reported": [f"{a}: {b}" for a, b in self.known],
            "violation_details": [w for w, _, _ in (real + soft)][:10],
        }
        with open(os.path.join(OUT, "evidence", f"{self.prop}.json"), "w") as f:
            json.dump(ev, f, indent=1, default=str)
        for l in lines:
            print(l)
        print(f"[{self.prop}] tier={self.tier} seed={self.seed} evaluations={cov['evaluations']} "
              f"distinct_nontrivial={cov['distinct_nontrivial']} obligations={cov.get('obligations')} "
              f"violations={len(real)+len(soft)} known={len(self.known)} wall={wall}s -> exit {rc}")
        sys.stdout.flush()
        return rc


def infrastructure_failure(prop, msg):
    print(f"[{prop}] INFRASTRUCTURE FAILURE (no verdict): {msg}")
    return 2
