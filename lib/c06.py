"""C06 — shutdown waits are accurate and never miss the wake-up (DESIGN.md section 4/C06).

Engine E1: the real wait()/stop_and_wait()/kill_and_wait()/drain_and_wait()/join handle and the
real exit path run on a paused-clock current_thread runtime (harness/src/bin/eng_wait.rs); the same
scenario is run through the Coq model coq/WaitNotify/Model.v (vm_compute).  View = per waiter
(outcome, snapshot at its return) + the status after each operation.  Oracle = check_C06 (proved to
accept every model run: C06_oracle_sound) evaluated inside Coq on the implementation's answers.
"""
import itertools
import json
import os

from common import *

IMPORTS = "WaitNotify.Model"

CAUSES = ["stop", "drain", "kill", "killhandler", "err", "panic", "stopkill",
          "prefail", "prepanic", "postfail", "pserr", "pspanic", "prekill", "postkill",
          "abort0", "abortidle", "aborthandler", "abortps", "abortstart"]
MCAUSE = {"stop": "CStop", "drain": "CStop", "pserr": "CStop", "pspanic": "CStop",
          "kill": "CKill", "killhandler": "CKill", "err": "CErr", "panic": "CErr",
          "stopkill": "CStopKill", "prefail": "CPreStartFail", "prepanic": "CPreStartFail",
          "postfail": "CPostStartFail", "prekill": "CPreStartKill", "postkill": "CPostStartKill",
          # cancelled tasks: the loop task aborted before its first poll / idle / inside a handler / inside
          # post_stop; the start task (spawn_instant) aborted during pre_start = the guard without an event
          "abort0": "CAbort", "abortidle": "CAbort", "aborthandler": "CAbort", "abortps": "CAbortPs",
          "abortstart": "CPreStartFail"}
# causes that work for a remote-id handle (no plain messages, no spawn_instant)
REMOTE_OK = ("stop", "drain", "kill", "stopkill", "pserr", "pspanic", "postfail", "postkill", "abort0",
             "abortidle", "abortps")
FRAGILE_OK = ("stop", "drain", "err")
NOSUP = ()     # (pre_start causes use spawn_instant, or spawn_linked_instant when there is a supervisor)
KILLPARK = ("stopkill", "abortps")                           # post_stop parked, ended by kill / abort
STOPLIKE = ("stop", "pserr", "pspanic", "stopkill", "abortps")
PARKABLE = ("stop", "drain", "pserr", "pspanic", "stopkill", "abortps")
KILLLIKE = ("kill", "killhandler", "prekill", "postkill")
STARTING = ("prefail", "prepanic", "postfail", "prekill", "postkill", "abort0", "abortstart")


# ------------------------------------------------------------------------------------------
# abstract scenarios.  ops:
#   ["w", kind, tmo, role]  waiter task; kind wait|stopw|killw|drainw|join; tmo none|short|long;
#                           role "" | "cause" (its send part delivers the cause) | "release" (its kill
#                           ends the parked post_stop: cause stopkill)
#   ["x"] deliver the cause   ["g"] release post_stop   ["k", role] kill()   ["s"] stop()  ["d"] drain()
#   ["a"] advance the clock past the short timeouts

# children linked to the actor when it exits: kind -> status the model is given
KID_STATUS = {"run": "Running", "busy": "Running", "drain": "Draining", "stopping": "Stopping"}


def kid_kinds(k):
    return ["run"] * k if isinstance(k, int) else list(k)


def translate(scn):
    """abstract scenario -> harness line, model scenario, and the bookkeeping to compare them.
    The only knowledge used here beyond the model: when the *send part* of a *_and_wait call
    fails (Err(Messaging)), in which case the call never waits and C06 says nothing about it."""
    cause, sup, park = scn["cause"], scn["sup"], scn["park"]
    mc = MCAUSE[cause]
    if scn.get("fragile") and not sup:
        # the terminal event of an unsupervised actor is dropped inside cleanup(): the destructor
        # panics, cleanup unwinds, the guard's Drop runs the cleanup again
        mc = {"CStop": "CStopUnwind", "CErr": "CErrUnwind"}[mc]
    hops, mops, ws = [], [], []
    idmap = {}          # harness waiter id -> model waiter index
    expect_err = set()  # harness waiter ids whose send part fails
    helpers = set()     # harness waiter ids that are the supervisor's *_children_and_wait helpers
    short = []          # model indices of short-timeout waiters, in start order
    phase = "before"
    stop_sent = False
    marker_sent = False     # DRAIN_MARKER_SENT
    ports_alive = True      # the actor's receivers exist (until processing_loop / start returns)
    if mc in ("CStop", "CStopUnwind") and not park:
        mops.append("OpOpen 1%N")
    nid = 0

    def delivered():
        nonlocal phase, ports_alive
        if cause in PARKABLE and park:
            phase = "during"
        else:
            phase = "after"
            ports_alive = False

    def released():
        nonlocal phase, ports_alive
        phase = "after"
        ports_alive = False

    for op in scn["ops"]:
        k = op[0]
        if k == "w":
            _, kind, tmo, role = op
            hid = nid
            nid += 1
            hops.append(f"w {hid} {kind} {tmo}" + {"cause": " c", "release": " r"}.get(role, ""))
            enters = True
            pre, post = [], []
            if kind in ("sc", "dc"):
                # the supervisor's stop_children_and_wait / drain_children_and_wait = stop_and_wait /
                # drain_and_wait on the actor whose result is swallowed
                helpers.add(hid)
                kind = "stopw" if kind == "sc" else "drainw"
                if phase == "after":
                    # the actor has unlinked itself from its supervisor: the helper finds no child and
                    # does nothing at all
                    kind = "noop"
                    enters = False
            if kind == "stopw":
                if stop_sent or not ports_alive:
                    enters = False
                stop_sent = True
                if enters and role == "cause":
                    post = ["OpOpen 0%N"]
            elif kind == "killw":
                if role == "cause":
                    post = ["OpOpen 0%N"]
                elif role == "release":
                    post = ["OpOpen 2%N"]
            elif kind == "drainw":
                if marker_sent:
                    pass            # returns Ok without sending
                elif ports_alive:
                    marker_sent = True
                else:
                    marker_sent = True
                    enters = False  # the marker cannot be sent: Err(SendErr)
                pre = ["OpDrain"]
                if enters and role == "cause":
                    post = ["OpOpen 0%N"]
            if enters:
                m = len(ws)
                ws.append("WJoin" if kind == "join" else "W0")
                idmap[hid] = m
                if tmo == "short":
                    short.append(m)
                mops += pre + [f"OpStartEager {m}" if kind == "inline" else f"OpStart {m}"] + post + ["OpSettle"]
            else:
                expect_err.add(hid)
                mops += pre + ["OpSettle"]
            if role == "cause" and enters:
                delivered()
            if role == "release":
                released()
        elif k == "x":
            hops.append("x")
            if cause in STOPLIKE:
                stop_sent = True
            if cause == "drain":
                marker_sent = True
                mops.append("OpDrain")
            mops += ["OpOpen 0%N", "OpSettle"]
            delivered()
        elif k == "g":
            hops.append("g")
            mops += ["OpOpen 1%N", "OpSettle"]
            released()
        elif k == "k":
            hops.append("ab" if (cause == "abortps" and op[1] == "release") else "k")
            if op[1] == "release":
                mops.append("OpOpen 2%N")
                released()
            mops.append("OpSettle")
        elif k == "s":
            hops.append("s")
            stop_sent = True
            mops.append("OpSettle")
        elif k == "d":
            hops.append("d")
            marker_sent = True
            mops += ["OpDrain", "OpSettle"]
        elif k == "a":
            hops.append("a")
            mops += [f"OpTimeout {m}" for m in short] + ["OpSettle"]
        else:
            raise ValueError(op)
    kinds = kid_kinds(scn["kids"])
    line = (f"wait cause={cause} sup={1 if sup else 0} kids={','.join(kinds)} park={1 if park else 0}"
            + (" tl=1" if scn.get("tl") else "") + (" via=children" if scn.get("via") == "children" else "")
            + (" remote=1" if scn.get("remote") else "") + (" fragile=1" if scn.get("fragile") else "")
            + (" supdrain=1" if scn.get("supdrain") else "") + (" succ=1" if scn.get("succ") else "") + " ; "
            + " ; ".join(hops))
    s0 = "Starting" if cause in STARTING else "Running"
    ks = "[" + "; ".join(KID_STATUS[k] for k in kinds) + "]"
    args = (f"{s0} [{'; '.join(ws)}] {mc} {'true' if sup else 'false'} {ks} "
            f"{'true' if scn.get('remote') else 'false'} [{'; '.join(mops)}]")
    return {"line": line, "args": args, "idmap": idmap, "expect_err": expect_err, "helpers": helpers, "mc": mc,
            "sup": sup, "n_model_waiters": len(ws)}


def gen_scenario(rng):
    cause = rng.choice(CAUSES)
    sup = cause not in NOSUP and rng.random() < 0.65
    park = cause in PARKABLE and (cause in KILLPARK or rng.random() < 0.7)
    ops = []
    join_used = [False]

    def waiter(phase, allow_cause=False):
        tmo = rng.choice(["none", "none", "none", "short", "long"])
        kinds = ["wait", "wait", "inline", "inline"]
        if not join_used[0]:
            kinds.append("join")
        if phase == "during":
            kinds += ["drainw", "stopw"] + (["sc", "dc"] if sup else [])
        if phase == "after":
            kinds += ["stopw", "killw", "drainw", "wait"] + (["sc", "dc"] if sup else [])
        kind = rng.choice(kinds)
        if kind in ("sc", "dc") and tmo == "short":
            tmo = "long"                # the helpers swallow the timeout: no way to tell it from a return
        if kind == "join":
            join_used[0] = True
        if kind in ("join", "inline"):
            tmo = "none"
        return ["w", kind, tmo, ""]

    # before the exit
    for _ in range(rng.choice([0, 1, 1, 2, 3])):
        ops.append(waiter("before"))
        if rng.random() < 0.15 and cause != "abort0":     # (nothing may yield before the abort)
            ops.append(["a"])
    # the cause, delivered by a plain call, by a *_and_wait waiter or by the supervisor's helper
    if cause in STOPLIKE and rng.random() < 0.4:
        if sup and rng.random() < 0.35:
            ops.append(["w", "sc", rng.choice(["none", "long"]), "cause"])
        else:
            ops.append(["w", "stopw", rng.choice(["none", "long", "short"]), "cause"])
    elif cause == "drain" and rng.random() < 0.5:
        if sup and rng.random() < 0.35:
            ops.append(["w", "dc", rng.choice(["none", "long"]), "cause"])
        else:
            ops.append(["w", "drainw", rng.choice(["none", "long", "short"]), "cause"])
    elif cause in KILLLIKE and rng.random() < 0.5:
        ops.append(["w", "killw", rng.choice(["none", "long", "short"]), "cause"])
    else:
        ops.append(["x"])
    incomplete = rng.random() < 0.08
    if park:
        # while post_stop is parked
        for _ in range(rng.choice([0, 1, 1, 2, 3])):
            r = rng.random()
            if r < 0.12:
                ops.append(["s"])
            elif r < 0.2:
                ops.append(["d"])
            elif r < 0.32:
                ops.append(["a"])
            else:
                ops.append(waiter("during"))
        if not incomplete:
            if cause == "abortps":
                ops.append(["k", "release"])
            elif cause == "stopkill":
                if rng.random() < 0.5:
                    ops.append(["w", "killw", rng.choice(["none", "long"]), "release"])
                else:
                    ops.append(["k", "release"])
            else:
                ops.append(["g"])
    if not (park and incomplete):
        # after the exit: late and repeated calls
        for _ in range(rng.choice([0, 1, 1, 2, 3])):
            r = rng.random()
            if r < 0.1:
                ops.append(["s"])
            elif r < 0.18:
                ops.append(["k", ""])
            elif r < 0.26:
                ops.append(["d"])
            elif r < 0.34:
                ops.append(["a"])
            else:
                ops.append(waiter("after"))
    kids = [rng.choice(["run", "busy", "drain", "drain", "stopping"]) for _ in range(rng.choice([1, 1, 2, 3]))]
    if cause == "abort0":
        kids = ["run"] * len(kids)      # setting up the other kinds needs a yield
    scn = {"cause": cause, "sup": sup, "kids": kids, "park": park, "ops": ops}
    if not cause.startswith("abort") and rng.random() < 0.15:
        scn["tl"] = True                # a thread-local actor (own OS thread and runtime)
    elif sup and cause in REMOTE_OK and rng.random() < 0.2:
        scn["remote"] = True            # a remote ActorId (spawn_linked_remote): no name/pid, but pg
    elif cause in FRAGILE_OK and rng.random() < 0.35:
        scn["fragile"] = True           # final State / error value with a panicking destructor
    if sup and cause != "abort0" and rng.random() < 0.25:
        scn["supdrain"] = True          # the supervisor is Draining (busy, backlog) when the actor exits
    if MCAUSE[cause] in ("CStop", "CStopKill", "CAbortPs") and not scn.get("tl") and not scn.get("remote") \
            and rng.random() < 0.3:
        scn["succ"] = True              # post_stop spawns a same-named successor
    if sup and cause in STOPLIKE + ("drain",) and ["x"] in ops and rng.random() < 0.35:
        scn["via"] = "children"         # delivered by the supervisor's stop_children() / drain_children()
    return scn


def exhaustive_small():
    """every cause x supervisor x parked/not x every placement of two plain waiters and one join
    handle in {absent, before, during, after}"""
    out = []
    for cause in CAUSES:
        for sup in ((False,) if cause in NOSUP else (False, True)):
            parks = (True,) if cause in KILLPARK else ((False, True) if cause in PARKABLE else (False,))
            for park in parks:
                phases = ["-", "b", "a"] + (["d"] if park else [])
                for p0, p1, pj in itertools.product(phases, phases, phases):
                    def ws(ph):
                        r = []
                        if p0 == ph:
                            r.append(["w", "wait", "none", ""])
                        if p1 == ph:
                            r.append(["w", "inline", "none", ""])
                        if pj == ph:
                            r.append(["w", "join", "none", ""])
                        return r
                    ops = ws("b") + [["x"]]
                    if park:
                        ops += ws("d") + ([["k", "release"]] if cause in KILLPARK else [["g"]])
                    ops += ws("a")
                    out.append({"cause": cause, "sup": sup, "kids": 1, "park": park, "ops": ops})
    return out


# ------------------------------------------------------------------------------------------
# controlled OS threads (hook points): scenarios are op lists
#   ["ws", k, plan]  plan none|notified|status     ["x"]    ["rw", k]    ["rx"]

def thr_translate(scn):
    sup, plan = scn["sup"], scn["exit"]
    n_publish = 12 + (2 if sup else 0)
    labels = ["LOpen 1%N"]
    started, paused = [], set()

    def la(n):
        labels.extend(["LA 0"] * n)

    def settle():
        for k in started:
            if k not in paused:
                labels.extend([f"LW {k}"] * 5)

    hops = []
    for op in scn["ops"]:
        if op[0] == "ws":
            _, k, pl = op
            hops.append(f"ws {k} {pl}")
            started.append(k)
            if pl == "none":
                labels.extend([f"LW {k}"] * 5)
            else:
                labels.extend([f"LW {k}"] * (1 if pl == "notified" else 2))
                paused.add(k)
        elif op[0] == "x":
            hops.append("x")
            labels.append("LOpen 0%N")
            la({"none": 40, "publish": n_publish, "between": n_publish + 1}[plan])
            settle()
        elif op[0] == "rw":
            hops.append(f"rw {op[1]}")
            if op[1] in paused:
                paused.discard(op[1])
                labels.extend([f"LW {op[1]}"] * 5)
        elif op[0] == "rx":
            hops.append("rx")
            la(40)
            settle()
    for k in started:
        if k in paused:
            labels.extend([f"LW {k}"] * 5)
    paused.clear()
    n = (max(started) + 1) if started else 0
    line = f"thr sup={1 if sup else 0} exit={plan} ; " + " ; ".join(hops)
    init = f"(scenario_init_k Running [{'; '.join(['W0'] * n)}] CStop {'true' if sup else 'false'} [Running] false)"
    return {"line": line, "labels": "[" + "; ".join(labels) + "]", "init": init, "sup": sup}


def gen_thr(rng):
    sup = rng.random() < 0.6
    plan = rng.choice(["none", "publish", "between"])
    ops, k = [], 0
    paused = []
    for _ in range(rng.choice([0, 1, 2, 2, 3])):
        pl = rng.choice(["none", "notified", "status", "status"])
        ops.append(["ws", k, pl])
        if pl != "none":
            paused.append(k)
        k += 1
    ops.append(["x"])
    if plan != "none":
        for _ in range(rng.choice([0, 1, 2])):
            if paused and rng.random() < 0.5:
                ops.append(["rw", paused.pop(rng.randrange(len(paused)))])
            else:
                ops.append(["ws", k, "none"])
                k += 1
        ops.append(["rx"])
    for _ in range(rng.choice([0, 1, 2])):
        if paused and rng.random() < 0.6:
            ops.append(["rw", paused.pop(rng.randrange(len(paused)))])
        else:
            ops.append(["ws", k, "none"])
            k += 1
    return {"sup": sup, "exit": plan, "ops": ops}


def exhaustive_thr():
    """two early waiters with every pair of plans x exit plan x (resume during the exit pause | after)"""
    out = []
    for sup in (False, True):
        for plan in ("none", "publish", "between"):
            for p0, p1 in itertools.product(("none", "notified", "status"), repeat=2):
                for mid in ((False, True) if plan != "none" else (False,)):
                    ops = [["ws", 0, p0], ["ws", 1, p1], ["x"]]
                    if plan != "none":
                        if mid:
                            ops += [["rw", 0], ["ws", 2, "none"]]
                        ops.append(["rx"])
                    ops += [["rw", 1], ["rw", 0], ["ws", 3 if (plan != "none" and mid) else 2, "none"]]
                    out.append({"sup": sup, "exit": plan, "ops": ops})
    return out


def exhaustive_kids():
    """every exit cause x supervisor x one linked child of each kind (idle, busy, Draining, Stopping);
    one task waiter and one inline waiter registered before the exit, one wait after"""
    out = []
    for cause in CAUSES:
        for sup in ((False,) if cause in NOSUP else (False, True)):
            for kid in ("run", "busy", "drain", "stopping"):
                ops = [["w", "wait", "none", ""], ["w", "inline", "none", ""], ["x"]]
                if cause == "abort0" and kid != "run":
                    continue
                park = cause in KILLPARK
                if park:
                    ops.append(["k", "release"])
                ops.append(["w", "wait", "none", ""])
                out.append({"cause": cause, "sup": sup, "kids": [kid], "park": park, "ops": ops})
    return out


def exhaustive_audit():
    """coverage-audit families: (a) a thread-local actor, every non-abort cause x supervisor, waiters
    (task, inline, join handle) before / during / after; (b) the supervisor's stop_children(),
    drain_children(), stop_children_and_wait(), drain_children_and_wait() as cause, during post_stop, late"""
    out = []
    for cause in CAUSES:
        if cause.startswith("abort"):
            continue
        for sup in ((False,) if cause in NOSUP else (False, True)):
            park = cause in PARKABLE
            ops = [["w", "wait", "none", ""], ["w", "inline", "none", ""], ["x"]]
            if park:
                ops += [["w", "wait", "long", ""], ["w", "join", "none", ""], ["w", "inline", "none", ""]]
                ops.append(["k", "release"] if cause in KILLPARK else ["g"])
            ops += [["w", "wait", "none", ""], ["w", "stopw", "none", ""]]
            out.append({"cause": cause, "sup": sup, "kids": ["drain"], "park": park, "ops": ops, "tl": True})
    for cause in STOPLIKE + ("drain",):
        for park in ((True,) if cause in KILLPARK else (False, True)):
            rel = [["k", "release"]] if cause in KILLPARK else ([["g"]] if park else [])
            helper = "dc" if cause == "drain" else "sc"
            for tl in (False, True):
                if tl and cause.startswith("abort"):
                    continue
                base = {"cause": cause, "sup": True, "kids": ["run"], "park": park}
                if tl:
                    base["tl"] = True
                # delivered by stop_children()/drain_children(); helpers during and after
                during = [["w", "sc", "none", ""], ["w", "dc", "long", ""]] if park else []
                out.append(dict(base, via="children", ops=[["w", "wait", "none", ""], ["x"]] + during + rel
                                + [["w", "sc", "none", ""], ["w", "dc", "none", ""]]))
                # delivered by the *_children_and_wait helper itself
                out.append(dict(base, ops=[["w", "inline", "none", ""], ["w", helper, "none", "cause"]]
                                + ([["w", "dc" if helper == "sc" else "sc", "long", ""]] if park else []) + rel
                                + [["w", "wait", "none", ""]]))
    # (e) a Draining supervisor at the actor's exit; (f) a same-named successor spawned by post_stop
    for cause in CAUSES:
        if cause == "abort0":
            continue
        park = cause in KILLPARK
        ops = [["w", "wait", "none", ""], ["w", "inline", "none", ""], ["x"]]
        if park:
            ops.append(["k", "release"])
        ops += [["w", "join", "none", ""], ["w", "wait", "none", ""]]
        out.append({"cause": cause, "sup": True, "kids": ["run"], "park": park, "ops": ops, "supdrain": True})
    for cause in ("stop", "drain", "pserr", "pspanic", "stopkill", "abortps"):
        for sup in (False, True):
            for park in ((True,) if cause in KILLPARK else (False, True)):
                ops = [["w", "wait", "none", ""], ["x"]]
                if park:
                    ops += [["w", "inline", "none", ""], ["k", "release"] if cause in KILLPARK else ["g"]]
                ops += [["w", "stopw", "none", ""], ["w", "wait", "none", ""]]
                out.append({"cause": cause, "sup": sup, "kids": ["run"], "park": park, "ops": ops, "succ": True})
    # (c) remote-id handles: every workable cause; (d) panicking destructors, unsupervised and supervised
    for cause in REMOTE_OK:
        park = cause in PARKABLE
        ops = [["w", "wait", "none", ""], ["w", "inline", "none", ""], ["x"]]
        if park:
            ops += [["w", "wait", "none", ""], ["k", "release"] if cause in KILLPARK else ["g"]]
        ops += [["w", "join", "none", ""], ["w", "wait", "none", ""]]
        out.append({"cause": cause, "sup": True, "kids": ["run"], "park": park, "ops": ops, "remote": True})
    for cause in FRAGILE_OK:
        for sup in (False, True):
            for park in ((False, True) if cause in PARKABLE else (False,)):
                for first in ("x", "w"):
                    deliver = [["x"]] if first == "x" or cause == "err" else [
                        ["w", "drainw" if cause == "drain" else "stopw", "none", "cause"]]
                    ops = [["w", "wait", "none", ""], ["w", "inline", "none", ""], ["w", "join", "none", ""]] + deliver
                    if park:
                        ops += [["w", "wait", "long", ""], ["g"]]
                    ops += [["w", "wait", "none", ""], ["w", "killw", "none", ""]]
                    out.append({"cause": cause, "sup": sup, "kids": ["drain"], "park": park, "ops": ops, "fragile": True})
    return out


def obs_view(term, idmap=None):
    """list of mkObs terms -> {waiter: (outcome, snapshot tuple)}"""
    d = {}
    for o in term:
        assert o[0] == "mkObs", o
        w = o[1]
        d.setdefault(w, []).append((o[2], tuple(o[3][1:])))
    return d


def run(chk):
    quick = chk.tier == "quick"
    ok_proofs = chk.proofs()
    factor = 1 if ok_proofs else 10
    build = cargo_build(["eng_wait"])
    if not build["ok"]:
        ok, log = repo_builds_without_hooks()
        if not ok:
            return infrastructure_failure(chk.prop, "/repo does not compile even without hooks:\n" + log[-1500:])
        chk.violation("harness no longer builds against /repo",
                      "correspondence E1:eng_wait cannot be built against the current tree\n" + build["log"][-3000:],
                      failing_input=False)
        return chk.finish(trusted_base=TRUSTED)

    scns = []
    corpus_thr = []
    replay_thr = None
    if getattr(chk, "replay", None):
        # replay a recorded scenario (the JSON object in a replays/C06/*.txt file or a corpus line)
        txt = open(chk.replay).read()
        j = json.loads(txt[txt.index("{"):])
        if "thread_scenario" in j:
            replay_thr = j["thread_scenario"]
            scns = [("replay", {"cause": "stop", "sup": False, "kids": 1, "park": False, "ops": [["x"]]})]
        else:
            scns = [("replay", j.get("scenario", j))]
    cdir = os.path.join(ROOT, "corpus", "C06")
    if os.path.isdir(cdir) and not scns:
        for f in sorted(os.listdir(cdir)):
            if f.endswith(".json"):
                for l in open(os.path.join(cdir, f)):
                    if l.strip() and not l.startswith("#"):
                        j = json.loads(l)
                        if "thread_scenario" in j:
                            corpus_thr.append(j["thread_scenario"])
                        else:
                            scns.append(("corpus:" + f, j))
    n_corpus = len(scns)
    ex = [] if scns and scns[0][0] == "replay" else exhaustive_small()
    if quick:
        ex = [e for i, e in enumerate(ex) if i % 3 == chk.seed % 3]
    scns += [("exhaustive", s) for s in ex]
    if not (scns and scns[0][0] == "replay"):
        scns += [("exhaustive-kids", s) for s in exhaustive_kids()]
        scns += [("exhaustive-audit", s) for s in exhaustive_audit()]
    n_rand = 0 if scns and scns[0][0] == "replay" else (1500 if quick else 12000) * factor
    scns += [("random", gen_scenario(chk.rng)) for _ in range(n_rand)]

    tr = [translate(s) for _, s in scns]
    impl = run_harness(build, "eng_wait", [t["line"] for t in tr], shards=8)
    impl_t = [parse_term(x) for x in impl]

    exprs = []
    for t, it in zip(tr, impl_t):
        a = t["args"]
        sup = "true" if t["sup"] else "false"
        # a *_children_and_wait helper whose send part fails swallowed Err(Messaging): it did not wait,
        # no claim is made about its return (same status as an Err from stop_and_wait itself)
        noclaim = t["helpers"] & t["expect_err"]
        obs_for_oracle = [(o[0], o[1], "OErr", o[3]) if (o[1] in noclaim and o[2] == "ORet") else o for o in it[1]]
        iobs, ists = show_term(obs_for_oracle), show_term(it[2])
        last = it[2][-1] if it[2] else ("Starting" if "Starting" in a.split()[0] else "Running")
        exprs.append(f"(run_scenario {a}, scenario_statuses {a}, scenario_complete {a}, "
                     f"check_C06 (want_ps_of {t['mc']}) (want_sup_of {t['mc']} {sup}) (scenario_complete {a}) {iobs} "
                     f"&& mono_stats 0%N {ists} && check_cleanup {it[3]}%N {last}, scenario_cleanups {a})")
    model = coq_eval("C06", IMPORTS, exprs, scope=None)
    model_t = [parse_term(x) for x in model]

    distinct = set()
    found = []   # (size, failing_input, what, payload): reported smallest first (selection shrinking:
                 # the exhaustive part contains the minimal placements)
    for (src, scn), t, it, mt in zip(scns, tr, impl_t, model_t):
        chk.coverage["evaluations"] += 1
        m_obs, m_sts, m_complete, oracle, m_leaves = mt[1], mt[2], mt[3], mt[4], mt[5]
        i_obs, i_sts, i_leaves = it[1], it[2], it[3]
        # map harness waiter ids to model indices; waiters whose send part failed are outside the model
        iv = {}
        errs = set()
        for w, l in obs_view(i_obs).items():
            for out, snap in l:
                if w in t["helpers"] and w in t["expect_err"] and out == "ORet":
                    out = "OErr"    # the helper swallowed Err(Messaging): it did not wait, no claim
                if out == "OErr":
                    errs.add(w)
                else:
                    iv.setdefault(t["idmap"].get(w, ("unmapped", w)), []).append((out, snap))
        mv = obs_view(m_obs)
        n_before = sum(1 for o in scn["ops"] if o[0] == "w")
        chk.count("cause." + scn["cause"])
        if scn.get("tl"):
            chk.count("thread_local_actor")
        if scn.get("via"):
            chk.count("via." + scn["via"])
        if scn.get("remote"):
            chk.count("remote_id_actor")
        if scn.get("fragile"):
            chk.count("panicking_destructor")
        if scn.get("supdrain"):
            chk.count("supervisor_draining")
        if scn.get("succ"):
            chk.count("successor_in_post_stop")
        for kk in kid_kinds(scn["kids"]):
            chk.count("kid." + kk)
        chk.count("source." + src.split(":")[0])
        for o in scn["ops"]:
            chk.count("op." + o[0] + ("." + o[1] if o[0] == "w" else ""))
        for w, l in iv.items():
            for out, _ in l:
                chk.count("outcome." + out)
        chk.count("complete." + str(m_complete))
        if n_before:
            distinct.add(json.dumps(scn, sort_keys=True))
        desc = json.dumps({"scenario": scn, "harness_line": t["line"], "model_args": t["args"],
                           "impl": show_term(it), "model_obs": show_term(m_obs),
                           "model_statuses": show_term(m_sts), "model_cleanups": m_leaves,
                           "complete": m_complete}, indent=1)
        if oracle != "true":
            found.append((len(scn["ops"]), True,
                          "a wait returned before the actor had fully stopped, a waiter was never woken, "
                          "the status moved backwards, or the exit cleanup did not run exactly once",
                          "C06 oracle check_C06 rejects the implementation's observations "
                          "(waiter outcomes with the snapshot taken at each return; OPending = still parked "
                          "at quiescence after the exit completed)\n" + desc))
        elif iv != mv or i_sts != m_sts or errs != t["expect_err"] or i_leaves != m_leaves:
            chk.coverage["disagreements_checked"] += 1
            what = ("waiter outcomes/snapshots" if iv != mv else
                    "status after each operation" if i_sts != m_sts else
                    "number of cleanup executions (pg Leave notifications)" if i_leaves != m_leaves else
                    "which *_and_wait calls fail to send")
            found.append((len(scn["ops"]), False, "model/implementation disagree: " + what,
                          f"correspondence E1:eng_wait view differs ({what}); the oracle accepts the implementation's run\n" + desc))
        if len(chk.coverage["samples"]) < 3 and src == "random" and n_before >= 3:
            chk.coverage["samples"].append(json.loads(desc))
    # ---- controlled OS threads (hook points wait.after_notified, wait.after_status,
    # status.after_publish, notify.between)
    if replay_thr is not None or not (scns and scns[0][0] == "replay"):
        tscn = [replay_thr] if replay_thr is not None else (
            corpus_thr + exhaustive_thr() + [gen_thr(chk.rng) for _ in range((250 if quick else 3000) * factor)])
        ttr = [thr_translate(x) for x in tscn]
        timpl = [parse_term(x) for x in run_harness(build, "eng_wait", [t["line"] for t in ttr], shards=8, timeout=600)]
        texprs = []
        for t, it in zip(ttr, timpl):
            sup = "true" if t["sup"] else "false"
            fin = f"(run {t['labels']} {t['init']})"
            texprs.append(f"(observe {t['labels']} {t['init']}, cleanups (gh {fin}), "
                          f"check_C06 true {sup} (threads_done {fin} && stat_eqb (status {fin}) Stopped) {show_term(it[1])} "
                          f"&& check_cleanup {it[3]}%N (status {fin}))")
        tmodel = [parse_term(x) for x in coq_eval("C06t", IMPORTS, texprs, scope=None)]
        for scn, t, it, mt in zip(tscn, ttr, timpl, tmodel):
            chk.coverage["evaluations"] += 1
            chk.count("thr.exit=" + scn["exit"])
            for o in scn["ops"]:
                chk.count("thr.op." + o[0] + ("." + o[2] if o[0] == "ws" else ""))
            distinct.add("thr" + json.dumps(scn, sort_keys=True))
            m_obs, m_leaves, oracle = mt[1], mt[2], mt[3]
            desc = json.dumps({"thread_scenario": scn, "harness_line": t["line"], "model_labels": t["labels"],
                               "impl": show_term(it), "model_obs": show_term(m_obs)}, indent=1)
            if oracle != "true":
                found.append((len(scn["ops"]), True,
                              "controlled threads: a wait returned early or a waiter was never woken",
                              "C06 oracle check_C06 rejects the implementation's observations under a controlled thread "
                              "schedule (hook points)\n" + desc))
            elif obs_view(it[1]) != obs_view(m_obs) or it[3] != m_leaves or it[4] != 0:
                chk.coverage["disagreements_checked"] += 1
                what = ("a planned hook point was never reached (step structure changed)" if it[4] != 0
                        else "waiter outcomes/snapshots or cleanup count under a controlled thread schedule")
                found.append((len(scn["ops"]), False, "model/implementation disagree: " + what,
                              f"correspondence E2:eng_wait thr differs ({what}); the oracle accepts\n" + desc))
        chk.coverage["thread_schedules"] = len(tscn)
    found.sort(key=lambda x: x[0])
    for _, fi, what, payload in found[:40]:
        chk.violation(what, payload, failing_input=fi)
    chk.coverage["failing_scenarios"] = sum(1 for f in found if f[1])
    chk.coverage["disagreeing_scenarios"] = sum(1 for f in found if not f[1])
    chk.coverage["traces_validated_against_impl"] = len(scns) + chk.coverage.get("thread_schedules", 0)
    chk.coverage["distinct_nontrivial"] = len(distinct)
    chk.coverage["corpus_scenarios"] = n_corpus
    chk.coverage["rule"] = ("exhaustive: every exit cause x supervisor x parked post_stop x placement of two waiters and the "
                            "join handle before/during/after the exit (a third of them per quick run, by seed); random: "
                            "cause-driven scenarios with wait/stop_and_wait/kill_and_wait/drain_and_wait/join waiters, "
                            "timeouts on the virtual clock, late and repeated calls. non-trivial = at least one waiter; "
                            "distinct = distinct scenario descriptions")
    chk.coverage["exhaustive_part"] = "19 causes x sup x park x {absent,before,during,after}^3 placements"
    return chk.finish(trusted_base=TRUSTED)


TRUSTED = [
    "Coq 8.16.1 kernel (coqc); vm_compute used for evaluating the model on scenarios and for Examples",
    "no axioms: every property theorem prints 'Closed under the global context'",
    "tokio::sync::Notify is modelled (calls/permit/queue with the semantics of tokio 1.53 notify.rs), not verified; "
    "the E1 runs exercise the real one",
    "atomic operations taken as sequentially consistent; each mutex-protected section of Notify is one atomic step",
    "hand-written model coq/WaitNotify/Model.v tied to ractor/src/actor{.rs,/actor_cell.rs,/actor_properties.rs} by "
    "deterministic E1 runs (this check); fair scheduling by the runtime for the progress theorem",
    "hook points ractor/src/actor/verif.rs (cfg slawlor_ractor_verif): wait.after_notified, wait.after_status, "
    "status.after_publish, notify.between — used by the controlled-thread engine",
    "Rust harness eng_wait (gates, snapshots, supervisor markers), lib/c06.py scenario translation "
    "(incl. the rule for when the send part of a *_and_wait call fails), lib/common.py term parser",
]
