"""C12 — timers fire once, never early, and die with their target (DESIGN.md section 4/C12).

Model: coq/Timer/Model.v (virtual clock, timer tasks as pc machines, target actor, FIFO
settle).  Implementation: ractor::time driven by harness/src/bin/eng_timer.rs on a paused
tokio clock.  Per scenario the views (handled timer messages with virtual timestamps, handle
results, exit reason and time, probes of is_finished) are compared and the executable oracle
`check_C12` is evaluated inside Coq on the implementation's own observation."""
import itertools
import json
import os

from common import *

IMPORTS = "Timer.Model"
MS = 1_000_000
KINDS = {"a": "KAfter", "i": "KInterval", "e": "KExit", "k": "KKill"}
ONE_SHOT_DURS = [0, 1, MS, 7 * MS, 1000 * MS, 2_500_000, 999_999, 1_000_001]
INTERVAL_DURS = [MS, 7 * MS, 1000 * MS, 250_000, 1_500_000, 2 * MS]


DMAX = (2**64 - 1) * 10**9 + 999_999_999      # Duration::MAX in ns
U64MAX = 2**64 - 1                            # Duration::from_nanos(u64::MAX)


def ceil_ms(t):
    return (t + MS - 1) // MS * MS


# ---------------------------------------------------------------------------------------
# scenario = list of ops; op = tuple

def op_line(o):
    k = o[0]
    if k == "mk":
        return f"mk {o[1]} {'max' if o[2] == DMAX else o[2]}"
    if k == "abort":
        return f"abort {o[1]}"
    if k == "stop":
        return "stop n" if o[1] is None else f"stop u{o[1]}"
    if k == "adv":
        return f"adv {o[1]}"
    return k


def op_term(o):
    k = o[0]
    if k == "mk":
        return f"OMk {KINDS[o[1]]} {o[2]}"
    if k == "abort":
        return f"OAbort {o[1]}%nat"
    if k == "stop":
        return "OStop RNone" if o[1] is None else f"OStop (RUser {o[1]})"
    if k == "adv":
        return f"OAdv {o[1]}"
    return {"kill": "OKill", "drain": "ODrain", "settle": "OSettle", "probe": "OProbe", "open": "OOpen", "popen": "OPOpen"}[k]


def ops_term(ops):
    return "[" + "; ".join(op_term(o) for o in ops) + "]"


def timeline_to_ops(rng, events, settle_prob):
    """events: list of (abs_time, op).  Sorted by time (stable); `adv` inserted between
    distinct times; an explicit settle in front of an op with probability settle_prob
    (without it the op acts on the boundary: timers have fired but their tasks have not run)."""
    events = sorted(events, key=lambda e: e[0])
    ops, t = [], 0
    for (at, o) in events:
        if at > t:
            ops.append(("adv", at - t))
            t = at
        if o[0] not in ("probe", "settle") and rng.random() < settle_prob:
            ops.append(("settle",))
        ops.append(o)
    return ops


def burst_ok(timers, horizon):
    for (kind, dur, born) in timers:
        if kind == "i" and (horizon - born) // dur > 40:
            return False
    return True


def gen_random_case(rng):
    for _ in range(100):
        n = rng.choice([1, 1, 2, 2, 3])
        timers, events, interesting = [], [], set()
        for tid in range(n):
            kind = rng.choice(["a", "a", "i", "i", "e", "k"])
            dur = rng.choice(INTERVAL_DURS if kind == "i" else ONE_SHOT_DURS)
            born = rng.choice([0, 0, 0, 300_000, MS, 2 * MS + 1])
            timers.append((kind, dur, born))
            events.append((born, ("mk", kind, dur)))
            nt = rng.choice([1, 2, 3, 5]) if kind == "i" else 1
            for k in range(1, nt + 1):
                e = born + k * dur
                for x in (e - MS, e - 1, e, e + 1, ceil_ms(e), ceil_ms(e) + 1, ceil_ms(e) + MS,
                          ceil_ms(e) + dur, ceil_ms(e) + ceil_ms(dur)):
                    if x >= born:
                        interesting.add(x)
        interesting = sorted(interesting)
        horizon = max(interesting) + rng.choice([0, 1, MS, 3 * MS])
        if not burst_ok(timers, horizon + 2 * MS):
            continue
        # mk events must come first at their time: keep stable order by listing them first
        acts = []
        for _a in range(rng.choice([0, 1, 1, 2, 3])):
            at = rng.choice(interesting)
            what = rng.choice(["abort", "abort", "stop", "stop", "kill", "drain"])
            if what == "abort":
                cands = [i for i, (_, _, b) in enumerate(timers) if b <= at]
                if not cands:
                    continue
                acts.append((at, ("abort", rng.choice(cands))))
            elif what == "stop":
                acts.append((at, ("stop", rng.choice([None, 5, 9]))))
            else:
                acts.append((at, (what,)))
        rng.shuffle(acts)
        probes = [(rng.choice(interesting), ("probe",)) for _ in range(rng.choice([1, 2, 3]))]
        if rng.random() < 0.5:
            # a prompt schedule: visit every wheel expiry of every timer up to the horizon
            for (kind, dur, born) in timers:
                k = 1
                while born + k * dur <= horizon and k <= 45:
                    probes.append((ceil_ms(born + k * dur), ("settle",)))
                    if kind != "i":
                        break
                    k += 1
        evs = events + acts + probes
        evs.append((horizon + rng.choice([0, MS, 2 * MS]), ("probe",)))
        ops = timeline_to_ops(rng, evs, rng.choice([0.0, 0.5, 1.0]))
        # abort indices must refer to existing timers at that point
        seen, ok = 0, True
        for o in ops:
            if o[0] == "mk":
                seen += 1
            if o[0] == "abort" and o[1] >= seen:
                ok = False
        if ok:
            return ops
    return [("mk", "a", 0), ("probe",)]


def gen_parked_case(rng):
    """target still inside pre_start (status Starting) until `open`: no kill / drain / kill_after
    before the gate opens (a kill during pre_start is not reported to the supervisor and a drain
    there is outside the timer property)"""
    for _ in range(50):
        ops = gen_random_case(rng)
        if any(o[0] == "mk" and o[1] == "k" for o in ops):
            continue
        pos = rng.randrange(0, len(ops) + 1) if rng.random() < 0.85 else None
        out = []
        for i, o in enumerate(ops):
            if pos is not None and i == pos:
                out.append(("open",))
            if (pos is None or i < pos) and o[0] in ("kill", "drain"):
                continue
            out.append(o)
        if pos is not None and pos == len(ops):
            out.append(("open",))
        if rng.random() < 0.5:
            out.append(("probe",))
        return out
    return [("mk", "a", 0), ("open",), ("probe",)]


def gen_parked_systematic():
    cases = []
    for kind in "aie":
        for dur in ([MS, 250_000] if kind == "i" else [0, 1, MS]):
            fire = ceil_ms(dur)
            for act in (("abort", 0), ("stop", None), ("stop", 7), None):
                for openpos in ("before", "at-raw", "at-settled", "after", "never"):
                    ops = [("mk", kind, dur)]
                    if openpos == "before":
                        ops.append(("open",))
                    if fire:
                        ops.append(("adv", fire))
                    if openpos == "at-raw":
                        ops.append(("open",))
                    if openpos == "at-settled":
                        ops += [("settle",), ("open",)]
                    if act:
                        ops.append(act)
                    ops += [("probe",), ("adv", MS)]
                    if openpos == "after":
                        ops.append(("open",))
                    ops += [("probe",), ("adv", 2 * MS), ("probe",)]
                    cases.append(ops)
    return cases


def gen_gated_case(rng):
    """target whose post_stop blocks on a gate: after a stop / exit_after / drain it stays in
    Stopping (ports still open) until `popen` or a kill; timers of all kinds due before / inside /
    after that window"""
    ops = gen_random_case(rng)
    if not any(o[0] in ("stop", "drain") or (o[0] == "mk" and o[1] == "e") for o in ops):
        # make sure the window opens: stop somewhere in the first half
        pos = rng.randrange(0, max(1, len(ops) // 2) + 1)
        ops = ops[:pos] + [rng.choice([("stop", None), ("stop", 5), ("drain",)])] + ops[pos:]
    if rng.random() < 0.8:
        pos = rng.randrange(0, len(ops) + 1)
        ops = ops[:pos] + [("popen",)] + ops[pos:]
    ops.append(("probe",))
    return ops


def gen_gated_systematic():
    """one timer of each kind x due before / inside / after the Stopping window x the window
    opened by stop / drain / exit_after x closed by popen / kill / never"""
    cases = []
    W0, W1 = 2 * MS, 6 * MS          # the target leaves the loop at W0, post_stop is released at W1
    for kind in "aiek":
        for due in (MS, 4 * MS, 8 * MS, W0, W1):
            for opener in ("stop", "drain", "exit"):
                for closer in ("popen", "kill", "never"):
                    ops = [("mk", kind, due if kind != "i" else [MS, 4 * MS, 8 * MS, 2 * MS, 3 * MS][[MS, 4 * MS, 8 * MS, W0, W1].index(due)])]
                    if opener == "exit":
                        ops.append(("mk", "e", W0))
                    t = 0
                    for at, what in sorted([(W0, "open"), (W1, "close"), (MS, "p"), (4 * MS, "p"), (8 * MS, "p"), (10 * MS, "p")],
                                           key=lambda x: x[0]):
                        if at > t:
                            ops.append(("adv", at - t))
                            t = at
                        if what == "open":
                            if opener == "stop":
                                ops.append(("stop", 4))
                            elif opener == "drain":
                                ops.append(("drain",))
                        elif what == "close":
                            if closer == "popen":
                                ops.append(("popen",))
                            elif closer == "kill":
                                ops.append(("kill",))
                        else:
                            ops.append(("probe",))
                    cases.append(ops)
    return cases


def gen_abort_unpolled():
    """timers of every kind with zero / small periods aborted at once (no await between creation
    and abort: the timer task cannot have been polled) and, as the control, with a settle in
    between; alone and next to a second live timer"""
    cases = []
    for kind in "aeki":
        for dur in ([1, 250_000, MS] if kind == "i" else [0, 1, 999_999, MS]):
            for between in ([], [("settle",)], [("stop", 3)], [("mk", "a", MS)]):
                for tail in ([("settle",), ("probe",)], [("adv", 1), ("probe",), ("adv", MS), ("probe",)],
                             [("adv", 2 * MS), ("probe",)]):
                    for born in (0, 300_000):
                        ops = ([("adv", born)] if born else []) + [("mk", kind, dur)] + list(between) + [("abort", 0)] + list(tail)
                        cases.append(ops)
    return cases


def gen_huge():
    """huge periods, Duration::MAX included (tokio's sleep saturates to 'far future'): the timer
    simply never fires, nothing panics, abort / stop / probes behave as for any pending timer"""
    cases = []
    for kind in "aeki":
        for dur in (DMAX, U64MAX):
            for tail in ([("settle",), ("probe",)],
                         [("adv", MS), ("probe",), ("abort", 0), ("probe",)],
                         [("adv", MS), ("stop", 2), ("adv", MS), ("probe",)],
                         [("mk", "a", MS), ("adv", MS), ("probe",), ("kill",), ("probe",)]):
                cases.append([("mk", kind, dur)] + list(tail))
    return cases


def gen_exhaustive():
    """one timer x duration x one action at every position relative to the expiry"""
    cases = []
    for kind in "aiek":
        durs = [MS, 250_000] if kind == "i" else [0, 1, MS, 1_500_000]
        for dur in durs:
            for born in (0, 300_000):
                e = born + dur
                fire = max(ceil_ms(e), ceil_ms(born)) if True else e
                for act in (("abort", 0), ("stop", None), ("stop", 7), ("kill",), ("drain",), None):
                    # positions: well before, at fire time before the task ran, at fire time after, later
                    for pos in ("before", "at-raw", "at-settled", "after", "second"):
                        ops = []
                        if born:
                            ops.append(("adv", born))
                        ops.append(("mk", kind, dur))
                        t = born
                        def adv_to(x):
                            nonlocal t
                            if x > t:
                                ops.append(("adv", x - t))
                                t = x
                        if pos == "before":
                            if act:
                                ops.append(act)
                            adv_to(fire)
                        elif pos == "at-raw":
                            adv_to(fire)
                            if act:
                                ops.append(act)
                        elif pos == "at-settled":
                            adv_to(fire)
                            ops.append(("settle",))
                            if act:
                                ops.append(act)
                        elif pos == "after":
                            adv_to(fire + 1)
                            if act:
                                ops.append(act)
                        else:
                            adv_to(fire)
                            ops.append(("probe",))
                            adv_to(ceil_ms(born + 2 * dur) if kind == "i" else fire + MS)
                            if act:
                                ops.append(act)
                        ops.append(("probe",))
                        adv_to(t + ceil_ms(dur) + MS)
                        ops.append(("probe",))
                        adv_to(t + ceil_ms(dur))
                        ops.append(("probe",))
                        cases.append(ops)
    return cases


def canon_obs(t):
    """sort the handled log by (time, tid, k): same-instant deliveries of different timers
    are ordered by tokio's wheel, which the property does not talk about"""
    if not (isinstance(t, tuple) and t[0] == "mkObs"):
        return t
    log = t[1]
    if isinstance(log, list):
        log = sorted(log, key=lambda e: (e[3], e[1], e[2]) if isinstance(e, tuple) and len(e) == 4 else (0, 0, 0))
    return ("mkObs", log, *t[2:])


def exit_tie(ops, mv, iv):
    """Two exit_after timers whose wheel deadlines fall into the SAME millisecond tick are
    fired by one turn of tokio's time driver in an order internal to its wheel; the first
    stop() wins.  The property fixes the reason format and 'not earlier than the period',
    not which of two simultaneously due timers wins: such a pair of views is equivalent."""
    try:
        if mv[1:3] != iv[1:3] or mv[4] != iv[4]:
            return False
        (_, (_, mr, mt)), (_, (_, ir, it)) = mv[3], iv[3]
        if mt != it or mr[0] != "RExitAfter" or ir[0] != "RExitAfter":
            return False
    except Exception:
        return False
    t, ticks = 0, {}
    for o in ops:
        if o[0] == "adv":
            t += o[1]
        if o[0] == "mk" and o[1] == "e":
            ticks.setdefault(o[2] // MS, set()).add(ceil_ms(t + o[2]))
    return bool(ticks.get(mr[1], set()) & ticks.get(ir[1], set()))


def nontrivial(ops, obs):
    """the scenario reached the phase the property is about: a timer fired, was aborted,
    or met a target that had exited"""
    if not (isinstance(obs, tuple) and obs[0] == "mkObs"):
        return False
    res = obs[2]
    return any(r != "HPending" for r in res) if isinstance(res, list) else False


def load_corpus():
    d = os.path.join(ROOT, "corpus", "C12")
    out = []
    if os.path.isdir(d):
        for f in sorted(os.listdir(d)):
            if f.endswith(".json"):
                j = json.load(open(os.path.join(d, f)))
                out.append((j.get("flags", ""), [tuple(o) for o in j["ops"]]))
    return out


def run(chk):
    quick = chk.tier == "quick"
    ok_proofs = chk.proofs()
    factor = 1 if ok_proofs else 10
    build = cargo_build(["eng_timer"])
    if not build["ok"]:
        ok, log = repo_builds_without_hooks()
        if not ok:
            return infrastructure_failure(chk.prop, "/repo does not compile even without hooks:\n" + log[-1500:])
        chk.violation("harness no longer builds against /repo",
                      "correspondence E1:eng_timer cannot be built against the current tree\n" + build["log"][-3000:],
                      failing_input=False)
        return chk.finish(trusted_base=TRUSTED)

    if getattr(chk, "replay", None):
        txt = open(chk.replay).read()
        m = re.search(r'"harness_line": "([^"]*)"', txt)
        if m:
            out = run_harness(build, "eng_timer", [m.group(1)])
            print("replay:", m.group(1))
            print("implementation:", out[0])

    # ---- calibration of tokio's wheel granularity against the model's rounding
    calib = [(a, b, c) for a in (0, 300_000, MS, 1_500_000, 2 * MS + 1)
             for b in (0, 1, 500_000, 999_999, MS, 1_000_001, 2_500_000)
             for c in (0, 1, 200_000, 699_999, 700_000, 999_999, MS, 1_000_001, 2 * MS, 3 * MS)]
    cal_impl = run_harness(build, "eng_timer", [f"calib {a} {b} {c}" for a, b, c in calib])
    cal_model = coq_eval("C12cal", IMPORTS, [f"elapsed ({a} + {c}) ({a} + {b})" for a, b, c in calib])
    chk.coverage["calibration"] = {"cases": len(calib), "agree": sum(1 for i, m in zip(cal_impl, cal_model) if i.strip() == m.strip()),
                                   "what": "sleep(b) created at a, polled at a+c after a driver turn: complete? vs model `elapsed (a+c) (a+b)`"}
    for (a, b, c), i, m in zip(calib, cal_impl, cal_model):
        if i.strip() != m.strip():
            chk.violation("tokio timer granularity differs from the model's rounding",
                          f"correspondence E1:calibration sleep({b}ns) created at {a}ns polled at +{c}ns: complete={i}, model says {m}\n"
                          "the model's ceil_ms/floor_ms contract of tokio's timer wheel no longer matches",
                          failing_input=False)
            break

    # a case is (flags, ops); flags: "S" parked in pre_start, "G" gated post_stop
    cases = load_corpus()
    n_corpus = len(cases)
    cases += [("", c) for c in gen_exhaustive()]
    cases += [("S", c) for c in gen_parked_systematic()]
    cases += [("G", c) for c in gen_gated_systematic()]
    cases += [("", c) for c in gen_abort_unpolled()]
    cases += [("", c) for c in gen_huge()]
    # the same families through DerivedActorRef's own copies of the timers (flag D)
    cases += [("D", c) for c in gen_exhaustive()[::2]]
    cases += [("D", c) for c in gen_abort_unpolled()[::3]]
    cases += [("GD", c) for c in gen_gated_systematic()[::2]]
    cases += [("D", c) for c in gen_huge()]
    n_exh = len(cases) - n_corpus
    n_rand = (1500 if quick else 20000) * factor
    for k in range(n_rand):
        if k % 5 == 4:
            cases.append(("S", gen_parked_case(chk.rng)))
        elif k % 5 == 3:
            cases.append(("G", gen_gated_case(chk.rng)))
        elif k % 25 == 2:
            cases.append(("SG", gen_parked_case(chk.rng)))
        elif k % 5 == 1:
            cases.append(("D", gen_random_case(chk.rng)))
        elif k % 25 == 7:
            cases.append(("GD", gen_gated_case(chk.rng)))
        else:
            cases.append(("", gen_random_case(chk.rng)))
    flags = [f for f, _ in cases]
    pks = ["S" in f for f in flags]
    gts = ["G" in f for f in flags]

    def settle_after_open(ops):
        # the gate's effect (Starting -> Running) takes place when the target's task runs: keep
        # kill / drain away from that window (a kill during startup is not reported to the supervisor)
        out = []
        for o in ops:
            out.append(o)
            if o[0] == "open":
                out.append(("settle",))
        return out
    cases = [settle_after_open(c) for _, c in cases]
    PK = lambda i: ("true" if pks[i] else "false") + " " + ("true" if gts[i] else "false")
    PK1 = lambda i: "true" if pks[i] else "false"

    lines = [((flags[i] + "|") if flags[i] else "") + " ; ".join(op_line(o) for o in ops) for i, ops in enumerate(cases)]
    impl = run_harness(build, "eng_timer", lines, shards=min(NCPU, 8))
    impl_t = [parse_term(x) for x in impl]
    exprs = [f"observe {PK(i)} {ops_term(ops)}" for i, ops in enumerate(cases)]
    exprs += [f"check_C12 {PK1(i)} {ops_term(ops)} ({impl[i]})" for i, ops in enumerate(cases)]
    # the oracle must accept the model's own observation (C12_oracle_sound is OPEN: checked here per scenario)
    exprs += [f"check_C12 {PK1(i)} {ops_term(ops)} (observe {PK(i)} {ops_term(ops)})" for i, ops in enumerate(cases)]
    model = coq_eval("C12", IMPORTS, exprs)
    n = len(cases)
    model_t = [parse_term(x) for x in model[:n]]
    oracle = model[n:2 * n]
    model_oracle = model[2 * n:]
    bad_mo = [i for i in range(n) if model_oracle[i].strip() != "true"]
    chk.coverage["model_oracle_accepts"] = n - len(bad_mo)
    for i in bad_mo[:1]:
        chk.violation("oracle rejects the model's own observation (model / oracle inconsistency)",
                      "correspondence E1:oracle-vs-model check_C12 rejects observe(ops)\n" + lines[i],
                      failing_input=False)

    distinct = set()
    for i, ops in enumerate(cases):
        chk.coverage["evaluations"] += 1
        mv, iv = canon_obs(model_t[i]), canon_obs(impl_t[i])
        chk.count("target." + ("starting(parked in pre_start)" if pks[i] else "running") + ("+gated post_stop" if gts[i] else "") + ("+DerivedActorRef" if "D" in flags[i] else ""))
        for o in ops:
            chk.count("op." + (o[0] + "." + o[1] if o[0] == "mk" else o[0]))
        if isinstance(iv, tuple) and iv[0] == "mkObs":
            for r in iv[2]:
                chk.count("result." + str(r))
            ex = iv[3]
            chk.count("exit." + ("none" if ex == "None" else str(ex[1][1] if isinstance(ex[1][1], str) else ex[1][1][0])))
            chk.count("handled", len(iv[1]))
        if nontrivial(ops, iv):
            distinct.add(show_term(iv) + "|" + lines[i])
        desc = json.dumps({"harness_line": lines[i], "ops": [list(o) for o in ops],
                           "impl": show_term(iv), "model": show_term(mv)}, indent=1)
        if oracle[i].strip() != "true":
            chk.violation("timer property violated on the implementation",
                          "C12 oracle check_C12 rejects the implementation's observation\n" + desc)
        elif mv != iv and exit_tie(ops, mv, iv):
            chk.count("tolerated.exit_after_same_tick_tie")
        elif mv != iv:
            chk.coverage["disagreements_checked"] += 1
            chk.violation("model/implementation disagree (timer view)",
                          "correspondence E1:eng_timer view differs (oracle accepts)\n" + desc, failing_input=False)
        if len(chk.coverage["samples"]) < 3 and i in (n_corpus + 7, n_corpus + n_exh + 3, n_corpus + n_exh + 11):
            chk.coverage["samples"].append(json.loads(desc))
    chk.coverage["traces_validated_against_impl"] = n
    chk.coverage["distinct_nontrivial"] = len(distinct)
    chk.coverage["exhaustive_part"] = (f"{n_exh} scenarios: one timer of each kind x durations {{0,1ns,1ms,1.5ms}} "
                                       "(intervals {1ms,250us}) x aligned/unaligned creation x "
                                       "{abort,stop,stop(reason),kill,drain,nothing} x 5 positions relative to expiry")
    chk.coverage["rule"] = ("non-trivial = at least one timer task finished (fired, reported an error, was cancelled) "
                            "in the implementation run; distinct = distinct (scenario, observation) pairs; "
                            f"{n_corpus} corpus + {n_exh} systematic + {n_rand} seeded random scenarios")
    return chk.finish(trusted_base=TRUSTED)


TRUSTED = [
    "Coq 8.16.1 kernel (coqc); vm_compute for evaluating the model and the oracle on scenarios",
    "no axioms: every property theorem prints 'Closed under the global context'",
    "tokio's timer contract is MODELLED, not verified: sleep with deadline D completes at a poll iff ceil_ms D <= floor_ms now; "
    "interval deadlines t0 + k*p (Burst); JoinHandle::abort drops the future at its await point; calibrated on every run (coverage.calibration)",
    "hand-written model coq/Timer/Model.v tied to ractor/src/time.rs by running both on the same scenarios (this check); "
    "target actor abstracted to status / message queue / stop and kill ports",
    "Rust harness eng_timer (paused clock, yield-based settle with a stability re-check), lib/common.py term parser and comparison",
    "fair scheduling by the runtime for the progress clauses (interval task ends, send_after fires)",
]
