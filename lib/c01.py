"""C01 — one handler at a time, in lifecycle order (DESIGN.md section 4/C01)."""
from loopsim import *


def run(chk):
    # verdict codes per actor; 1x = lifecycle-order rules (C01)
    return run_loop_check(chk, lambda n, links, t: f"codes {n} {t}", "mixed",
                          "callbacks overlap or run out of lifecycle order",
                          accept=lambda o: isinstance(o, list) and not any(10 <= c < 20 for c in o))
