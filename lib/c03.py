"""C03 — kill > stop > supervision > messages; stop graceful, kill immediate (DESIGN.md 4/C03)."""
from loopsim import *


def run(chk):
    # verdict codes per actor; 3x = priority rules (C03)
    return run_loop_check(chk, lambda n, links, t: f"codes {n} {t}", "ports",
                          "a lower-priority item started / progressed after kill() or stop() returned",
                          accept=lambda o: isinstance(o, list) and not any(30 <= c < 40 or c == 17 for c in o))
