"""C03 — kill > stop > supervision > messages; stop graceful, kill immediate (DESIGN.md 4/C03)."""
from loopsim import *


def _links_only(links):
    # run_loop_check passes "<links> <locals>"; the supervision-first oracle takes the links list
    return links.split("] [")[0] + "]" if "] [" in links else links


def run(chk):
    # verdict codes per actor (3x = priority rules of C03, 17 = post_stop after a kill) and the
    # trace oracle "a pending ActorStarted event is never overtaken by a user message"
    return run_loop_check(
        chk, lambda n, links, t: f"(codes {n} {t}, check_C03_sup_first {_links_only(links)} {t})", "ports",
        "a lower-priority item started / progressed after kill() or stop() returned, or a user message overtook a pending supervision event",
        accept=lambda o: (isinstance(o, tuple) and o[0] == "tuple" and isinstance(o[1], list)
                          and not any(30 <= c < 40 or c == 17 for c in o[1]) and o[2] == "true"))
