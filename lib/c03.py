"""C03 — kill > stop > supervision > messages; stop graceful, kill immediate (DESIGN.md 4/C03)."""
from loopsim import *


def run(chk):
    return run_loop_check(chk, lambda n, links, t: f"codes {n} {t}", "ports",
                          "a lower-priority item started after kill()/stop() returned")
