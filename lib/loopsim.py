"""Shared by C01 / C03 / C04: scenario generator for the actor-runtime model (coq/Loop/World.v),
its rendering for the E1 engine (harness/src/bin/eng_world.rs) and for Coq, the per-actor
view, and the common check driver."""
import json

import re
from common import *

IMPORTS = "Loop.World Loop.Checks"
ROUNDS, FUEL = 14, 60


# ------------------------------------------------------------------ scenario generation

# how a callback fails: e Err(String), f Err(Box<user error type>), p panic!(String), q panic with a &'static str
# payload, z panic with a payload that is no string (the runtime reports a fixed text, code 998)
FAIL_KINDS = ["e", "p", "e", "p", "f", "q", "z"]
UNKNOWN_PANIC = 998


def gen_script(rng, me, n, gates, allow_fail=True, rich=True, min_msg=0):
    effs = []
    k = rng.choice([0, 0, 1, 1, 2, 3, 4])
    for _ in range(k):
        r = rng.random()
        if r < 0.30:
            g = gates[0]
            gates[0] += 1
            effs.append(("g", g))
        elif r < 0.55:
            effs.append(("t",))
        elif r < 0.70 and rich:
            # messages only trigger higher-numbered messages: every cascade is finite
            ms = [m for m in (1, 2, 3, 4) if m > min_msg]
            if ms:
                effs.append(("s", rng.choice([me, me, rng.randrange(n)]), rng.choice(ms)))
            else:
                effs.append(("t",))
        elif r < 0.80 and rich:
            effs.append(("x", rng.choice([me, me, rng.randrange(n)]), rng.choice([None, None, 10, 11])))
        elif r < 0.88 and rich:
            effs.append(("k", rng.choice([me, rng.randrange(n)])))
        elif r < 0.93 and rich:
            effs.append(("d", rng.choice([me, rng.randrange(n)])))
        else:
            effs.append(("t",))
    fin = ("ok",)
    if allow_fail and rng.random() < 0.18:
        fin = (rng.choice(FAIL_KINDS), rng.choice([5, 6, 7]))
    return (effs, fin)


def gen_scenario(rng, focus="mixed", link_p=0.8):
    n = rng.choice([1, 2, 2, 3, 3, 4])
    gates = [1]
    actors = []
    for i in range(n):
        link = None
        if i > 0 and rng.random() < link_p:
            link = rng.randrange(i)
        sup = None if rng.random() < 0.6 else gen_script(rng, i, n, gates)
        pre_fail = rng.random() < 0.12
        actors.append({
            "pre": gen_script(rng, i, n, gates, allow_fail=pre_fail, rich=rng.random() < 0.3),
            "ps": gen_script(rng, i, n, gates, allow_fail=rng.random() < 0.15, rich=rng.random() < 0.3),
            "stop": gen_script(rng, i, n, gates, allow_fail=rng.random() < 0.25, rich=rng.random() < 0.3),
            "sup": sup, "link": link})
    msgs = {m: gen_script(rng, rng.randrange(n), n, gates, min_msg=m) for m in (1, 2, 3, 4)}
    ngates = gates[0]
    ops = []
    # spawn phase: mostly settle after each spawn, sometimes act before the first poll
    for i in range(n):
        ops.append(("spawn", i))
        if rng.random() < 0.15:
            ops.append(rng.choice([("kill", i), ("stop", i, None), ("send", i, 1), ("drain", i)]))
        if rng.random() < 0.9:
            ops.append(("settle",))
    ops.append(("settle",))
    L = rng.choice([3, 6, 10, 16])
    burst = focus == "ports"
    for _ in range(L):
        r = rng.random()
        a = rng.randrange(n)
        if r < 0.30:
            ops.append(("send", a, rng.choice([1, 2, 3, 4])))
        elif r < 0.50 and ngates > 1:
            ops.append(("open", rng.randrange(1, ngates)))
        elif r < 0.60:
            ops.append(("stop", a, rng.choice([None, 10, 12])))
        elif r < 0.70:
            ops.append(("kill", a))
        elif r < 0.76:
            ops.append(("drain", a))
        elif r < 0.82:
            ops.append(("settle",))
            ops.append(("abort", a))
        else:
            ops.append(("settle",))
        if rng.random() < (0.35 if burst else 0.7):
            ops.append(("settle",))
    # finally open every gate so that parked callbacks get to finish
    if rng.random() < 0.7:
        for g in range(1, ngates):
            ops.append(("open", g))
            if rng.random() < 0.5:
                ops.append(("settle",))
    ops.append(("settle",))
    return {"actors": actors, "msgs": msgs, "ops": ops}


def gen_supburst(rng):
    """A supervisor whose supervision handler parks at a gate while further supervision events
    (and messages) pile up and a stop / kill / drain arrives: the hand-over between a finishing
    handler and the next pick."""
    n = rng.choice([3, 3, 4])
    gates = [2]
    sup_script = ([("g", 1)] + [("t",)] * rng.choice([0, 1]), ("ok",))
    actors = [{"pre": ([], ("ok",)), "ps": ([], ("ok",)), "stop": ([("t",)], ("ok",)), "sup": sup_script, "link": None}]
    for i in range(1, n):
        actors.append({"pre": gen_script(rng, i, n, gates, allow_fail=False, rich=False),
                       "ps": gen_script(rng, i, n, gates, allow_fail=rng.random() < 0.2, rich=False),
                       "stop": gen_script(rng, i, n, gates, allow_fail=False, rich=False),
                       "sup": None, "link": 0})
    msgs = {m: gen_script(rng, 0, n, gates, rich=False, min_msg=m) for m in (1, 2, 3, 4)}
    ops = [("spawn", 0), ("settle",)]
    for i in range(1, n):
        ops.append(("spawn", i))
        if rng.random() < 0.5:
            ops.append(("settle",))
    ops.append(("settle",))
    for g in range(2, gates[0]):
        ops.append(("open", g))
    ops.append(("settle",))
    # now actor 0 is (very likely) parked in its first supervision handler with more events queued
    for _ in range(rng.choice([0, 1, 2])):
        r = rng.random()
        a = rng.randrange(1, n)
        ops.append(rng.choice([("kill", a), ("stop", a, None), ("send", 0, rng.choice([1, 2]))]))
        if rng.random() < 0.5:
            ops.append(("settle",))
    ops.append(rng.choice([("stop", 0, None), ("stop", 0, 10), ("kill", 0), ("drain", 0), ("stop", 0, None)]))
    if rng.random() < 0.5:
        ops.append(("settle",))
    ops.append(("open", 1))
    ops.append(("settle",))
    return {"actors": actors, "msgs": msgs, "ops": ops}


def gen_many_children(rng):
    """A supervisor with many (17-22) children: a long run of supervision events is queued while a
    user message (and possibly a stop) waits - supervision must still be served first, however long
    the run is."""
    k = rng.choice([17, 18, 20, 22])
    trivial = ([], ("ok",))
    actors = [{"pre": trivial, "ps": trivial, "stop": ([("t",)], ("ok",)), "sup": ([("g", 1)], ("ok",)), "link": None}]
    for i in range(1, k + 1):
        actors.append({"pre": trivial, "ps": trivial, "stop": trivial, "sup": None, "link": 0})
    msgs = {1: ([("t",)], ("ok",)), 2: trivial, 3: trivial, 4: trivial}
    ops = [("spawn", 0), ("settle",)]
    for i in range(1, k + 1):
        # one child per settle window: the order of the queued ActorStarted events is determined
        ops.append(("spawn", i))
        ops.append(("settle",))
    ops.append(("send", 0, 1))
    if rng.random() < 0.5:
        for i in rng.sample(range(1, k + 1), rng.choice([1, 3])):
            ops.append(rng.choice([("kill", i), ("stop", i, None)]))
        ops.append(("settle",))
    if rng.random() < 0.3:
        ops.append(("stop", 0, None))
    ops.append(("open", 1))
    ops.append(("settle",))
    return {"actors": actors, "msgs": msgs, "ops": ops}


def gen_abort_in_post_stop(rng):
    """A supervisor with a custom supervision handler that does not stop itself, and children whose
    post_stop parks at a gate: each child is stopped / drained (now suspended inside post_stop, status
    Stopping) and then its task is aborted.  The living, idle supervisor must get exactly one
    ActorTerminated(.., no state, "actor_task_cancelled") per child (seeded regression C04-1: the
    guard's Drop skipped the event once the status had reached Stopping)."""
    n = rng.choice([2, 2, 3])
    gates = [1]
    sup_script = ([("t",)] * rng.choice([0, 1, 2]), ("ok",))
    actors = [{"pre": ([], ("ok",)), "ps": ([], ("ok",)), "stop": ([("t",)], ("ok",)), "sup": sup_script, "link": None}]
    child_gate = {}
    for i in range(1, n):
        g = gates[0]
        gates[0] += 1
        child_gate[i] = g
        actors.append({"pre": ([("t",)] * rng.choice([0, 1]), ("ok",)),
                       "ps": ([("t",)] * rng.choice([0, 1]), ("ok",)),
                       "stop": ([("g", g)] + [("t",)] * rng.choice([0, 1, 2]), ("ok",)),
                       "sup": None, "link": 0})
    msgs = {m: gen_script(rng, 0, n, gates, allow_fail=False, rich=False, min_msg=m) for m in (1, 2, 3, 4)}
    ops = [("spawn", 0), ("settle",)]
    for i in range(1, n):
        ops.append(("spawn", i))
        if rng.random() < 0.6:
            ops.append(("settle",))
    ops.append(("settle",))
    for g in range(n, gates[0]):       # gates of the message scripts
        ops.append(("open", g))
    for i in range(1, n):
        ops.append(rng.choice([("stop", i, None), ("stop", i, 10), ("drain", i)]))
        if rng.random() < 0.5:
            ops.append(("settle",))
    ops.append(("settle",))
    # every child is now parked inside post_stop
    victims = [i for i in range(1, n) if rng.random() < 0.8] or [1]
    for i in victims:
        ops.append(("abort", i))
        ops.append(("settle",))
    if rng.random() < 0.5:
        ops.append(("send", 0, rng.choice([1, 2])))
    for i in range(1, n):
        ops.append(("open", child_gate[i]))
    ops.append(("settle",))
    return {"actors": actors, "msgs": msgs, "ops": ops}


def gen_backlog_then_sup(rng):
    """Several user messages are already queued when a handler starts (it parks at a gate); while it is
    parked supervision events (a child starts / stops / is killed) arrive; after the gate opens the
    supervision events must be served before the REST of the backlog (seeded regression C03-5: a
    'message batch' pulled out of the mailbox was worked off without looking at the supervision port)."""
    trivial = ([], ("ok",))
    nkids = rng.choice([1, 1, 2, 3])
    actors = [{"pre": trivial, "ps": trivial, "stop": ([("t",)], ("ok",)), "sup": ([("t",)] * rng.choice([0, 1]), ("ok",)), "link": None}]
    for i in range(1, nkids + 1):
        actors.append({"pre": trivial, "ps": trivial, "stop": trivial, "sup": None, "link": 0})
    msgs = {1: ([("g", 1)], ("ok",)), 2: ([("t",)], ("ok",)), 3: trivial, 4: ([("t",)], ("ok",))}
    ops = [("spawn", 0), ("settle",)]
    pre_kids = [i for i in range(1, nkids + 1) if rng.random() < 0.5]
    for i in pre_kids:
        ops += [("spawn", i), ("settle",)]
    ops += [("send", 0, 1)]
    for _ in range(rng.choice([2, 3, 4, 6])):
        ops += [("send", 0, rng.choice([2, 3, 4]))]
    ops += [("settle",)]                       # handler of message 1 is parked, the rest is backlog
    for i in range(1, nkids + 1):
        if i in pre_kids:
            ops += [rng.choice([("kill", i), ("stop", i, None), ("stop", i, 10)])]
        else:
            ops += [("spawn", i)]
        ops += [("settle",)]                   # one event per settle window: their order is determined
    if rng.random() < 0.25:
        ops += [("stop", 0, None)]
    ops += [("open", 1), ("settle",)]
    return {"actors": actors, "msgs": msgs, "ops": ops}


def gen_abort_before_first_poll(rng):
    """A linked child is spawned to completion (`spawn_linked(..).await`, pre_start without gates) and
    the returned loop handle is aborted at once, before the loop task was ever polled.  The actor was
    marked running before its task was created: the living supervisor still gets exactly one
    ActorTerminated(.., no state, "actor_task_cancelled") (seeded regression C06-6: mark_running moved
    into the spawned task).  Send mode only (op `spawnx`)."""
    trivial = ([], ("ok",))
    sup0 = rng.choice([None, ([("t",)] * rng.choice([0, 1]), ("ok",))])
    n = rng.choice([2, 2, 3])
    actors = [{"pre": trivial, "ps": trivial, "stop": ([("t",)], ("ok",)), "sup": sup0, "link": None}]
    for i in range(1, n):
        actors.append({"pre": ([("t",)] * rng.choice([0, 1, 2]), ("ok",)), "ps": ([("t",)], ("ok",)),
                       "stop": ([("t",)], ("ok",)), "sup": None, "link": rng.choice([0, 0, 0, None])})
    msgs = {1: ([("t",)], ("ok",)), 2: trivial, 3: trivial, 4: trivial}
    ops = [("spawn", 0), ("settle",)]
    for i in range(1, n):
        ops += [rng.choice([("spawnx", i), ("spawnx", i), ("spawn", i)]), ("settle",)]
    if rng.random() < 0.5:
        ops += [("send", 0, 1), ("settle",)]
    return {"actors": actors, "msgs": msgs, "ops": ops}


def gen_request_during_post_start(rng):
    """A supervised child is asked to drain / stop while its post_start is still parked at a gate;
    post_start then returns Ok: the supervisor still gets ActorStarted first and then the terminal
    event (seeded regression C04-7: ActorStarted suppressed when the status had already moved on)."""
    trivial = ([], ("ok",))
    sup0 = rng.choice([None, ([("t",)] * rng.choice([0, 1]), ("ok",))])
    n = rng.choice([2, 2, 3])
    actors = [{"pre": trivial, "ps": trivial, "stop": ([("t",)], ("ok",)), "sup": sup0, "link": None}]
    for i in range(1, n):
        actors.append({"pre": ([("t",)] * rng.choice([0, 1]), ("ok",)), "ps": ([("g", i)] + [("t",)] * rng.choice([0, 1]), ("ok",)),
                       "stop": ([("t",)] * rng.choice([0, 1]), ("ok",)), "sup": None, "link": 0})
    msgs = {1: ([("t",)], ("ok",)), 2: trivial, 3: trivial, 4: trivial}
    ops = [("spawn", 0), ("settle",)]
    for i in range(1, n):
        ops += [("spawn", i), ("settle",)]
        if rng.random() < 0.4:
            ops += [("send", i, rng.choice([1, 2]))]
        ops += [rng.choice([("drain", i), ("drain", i), ("stop", i, None), ("stop", i, 10)])]
        if rng.random() < 0.5:
            ops += [("settle",)]
        ops += [("open", i), ("settle",)]
    if rng.random() < 0.5:
        ops += [("send", 0, 1), ("settle",)]
    return {"actors": actors, "msgs": msgs, "ops": ops}


def gen_hot_mailbox(rng):
    """A mailbox of >= 128 messages whose handlers never suspend, and a second actor whose handler
    calls stop() on the first one: tokio's cooperative budget (128 units per task poll) forces the
    hot actor's task to yield between 'message dequeued' and 'handler started' at every 128th
    consecutive pick, and a stop() landing in that gap is followed by one more handler start
    (finding F12, C03; docs/notes/C03.md).  Only drawn for C03."""
    trivial = ([], ("ok",))
    n = rng.choice([130, 200, 260, 300])
    actors = [{"pre": trivial, "ps": trivial, "stop": trivial, "sup": None, "link": None},
              {"pre": trivial, "ps": trivial, "stop": trivial, "sup": None, "link": None}]
    req = rng.choice([("x", 0, None), ("x", 0, 10)])
    msgs = {1: trivial, 2: trivial, 3: trivial, 4: ([req], ("ok",))}
    ops = [("spawn", 0), ("spawn", 1), ("settle",)] + [("send", 0, rng.choice([1, 1, 2, 3]))] * n + [("send", 1, 4), ("settle",)]
    return {"actors": actors, "msgs": msgs, "ops": ops, "family": "hot_mailbox"}


def f12_signature(itr, verdict):
    """finding F12: every rejected code is 32 (a message handler started after stop() had returned), and for each such
    actor the offending handler start is the 128k-th consecutive pick of a run of handlers that never suspended, the
    stop request having arrived between the previous handler's end and that start (no handler of the actor was running)"""
    try:
        codes = verdict[1] if isinstance(verdict, tuple) else verdict
        if not isinstance(codes, list) or not any(c == 32 for c in codes) or any(c not in (0, 32) for c in codes):
            return False
        if isinstance(verdict, tuple) and len(verdict) > 2 and verdict[2] != "true":
            return False
        for a, c in enumerate(codes):
            if c != 32:
                continue
            streak = 0
            stop_at = None
            running = False
            ok = False
            for e in itr:
                if not isinstance(e, tuple):
                    continue
                k = e[0]
                if k == "TStopReq" and e[1] == a and stop_at is None:
                    if running:
                        return False
                    stop_at = streak
                elif k in ("TPark", "TWake") and e[1] == a:
                    streak = 0
                elif k == "TEnter" and e[1] == a:
                    cb = e[2]
                    if isinstance(cb, tuple) and cb[0] == "Handle":
                        if stop_at is not None:
                            ok = (streak % 128 == 127)
                            break
                        streak += 1
                        running = True
                    else:
                        streak = 0
                elif k == "TExit" and e[1] == a:
                    running = False
            if not ok:
                return False
        return True
    except Exception:
        return False


def gen_draining_supervisor(rng):
    """A supervisor with a custom supervision handler has drain() requested while it is parked in a
    handler with a backlog behind it; meanwhile its children stop / are killed / fail / start.  It is
    alive and still serves its supervision port: every child's events must be handled before the next
    backlog message (seeded regression C04-3: supervision events rejected once the receiver is
    Draining)."""
    trivial = ([], ("ok",))
    nk = rng.choice([1, 2, 2, 3])
    actors = [{"pre": trivial, "ps": trivial, "stop": ([("t",)], ("ok",)), "sup": ([("t",)] * rng.choice([0, 1]), ("ok",)), "link": None}]
    for i in range(1, nk + 1):
        actors.append({"pre": trivial, "ps": trivial, "stop": ([("t",)] * rng.choice([0, 1]), ("ok",)), "sup": None, "link": 0})
    msgs = {1: ([("g", 1)], ("ok",)), 2: ([("t",)], ("ok",)), 3: trivial, 4: ([("t",)], (rng.choice(["e", "p"]), 5))}
    ops = [("spawn", 0), ("settle",)]
    late = [i for i in range(1, nk + 1) if rng.random() < 0.3]
    for i in range(1, nk + 1):
        if i not in late:
            ops += [("spawn", i), ("settle",)]
    ops += [("send", 0, 1)] + [("send", 0, rng.choice([2, 3]))] * rng.choice([1, 2, 3]) + [("settle",), ("drain", 0), ("settle",)]
    for i in range(1, nk + 1):
        if i in late:
            ops += [("spawn", i)]          # a linked spawn under a draining supervisor is refused
        else:
            ops += [rng.choice([("stop", i, None), ("kill", i), ("drain", i), ("send", i, 4), ("stop", i, 10)])]
        ops += [("settle",)]
    ops += [("open", 1), ("settle",)]
    return {"actors": actors, "msgs": msgs, "ops": ops}


def gen_fail_with_pending_stop(rng):
    """A callback after pre_start fails (Err or panic) while a graceful stop / drain request for the
    same actor is already pending: the handler itself asked for the stop before failing, or an outside
    stop arrived while the failing handler was parked.  The failure still wins: no post_stop, no
    further handler, the supervisor is told ActorFailed (seeded regression C01-3: a 'stop pending'
    fast path after the handler dropped the handler's Err and left through the graceful path)."""
    trivial = ([], ("ok",))
    fin = (rng.choice(["e", "e", "p", "f", "q", "z"]), rng.choice([5, 6, 7]))
    where = rng.choice(["msg", "msg", "msg", "sup", "ps"])
    inside = rng.random() < 0.5          # the callback itself requests the stop
    req = lambda: rng.choice([("x", 1, None), ("x", 1, 10), ("d", 1)])
    body = ([("t",)] * rng.choice([0, 1]) + [req()] + [("t",)] * rng.choice([0, 1])) if inside else [("t",)] * rng.choice([0, 1]) + [("g", 1)]
    failing = (body, fin)
    sup0 = rng.choice([None, ([("t",)], ("ok",))])
    actors = [{"pre": trivial, "ps": trivial, "stop": ([("t",)], ("ok",)), "sup": sup0, "link": None},
              {"pre": trivial, "ps": failing if where == "ps" else trivial, "stop": ([("t",)], ("ok",)),
               "sup": failing if where == "sup" else None, "link": 0}]
    if where == "sup":
        actors.append({"pre": trivial, "ps": trivial, "stop": trivial, "sup": None, "link": 1})
    msgs = {1: failing if where == "msg" else trivial, 2: ([("t",)], ("ok",)), 3: trivial, 4: trivial}
    ops = [("spawn", 0), ("settle",), ("spawn", 1), ("settle",)]
    if where == "msg":
        ops += [("send", 1, 1)]
        if rng.random() < 0.5:
            ops += [("send", 1, 2)]
    elif where == "sup":
        ops += [("spawn", 2), ("settle",)]      # ActorStarted(2) runs the failing supervision handler of 1
    if not inside:
        ops += [("settle",), rng.choice([("stop", 1, None), ("stop", 1, 10), ("drain", 1)])]
        if rng.random() < 0.5:
            ops += [("settle",)]
        ops += [("open", 1)]
    ops += [("settle",)]
    if rng.random() < 0.5:
        ops += [("send", 0, 2), ("settle",)]
    return {"actors": actors, "msgs": msgs, "ops": ops}


# ------------------------------------------------------------------ rendering

def eff_line(e):
    k = e[0]
    if k == "g":
        return f"g{e[1]}"
    if k == "t":
        return "t"
    if k == "s":
        return f"s{e[1]}:{e[2]}"
    if k == "x":
        return f"x{e[1]}:{'n' if e[2] is None else e[2]}"
    if k == "k":
        return f"k{e[1]}"
    if k == "d":
        return f"d{e[1]}"
    raise ValueError(e)


def script_line(s):
    effs, fin = s
    f = "ok" if fin[0] == "ok" else f"{fin[0]}{fin[1]}"
    return ",".join(eff_line(e) for e in effs) + "/" + f


def op_line(o):
    if o[0] == "stop":
        return f"stop {o[1]} {'n' if o[2] is None else o[2]}"
    return " ".join(str(x) for x in o)


MODES = ("send", "local-adapter", "local-native", "remote-shim")
LOCAL_MODES = ("local-adapter", "local-native")   # thread-local hosts (model: c_local = true)
# remote-shim: actors with a REMOTE ActorId (ActorRuntime::spawn_linked_remote, messages through
# box_message -> SerializedMessage -> handle_serialized) on the paused main runtime; to the model an
# ordinary Send actor (actor.rs::start is shared: link after pre_start, state reported)


def to_line(sc, mode="send"):
    """mode "send" renders exactly the historical line (no mode section)"""
    if mode != "send":
        return f"mode: {mode} | " + to_line(sc)
    acts = " ; ".join(
        f"pre={script_line(a['pre'])} ps={script_line(a['ps'])} stop={script_line(a['stop'])} "
        f"sup={('tdef' if a.get('tdef') else 'def') if a['sup'] is None else script_line(a['sup'])} link={'-' if a['link'] is None else a['link']}"
        + (" boom=y" if a.get("boom") else "")
        for a in sc["actors"])
    msgs = " ; ".join(f"{m}={script_line(s)}" for m, s in sorted(sc["msgs"].items()))
    ops = " ; ".join(op_line(o) for o in sc["ops"])
    return f"actors: {acts} | msgs: {msgs} | ops: {ops}"


def onat(x):
    return "None" if x is None else f"(Some {x})"


def eff_coq(e):
    k = e[0]
    return {"g": lambda: f"EGate {e[1]}", "t": lambda: "ETick", "s": lambda: f"ESend {e[1]} {e[2]}",
            "x": lambda: f"EStop {e[1]} {onat(e[2])}", "k": lambda: f"EKill {e[1]}",
            "d": lambda: f"EDrain {e[1]}"}[k]()


def script_coq(s):
    effs, fin = s
    f = {"ok": "ROk", "e": "RErr", "f": "RErr", "p": "RPanic", "q": "RPanic", "z": "RPanic", "y": "RPanic"}[fin[0]]
    f += "" if fin[0] == "ok" else (f" {UNKNOWN_PANIC}" if fin[0] == "z" else f" {fin[1]}")
    return "([" + "; ".join(eff_coq(e) for e in effs) + f"], {f})"


def cfg_coq(a, local=False):
    """local: the actor is hosted on a ThreadLocalActorSpawner (c_local: link before pre_start, no state reported)"""
    sup = "SupDefault" if a["sup"] is None else f"(SupScript {script_coq(a['sup'])})"
    return (f"mkCfg {script_coq(a['pre'])} {script_coq(a['ps'])} {script_coq(a['stop'])} {sup} {onat(a['link'])} "
            + ("true" if local else "false"))


def op_coq(o, mode="send"):
    k = o[0]
    if k == "spawn" and mode == "remote-shim":
        # spawn_linked_remote is not an instant spawn: the engine polls its future once at the op
        # (cell, Starting, pre_start up to its first suspension point)
        return f"DL (LSpawn {o[1]}); DL (LPoll {o[1]} {FUEL})"
    if k == "sends":
        return f"DL (LSend {o[1]} {o[2]})"   # the same message in wire form (ActorCell::send_serialized)
    if k == "sendn":
        return ""       # rejected by box_message (no wire format for a remote pid): not a model step
    return {"spawn": lambda: f"DL (LSpawn {o[1]})", "send": lambda: f"DL (LSend {o[1]} {o[2]})",
            "stop": lambda: f"DL (LStop {o[1]} {onat(o[2])})", "kill": lambda: f"DL (LKill {o[1]})",
            "drain": lambda: f"DL (LDrain {o[1]})", "open": lambda: f"DL (LOpen {o[1]})",
            "abort": lambda: f"DL (LAbort {o[1]})", "settle": lambda: "DSettle",
            # spawn to completion by the awaiting task, loop handle aborted before the loop task's first poll
            "spawnx": lambda: f"DL (LSpawn {o[1]}); DL (LPoll {o[1]} 60); DL (LAbort {o[1]})"}[k]()


ROOT_CFG = {"pre": [[], ["ok"]], "ps": [[], ["ok"]], "stop": [[], ["ok"]], "sup": [[], ["ok"]], "link": None}


def world_coq(sc, local=False, mode="send"):
    acts = sc["actors"]
    if mode == "remote-shim":
        # spawn_linked_remote always links: a `link=-` actor hangs under the harness root, which is actor
        # n of the model world (created by the first model op, never polled, outside every view); the
        # link is observable: it fails for a child that drained itself during pre_start
        n = len(acts)
        acts = [dict(a, link=n) if a["link"] is None else a for a in acts] + [ROOT_CFG]
    cfgs = "[" + "; ".join(cfg_coq(a, local) for a in acts) + "]"
    msgs = "[" + "; ".join(f"({m}, {script_coq(s)})" for m, s in sorted(sc["msgs"].items())) + "]"
    return f"(init {cfgs} {msgs})"


def ops_coq(sc, mode="send"):
    pre = [f"DL (LSpawn {len(sc['actors'])})"] if mode == "remote-shim" else []
    return "[" + "; ".join(pre + [x for x in (op_coq(o, mode) for o in sc["ops"]) if x]) + "]"


def is_tdef(sc, i):
    return i is not None and i < len(sc["actors"]) and bool(sc["actors"][i].get("tdef")) and sc["actors"][i]["sup"] is None


def olink(sc, a):
    """the spawn-link as the ORACLES see it: a supervisor hosted with the trait's own default
    handle_supervisor_evt (sup=tdef) logs nothing about what it handles, so the trace oracles cannot
    speak about its children (the model comparison of the per-actor views does)"""
    return None if is_tdef(sc, a["link"]) else a["link"]


def links_only_coq(sc, true_links=False):
    """true_links: the real spawn-links, for the settled-trace oracles: a supervisor with the default
    handler stops itself on a child's terminal event, so "alive and idle at the end with an ended child
    and no terminal event handled" is wrong for it too, although it logs no handling"""
    return "[" + "; ".join(onat(a["link"] if true_links else olink(sc, a)) for a in sc["actors"]) + "]"


def sprinkle_sends(sc, rng, p=0.3):
    """a share of the driver's sends is delivered in wire form (`sends`: ActorCell::send_serialized, the path of a
    message from another node; a local actor decodes it in handle_message, then the same handler runs). Same
    model step (LSend).  Seed C01-7: a handler error on that path was swallowed like a decode failure."""
    sc["ops"] = [("sends", o[1], o[2]) if o[0] == "send" and rng.random() < p else o for o in sc["ops"]]
    return sc


def gen_boom(rng, remote=False):
    """The actor's State has a destructor that panics when the RUNTIME drops the final state (engine `boom=y`):
    an unsupervised actor exits gracefully (its terminal event, carrying the state, is dropped inside the exit
    cleanup) or through a failing handler (the state dies with the task); or the same child under a living
    supervisor with its own handler (graceful: the harness takes the state out of the event; failure: as above).
    Whatever the destructor does, the exit cleanup must complete: status Stopped at teardown, supervisor told
    (seed C06-8: cleanup disarmed itself up-front and stayed half-done when the drop unwound it).
    Kept to this family: a state left in the queue of a supervisor that dies unread panics in THAT actor's task,
    which is the user's destructor's doing, not the runtime's.  remote: no root-supervised boom actor (the
    harness root would drop the event inside its own handler)."""
    n = 2 if remote else rng.choice([1, 2])
    actors = []
    if n == 2:
        actors.append({"pre": ([], ("ok",)), "ps": ([], ("ok",)), "stop": ([("t",)], ("ok",)),
                       "sup": ([("t",)] * rng.choice([1, 2]), ("ok",)), "link": None})
    victim = n - 1
    actors.append({"pre": ([("t",)] * rng.choice([0, 1]), ("ok",)), "ps": ([], ("ok",)),
                   "stop": ([("t",)] * rng.choice([0, 1, 2]), ("ok",)), "sup": None,
                   "link": 0 if n == 2 else None, "boom": True})
    bad = (rng.choice(["e", "f", "p", "q", "z"]), rng.choice([5, 6, 7]))
    msgs = {1: ([("t",)], bad), 2: ([("t",)], ("ok",)), 3: ([], ("ok",)), 4: ([("t",), ("t",)], ("ok",))}
    ops = []
    for i in range(n):
        ops += [("spawn", i), ("settle",)]
    for _ in range(rng.choice([0, 1, 2])):
        ops.append((rng.choice(["send", "sends"]), victim, rng.choice([2, 3, 4])))
    ops.append(("settle",))
    ops.append(rng.choice([("stop", victim, None), ("stop", victim, 10), ("drain", victim),
                           ("send", victim, 1), ("sends", victim, 1)]))
    ops.append(("settle",))
    if n == 2 and rng.random() < 0.5:
        ops += [("send", 0, 2), ("settle",)]
    return {"actors": actors, "msgs": msgs, "ops": ops}


def has_boom(sc):
    return any(a.get("boom") for a in sc["actors"])


def prep_impl(sc, it, join_panic=()):
    """sup=tdef actors: the default handler's `myself.stop(None)` cannot be logged; the lifecycle
    recogniser wants a graceful cause before post_stop, so a `TStopReq i None` is put right in front of
    `TEnter i PostStop` when no stop / drain of i was logged (whether the default handler stopped for the
    right events is decided by the view comparison with the model, not by this)"""
    td = [i for i in range(len(sc["actors"])) if is_tdef(sc, i)]
    if not td and not join_panic:
        return it
    tr = parse_term(re.sub(r"\(\*.*?\*\)", "", it))
    out, graced = [], set()
    for e in tr:
        if isinstance(e, tuple) and e[0] in ("TStopReq", "TDrainReq"):
            graced.add(e[1])
        if isinstance(e, tuple) and e[0] == "TEnter" and e[2] == "PostStop" and e[1] in td and e[1] not in graced:
            out.append(("TStopReq", e[1], "None"))
            graced.add(e[1])
        out.append(e)
    # boom=y scenarios: a join handle that completed carrying the panic of the user's State destructor DID
    # complete (C04 speaks of panics in callbacks; a destructor is none) - for the settled oracles it is a join
    for c in join_panic:
        out.append(("TJoin", c))
    return show_term(out)


def maybe_tdef(sc, rng, p=0.2):
    """with probability p every `sup=def` actor of the scenario is hosted by a type that does not override
    handle_supervisor_evt (engine `sup=tdef`); same model (SupDefault)"""
    if rng.random() < p:
        for a in sc["actors"]:
            if a["sup"] is None:
                a["tdef"] = True
    return sc


def orders(n, full=False):
    """poll orders under which the model is evaluated; the implementation's scheduler is one more.
    full: every permutation, plain and with each actor polled twice in a row (thread-local modes: the
    LocalSet serves a local and a remote run queue, so its order is less FIFO-like than the single
    queue of the current_thread scheduler; agreement of ALL round-robin orders is demanded there)"""
    asc = list(range(n))
    desc = list(reversed(asc))
    if full:
        import itertools
        ps = [list(p) for p in itertools.permutations(asc)]
        return ps + [[i for i in p for _ in (0, 1)] for p in ps]
    return [asc, desc, asc[1:] + asc[:1], [i for i in asc for _ in (0, 1)], [i for i in desc for _ in (0, 1)]]


def model_expr(sc, order, local=False, mode="send"):
    o = "[" + "; ".join(str(i) for i in order) + "]"
    return f"trace_of (run_dops {ROUNDS} {FUEL} {o} {world_coq(sc, local, mode)} {ops_coq(sc, mode)})"


def links_coq(sc, mode="send"):
    """the oracle's view of the configuration: `<links> <locals>` (two Coq lists: spawn-links, and
    which actors are thread-local = all of them in the local modes), as check_C04 takes them"""
    links = "[" + "; ".join(onat(olink(sc, a)) for a in sc["actors"]) + "]"
    locs = "[" + "; ".join(("true" if mode in LOCAL_MODES else "false") for _ in sc["actors"]) + "]"
    return links + " " + locs


# ------------------------------------------------------------------ views

OWN = {"TEnter", "TTick", "TPark", "TWake", "TExit", "TCancel", "TAborted"}
LATE = {"TSpawnRet", "TJoin"}   # logged by harness tasks that observe a JoinHandle: position not determined


def per_actor(trace, n, hide_sup=(), hide_join=()):
    """each actor's own callback events, in order (cross-actor order is scheduler-dependent),
    followed by the sorted results observed through join handles.
    hide_sup: actors whose supervision-handler events are left out (sup=tdef: unobservable)"""
    v = {i: [] for i in range(n)}
    late = {i: [] for i in range(n)}
    for e in trace:
        if isinstance(e, tuple) and isinstance(e[1], int) and e[1] in v:
            if e[1] in hide_sup and e[0] in ("TEnter", "TExit", "TCancel") and isinstance(e[2], tuple) and e[2][0] == "Sup":
                continue
            if e[1] in hide_join and e[0] == "TJoin":
                continue
            if e[0] in OWN:
                v[e[1]].append(e)
            elif e[0] in LATE:
                late[e[1]].append(e)
    for i in v:
        v[i] = v[i] + sorted(late[i], key=show_term)
    return v


def view_str(v):
    return {str(k): [show_term(e) for e in es] for k, es in v.items()}


def phase_reached(trace):
    ks = set()
    for e in trace:
        if isinstance(e, tuple):
            if e[0] == "TEnter":
                c = e[2]
                ks.add(c if isinstance(c, str) else c[0])
            elif e[0] in ("TCancel", "TAborted", "TPark"):
                ks.add(e[0])
            elif e[0] == "TExit" and e[3] != "ROk":
                ks.add("fail")
    return ks


# ------------------------------------------------------------------ the common driver

TRUSTED = [
    "Coq 8.16.1 kernel (coqc); vm_compute evaluates the model on scenarios and the oracles on implementation traces",
    "no axioms: every property theorem prints 'Closed under the global context'",
    "hand-written model coq/Loop/World.v of ractor/src/actor.rs + actor_cell.rs + supervision.rs; tied to the code by E1 differential runs (this check)",
    "modelled, not verified: tokio select!{biased}, oneshot/mpsc channels, JoinHandle::abort dropping the future at an await point, catch_unwind, Rust &mut exclusivity (no two callbacks of one actor can overlap)",
    "E1 engine: tokio current_thread runtime with start_paused(true); sleep(1ns) as exact quiescence barrier; harness actors interpret scripts",
    "scenarios whose outcome depends on the poll order of different actors within one settle window (detected by evaluating the model under three poll orders) are excluded from the comparison",
    "thread-local modes: actors run on the ThreadLocalActorSpawner's OS thread; the harness freezes that thread while the driver or the main runtime runs and decides its idleness from /proc/self/task (state S + unchanged scheduling counters in 3 consecutive samples, docs/notes/C01-threadlocal.md); a bound of 10 s per settle ends the run as an infrastructure failure, never as a verdict",
    "remote-shim mode: actors with a remote ActorId on the paused main runtime; to the model ordinary Send actors (ActorRuntime::start is shared); link=- actors hang under an invisible harness root because spawn_linked_remote needs a supervisor; the spawn op polls spawn_linked_remote once at once (model: LSpawn; LPoll); no name / pid registry, no pg, no NodeSession involved (docs/notes/C01-remote-shim.md)",
    "thread-local modes: the model runs with c_local = true (link before pre_start, atomically with the start of pre_start although the real builder crosses to the spawner thread in between; ActorTerminated never carries the non-Send state: check_C04's locals argument)",
]


def _variants(sc):
    """one-step reductions of a scenario: drop one driver op, drop one script effect"""
    out = []
    for k in range(len(sc["ops"])):
        if sc["ops"][k][0] == "spawn":
            continue
        v = json.loads(json.dumps(sc))
        del v["ops"][k]
        out.append(v)
    for ai, a in enumerate(sc["actors"]):
        for field in ("pre", "ps", "stop", "sup"):
            scr = a[field]
            if not scr:
                continue
            for k in range(len(scr[0])):
                v = json.loads(json.dumps(sc))
                del v["actors"][ai][field][0][k]
                out.append(v)
    for m, scr in sc["msgs"].items():
        for k in range(len(scr[0])):
            v = json.loads(json.dumps(sc))
            del v["msgs"][str(m)][0][k]
            out.append(v)
    for v in out:
        v["msgs"] = {int(k): x for k, x in v["msgs"].items()}
    return out


def shrink(chk, build, sc, oracle_fn, accept, rounds=25, mode="send"):
    """greedy delta-debugging of an oracle-rejected scenario against the real code: keep a
    reduction as long as the oracle still rejects the implementation's trace"""
    cur = sc
    for _ in range(rounds):
        vs = _variants(cur)
        if not vs:
            break
        impl = run_harness(build, "eng_world", [to_line(v, mode) for v in vs], shards=8)
        def _jp(v, it):
            m = re.search(r"\(\* JOIN-PANIC ([\d ]+)\*\)", it)
            return [int(x) for x in m.group(1).split()] if (m and has_boom(v)) else ()
        exprs = [oracle_fn(len(v["actors"]), links_coq(v, mode), prep_impl(v, it, _jp(v, it))) for v, it in zip(vs, impl)]
        res = coq_eval(chk.prop + "_shrink", IMPORTS, exprs, scope="nat_scope")
        nxt = None
        for v, r in zip(vs, res):
            if not accept(parse_term(r)):
                nxt = v
                break
        if nxt is None:
            break
        cur = nxt
    it = run_harness(build, "eng_world", [to_line(cur, mode)])[0]
    return cur, it


def is_linked(sc):
    return any(a["link"] is not None for a in sc["actors"])


def compare_build(chk, scs, build, tag, oracle_fn, accept, what, distinct, mode="send", complete_fn=None):
    """every scenario is judged by the oracle and compared with the model; in the local modes
    (thread-local hosts, see eng_world.rs) the model is run with c_local = true for every actor
    (coq/Loop/World.v: link before pre_start, no state in ActorTerminated) and the order
    insensitivity is checked over ALL round-robin orders.
    complete_fn(links, trace_expr) -> Coq bool expression: an "at least once" oracle for settled traces
    (C04: check_C04_complete).  It is evaluated on the implementation's trace AND on the model's own
    trace of the same scenario; an implementation trace it rejects is a violation (failing input) only
    if the model's own trace is accepted - otherwise the oracle does not apply to that scenario
    (counted as complete_oracle_inapplicable, never an alarm)."""
    shrunk = False
    compared = discarded = 0
    local = mode in LOCAL_MODES
    pre = f"local.{mode}." if local else ("" if mode == "send" else f"{mode}.")
    impl = run_harness(build, "eng_world", [to_line(sc, mode) for sc in scs], shards=8)
    # teardown report of the harness: actors that were still not Stopped after the final kill() + settle
    survived = {}
    for k, it in enumerate(impl):
        m = re.search(r"\(\* SURVIVED-KILL ([\d ]+)\*\)", it)
        if m:
            survived[k] = [int(x) for x in m.group(1).split()]
            impl[k] = it[:m.start()].rstrip()
    # ... and graceful ActorTerminated events whose boxed state was not the subject's final state
    bad_state = {}
    for k, it in enumerate(impl):
        m = re.search(r"\(\* BAD-STATE (.*?) \*\)", it)
        if m:
            bad_state[k] = m.group(1)
            impl[k] = it[:m.start()].rstrip()
    # ... and join handles that completed with a panic
    join_panic = {}
    for k, it in enumerate(impl):
        m = re.search(r"\(\* JOIN-PANIC ([\d ]+)\*\)", it)
        if m:
            join_panic[k] = [int(x) for x in m.group(1).split()]
            impl[k] = it[:m.start()].rstrip()
    oimpl = [prep_impl(sc, it, join_panic.get(k, ()) if has_boom(sc) else ())
             for k, (sc, it) in enumerate(zip(scs, impl))]   # what the trace oracles read
    exprs = []
    with_model = [True for sc in scs]
    for sc, it, wm in zip(scs, oimpl, with_model):
        n = len(sc["actors"])
        if wm and complete_fn:
            lk = links_only_coq(sc, true_links=True)
            ms = "; ".join(f"(let tm := {model_expr(sc, o, local, mode)} in (tm, {complete_fn(lk, 'tm')}))"
                           for o in orders(n, full=local))
            exprs.append(f"([{ms}], (let ti := {it} in ({oracle_fn(n, links_coq(sc, mode), 'ti')}, {complete_fn(lk, 'ti')})))")
        elif wm:
            ms = ", ".join(model_expr(sc, o, local, mode) for o in orders(n, full=local))
            exprs.append(f"({ms}, {oracle_fn(n, links_coq(sc, mode), it)})")
        else:
            exprs.append(f"(0, {oracle_fn(n, links_coq(sc, mode), it)})")
    res = coq_eval(chk.prop + ("" if mode == "send" else "_" + mode.replace("-", "_")), IMPORTS, exprs, scope="nat_scope")
    for idx, (sc, it, r, wm) in enumerate(zip(scs, impl, res, with_model)):
        n = len(sc["actors"])
        t = parse_term(r)
        models, oracle = (t[1:-1] if wm else []), t[-1]
        mcomplete, icomplete = None, None
        if wm and complete_fn:
            mcomplete = [m[2] == "true" for m in t[1]]
            models = [m[1] for m in t[1]]
            oracle, icomplete = t[2][1], t[2][2] == "true"
        itr = parse_term(it)
        chk.coverage["evaluations"] += 1
        ph = phase_reached(itr)
        for p in ph:
            chk.count(pre + "reached." + p)
        for o in sc["ops"]:
            chk.count(pre + "op." + o[0])
        hide = {i for i in range(n) if is_tdef(sc, i)}
        # boom=y: whether the join handle of an actor whose State destructor panics completes normally or with
        # that panic is not compared (it completes; the status check at teardown stays)
        hjoin = ({i for i in range(n) if sc["actors"][i].get("boom")} | set(join_panic.get(idx, ()))) if has_boom(sc) else set()
        vi = per_actor(itr, n, hide, hjoin)
        desc = {"scenario": to_line(sc, mode), "impl_trace": it}
        if idx in join_panic and not has_boom(sc):
            desc["join_handle_panicked"] = join_panic[idx]
            chk.violation(f"the join handles of actors {join_panic[idx]} completed with a panic",
                          f"{chk.prop}: a panic escaped the actor task: the join handle of actors {join_panic[idx]} completed with a JoinError (panic); "
                          f"no user code outside the callbacks panics in this scenario\n"
                          + json.dumps(desc, indent=1) + f"\nbuild: {tag}" + "\nreplay: echo '<scenario>' | harness/target/debug/eng_world\n",
                          failing_input=(chk.prop == "C04"))
            continue
        if idx in bad_state:
            desc["bad_state"] = bad_state[idx]
            chk.violation("a graceful ActorTerminated carried a state that is not the subject's final state",
                          f"{chk.prop}: ActorTerminated(child, Some(state), reason) was handled, and BoxedState::take gave something else than the "
                          f"child's own state as its last callback left it: {bad_state[idx]} (subject, what arrived)\n"
                          + json.dumps(desc, indent=1) + f"\nbuild: {tag}" + "\nreplay: echo '<scenario>' | harness/target/debug/eng_world\n",
                          failing_input=(chk.prop == "C04"))
            continue
        if idx in survived:
            # kill is immediate (C03): for C03 this is the property itself; for the other checks built on
            # this engine it means the runs are no longer comparable (the correspondence is broken)
            desc["survived_final_kill"] = survived[idx]
            chk.violation(f"actors {survived[idx]} were not Stopped after the harness's final kill() and settle",
                          f"{chk.prop}: after the scenario below every gate was opened and kill() was called on every actor; once the runtime was quiescent "
                          f"actors {survived[idx]} had still not reached Stopped (kill() lost or not acted upon)\n"
                          + json.dumps(desc, indent=1) + f"\nbuild: {tag}" + "\nreplay: echo '<scenario>' | harness/target/debug/eng_world\n",
                          failing_input=(chk.prop == "C03"))
            continue
        if not accept(oracle) and chk.prop == "C03" and "F12" in {f["id"] for f in chk.finding_entries()} \
                and f12_signature(itr, oracle):
            chk.known_finding("F12", "a stop() that lands in the forced cooperative-budget yield between the 128th consecutive message pick and "
                                     "its handler's first poll is followed by one more handler start (tokio coop budget; hot mailbox of "
                                     ">= 128 non-suspending handlers); e.g. corpus/C03/f12_hot_mailbox_stop.json")
            chk.count(pre + "known.F12")
            continue
        if not accept(oracle):
            if not shrunk:
                # minimise the first failing scenario against the real code
                shrunk = True
                try:
                    small, small_trace = shrink(chk, build, sc, oracle_fn, accept, mode=mode)
                    desc["minimised_scenario"] = to_line(small, mode)
                    desc["minimised_impl_trace"] = small_trace
                    desc["minimised_scenario_json"] = {"actors": small["actors"], "msgs": {str(k): v for k, v in small["msgs"].items()}, "ops": small["ops"]}
                except Exception as ex:  # shrinking is best effort
                    desc["minimise_error"] = str(ex)[:300]
            chk.violation(f"{what}: oracle rejects the implementation's trace (verdict {show_term(oracle)})",
                          f"{chk.prop} oracle rejects the implementation trace; verdict = {show_term(oracle)}\n"
                          + json.dumps(desc, indent=1) + f"\nbuild: {tag}" + "\nreplay: echo '<scenario>' | harness/target/debug/eng_world\n")
            continue
        if not wm:
            # (unused since the model covers the thread-local start order: with_model is always true)
            chk.count(pre + "oracle_only_linked")
            if len(ph) >= 3:
                distinct.add(json.dumps([mode, view_str(vi)], sort_keys=True))
            continue
        if local:
            chk.count(pre + ("model_compared_linked" if is_linked(sc) else "model_compared_unlinked"))
        vs = [per_actor(m, n, hide, hjoin) for m in models]
        v1 = vs[0]
        if icomplete is False:
            # the "at least once" oracle rejects the implementation's trace: which model run is "the same run"?
            same = [k for k, v in enumerate(vs) if v == vi]
            ref = same if same else (list(range(len(vs))) if all(v == v1 for v in vs) else [])
            if ref and all(mcomplete[k] for k in ref):
                desc["model_trace_accepted_by_complete_oracle"] = True
                chk.violation(f"{what}: a supervision event is missing or a failing callback escaped the actor task (the settled-trace oracle rejects the implementation's settled trace and accepts the model's)",
                              f"{chk.prop} settled-trace oracle rejects the implementation trace (a started child has ended, its supervisor is alive and idle, and has handled no terminal event about it; or an actor with a failed callback has no normally completed join handle)\n"
                              + json.dumps(desc, indent=1) + f"\nbuild: {tag}" + "\nreplay: echo '<scenario>' | harness/target/debug/eng_world\n")
                continue
            chk.count(pre + ("complete_oracle_inapplicable" if ref else "complete_oracle_unjudged_order_sensitive"))
            if ref and len(chk.coverage.setdefault("complete_inapplicable_samples", [])) < 3:
                chk.coverage["complete_inapplicable_samples"].append({"scenario": to_line(sc, mode), "impl_trace": it})
        elif icomplete:
            chk.count(pre + "complete_oracle_accepts")
        if not all(v == v1 for v in vs):
            # the outcome depends on the poll order of different actors inside one settle window:
            # the implementation's scheduler picks one order; it is compared only if it coincides
            # with one of the evaluated orders, otherwise the scenario is left out
            if any(v == vi for v in vs):
                chk.count(pre + "order_sensitive.matched")
                compared += 1
            else:
                discarded += 1
                chk.count(pre + "order_sensitive.left_out")
            continue
        compared += 1
        if len(ph) >= 3:
            distinct.add(json.dumps(view_str(vi), sort_keys=True))
        if v1 != vi:
            chk.coverage["disagreements_checked"] += 1
            who = [i for i in range(n) if v1[i] != vi[i]]
            desc["model_view"] = view_str(v1)
            desc["impl_view"] = view_str(vi)
            chk.violation(f"model/implementation disagree on actor(s) {who}",
                          f"correspondence E1:per-actor view differs for actor(s) {who} (oracle accepts)\n"
                          + json.dumps(desc, indent=1), failing_input=False)
        if len([x for x in chk.coverage["samples"] if x.get("mode", "send") == mode]) < (2 if mode == "send" else 1) and len(ph) >= 5:
            smp = {"scenario": to_line(sc, mode), "impl_trace": it}
            if mode != "send":
                smp["mode"] = mode
            chk.coverage["samples"].append(smp)
    return compared, discarded


def gen_local(rng, k, focus):
    """scenarios for the thread-local hosts: 3 of 5 without any spawn-link, the rest spawn-linked
    trees and supervision bursts (all compared with the model, c_local = true)"""
    if k % 8 == 7:
        sc = gen_abort_in_post_stop(rng)
    elif k % 20 == 13:
        sc = gen_fail_with_pending_stop(rng)
    elif k % 20 == 3:
        sc = gen_backlog_then_sup(rng)
    elif k % 20 == 9:
        sc = gen_request_during_post_start(rng)
    elif k % 20 == 16:
        sc = gen_wire_handler_fails(rng)
    elif k % 5 < 3:
        sc = gen_scenario(rng, focus if k % 2 else "mixed", link_p=0.0)
    elif k % 5 == 3:
        sc = gen_scenario(rng, focus if k % 2 else "mixed")
    else:
        sc = gen_supburst(rng)
    # An abort is alone in its burst (the generator already settles before it; here also after it).
    # Aborting a thread-local actor that is still inside start() cancels a task of the MAIN runtime;
    # its effect (the builder on the spawner thread is dropped, the subtree is killed) reaches the
    # spawner one hop later than the wake-ups of operations issued after it in the same burst, whereas
    # the model's LAbort (like the single run queue of mode `send`) takes effect at once.
    ops = []
    for i, o in enumerate(sc["ops"]):
        ops.append(o)
        if o[0] == "abort" and (i + 1 == len(sc["ops"]) or sc["ops"][i + 1][0] != "settle"):
            ops.append(("settle",))
    sc["ops"] = ops
    return sc


def gen_kill_parked_handler(rng):
    """A message handler is parked at a gate (for a remote-id actor: inside handle_serialized); the actor
    is killed (or stopped / drained, for contrast) and only then the gate opens: a killed actor's handler
    must be cancelled at its suspension point and must not tick again (C03 rule 33, seed C03-6)."""
    n = rng.choice([1, 2, 2, 3])
    gates = [1]
    actors = []
    for i in range(n):
        actors.append({"pre": ([("t",)] * rng.choice([0, 1]), ("ok",)), "ps": ([], ("ok",)),
                       "stop": ([("t",)], ("ok",)),
                       "sup": None if i else ([("t",)], ("ok",)),
                       "link": None if i == 0 else rng.choice([None, 0])})
    msgs = {}
    mg = {}
    for m in (1, 2, 3, 4):
        g = gates[0]
        gates[0] += 1
        mg[m] = g
        msgs[m] = ([("t",)] * rng.choice([0, 1]) + [("g", g)] + [("t",)] * rng.choice([1, 2]), ("ok",))
    ops = []
    for i in range(n):
        ops += [("spawn", i), ("settle",)]
    used = []
    for i in range(n):
        m = rng.choice([1, 2, 3, 4])
        used.append(m)
        ops.append(("send", i, m))
        if rng.random() < 0.3:
            ops.append(("send", i, rng.choice([1, 2, 3, 4])))
    ops.append(("settle",))
    for i in range(n):
        ops.append(rng.choice([("kill", i), ("kill", i), ("kill", i), ("stop", i, None), ("drain", i)]))
        if rng.random() < 0.4:
            ops.append(("settle",))
    for g in range(1, gates[0]):
        ops.append(("open", g))
    ops.append(("settle",))
    return {"actors": actors, "msgs": msgs, "ops": ops}


def gen_sendn_linked(rng):
    """mode remote-shim: idle children under a living supervisor with its own supervision handler get
    casts of a message type WITHOUT wire format (`sendn`), mixed with ordinary sends.  box_message must
    reject them for a remote pid; if one got through, the shim would fail without any failed callback and
    the supervisor would hear an ActorFailed that check_C04's classification rejects (seed C02-5)."""
    n = rng.choice([2, 3])
    gates = [1]
    actors = [{"pre": ([], ("ok",)), "ps": ([], ("ok",)), "stop": ([("t",)], ("ok",)),
               "sup": ([("t",)], ("ok",)), "link": None}]
    for i in range(1, n):
        actors.append({"pre": ([("t",)] * rng.choice([0, 1]), ("ok",)), "ps": ([], ("ok",)),
                       "stop": ([], ("ok",)), "sup": None, "link": 0})
    msgs = {m: ([("t",)] * rng.choice([0, 1, 2]), ("ok",)) for m in (1, 2, 3, 4)}
    ops = [("spawn", 0), ("settle",)]
    for i in range(1, n):
        ops += [("spawn", i), ("settle",)]
    for _ in range(rng.choice([2, 3, 5])):
        a = rng.randrange(0, n)
        ops.append(rng.choice([("sendn", a, rng.choice([1, 2, 3, 4])), ("send", a, rng.choice([1, 2, 3, 4]))]))
        if rng.random() < 0.6:
            ops.append(("settle",))
    ops.append(("sendn", rng.randrange(1, n), 1))
    ops.append(("settle",))
    return {"actors": actors, "msgs": msgs, "ops": ops}


def gen_wire_handler_fails(rng):
    """A message delivered in WIRE form (`sends`: ActorCell::send_serialized, what a message from another node
    looks like) whose handler fails (Err / panic of any kind), with further messages queued behind it and a
    stop / drain afterwards: the failure ends the actor exactly like one of a typed message - no later handler,
    no post_stop, ActorFailed to the supervisor (seed C01-7: the wire path logged-and-dropped the handler's
    error together with decode errors)."""
    n = rng.choice([1, 2, 2])
    actors = [{"pre": ([], ("ok",)), "ps": ([], ("ok",)), "stop": ([("t",)], ("ok",)),
               "sup": ([("t",)], ("ok",)) if n > 1 else None, "link": None}]
    for i in range(1, n):
        actors.append({"pre": ([], ("ok",)), "ps": ([("t",)] * rng.choice([0, 1]), ("ok",)),
                       "stop": ([("t",)], ("ok",)), "sup": None, "link": 0})
    victim = n - 1
    bad = (rng.choice(["e", "f", "p", "q", "z"]), rng.choice([5, 6, 7]))
    msgs = {1: ([("t",)] * rng.choice([0, 1, 2]), bad), 2: ([("t",)], ("ok",)), 3: ([], ("ok",)), 4: ([("t",), ("t",)], ("ok",))}
    ops = []
    for i in range(n):
        ops += [("spawn", i), ("settle",)]
    if rng.random() < 0.5:
        ops += [(rng.choice(["send", "sends"]), victim, rng.choice([2, 3, 4])), ("settle",)]
    ops.append(("sends", victim, 1))
    for _ in range(rng.choice([1, 2, 3])):
        ops.append((rng.choice(["send", "sends"]), victim, rng.choice([2, 3, 4])))
        if rng.random() < 0.3:
            ops.append(("settle",))
    ops.append(("settle",))
    ops.append(rng.choice([("stop", victim, None), ("stop", victim, 10), ("drain", victim)]))
    ops.append(("settle",))
    return {"actors": actors, "msgs": msgs, "ops": ops}


def gen_sync_panic(rng):
    """mode send, default build: a callback written as `fn cb(..) -> impl Future` panics SYNCHRONOUSLY while it
    builds its future (`/y<k>`, host HY; no effects in such a script).  C04: the panic must not escape the actor:
    join handle completes normally, ActorFailed with the text.  Model: an ordinary RPanic k.
    Off unless RV_SYNC_PANIC=1: on the tree as of this commit do_post_start / do_post_stop call the callback
    OUTSIDE their catch_unwind, so `/y` in post_start or post_stop escapes (JOIN-PANIC, supervisor told
    "actor_task_cancelled"); handle and handle_supervisor_evt are inside the loop's catch_unwind and are fine."""
    n = rng.choice([1, 2, 2])
    where = rng.choice(["ps", "stop", "msg", "sup" if n > 1 else "msg"])
    y = ([], ("y", rng.choice([5, 6, 7])))
    ok = ([], ("ok",))
    actors = [{"pre": ok, "ps": ok, "stop": ([("t",)], ("ok",)),
               "sup": (y if where == "sup" else ([("t",)], ("ok",))) if n > 1 else None, "link": None}]
    for i in range(1, n):
        actors.append({"pre": ok, "ps": ok, "stop": ([("t",)], ("ok",)), "sup": None, "link": 0})
    victim = 0 if where == "sup" else n - 1
    if where == "ps":
        actors[victim]["ps"] = y
    if where == "stop":
        actors[victim]["stop"] = y
    msgs = {1: (y if where == "msg" else ([("t",)], ("ok",))), 2: ([("t",)], ("ok",)), 3: ok, 4: ok}
    ops = []
    for i in range(n):
        ops += [("spawn", i), ("settle",)]
    if where == "msg":
        ops += [("send", victim, 2), (rng.choice(["send", "sends"]), victim, 1), ("send", victim, 2), ("settle",)]
    if where == "stop":
        ops += [rng.choice([("stop", victim, None), ("stop", victim, 10), ("drain", victim)]), ("settle",)]
    if where == "sup":
        ops += [("send", 0, 2), ("settle",)]
    ops += [("stop", victim, None), ("settle",)]
    return {"actors": actors, "msgs": msgs, "ops": ops}


SYNC_PANIC = os.environ.get("RV_SYNC_PANIC", "1") == "1"   # on since fix F13 (/repo 51d0dd7); RV_SYNC_PANIC=0 switches the family off


def gen_remote(rng, k, focus):
    """scenarios for mode remote-shim (every actor has a remote ActorId and gets its messages through
    handle_serialized): the families of the Send mode except `spawnx`, gen_kill_parked_handler (1 in 10),
    gen_sendn_linked (1 in 20); 1 driver `send` in 8 is preceded
    by a `sendn` (cast of a message type without wire format: box_message must reject it for a remote
    pid; not a model step)"""
    if k % 8 == 7:
        sc = gen_abort_in_post_stop(rng)
    elif k % 10 == 1:
        sc = gen_kill_parked_handler(rng)
    elif k % 20 == 6:
        sc = gen_sendn_linked(rng)
    elif k % 20 == 9:
        sc = gen_wire_handler_fails(rng)
    elif k % 20 == 17:
        sc = gen_boom(rng, remote=True)
    elif k % 20 == 13:
        sc = gen_fail_with_pending_stop(rng)
    elif k % 20 == 3:
        sc = gen_backlog_then_sup(rng)
    elif k % 5 == 4:
        sc = gen_supburst(rng)
    else:
        sc = gen_scenario(rng, "ports" if k % 2 else focus)
    ops = []
    for o in sc["ops"]:
        if o[0] == "send" and rng.random() < 0.125:
            ops.append(("sendn", o[1], o[2]))
        ops.append(o)
    sc["ops"] = ops
    return sc


def run_loop_check(chk, oracle_fn, focus, what, accept=lambda o: o == "true", complete_fn=None):
    """oracle_fn(n, links, impl_trace_coq) -> Coq expression; accept(parsed value) -> bool.
    (`links` is the string "<links> <locals>", see links_coq.)
    quick: default feature build; thorough: also the `async-trait` build of ractor (same scenarios).
    Every build runs the Send scenarios and, on one shared ThreadLocalActorSpawner per scenario,
    the local-adapter and local-native scenarios (eng_world.rs `mode:`)."""
    quick = chk.tier == "quick"
    ok_proofs = chk.proofs()
    factor = 1 if ok_proofs else 4
    env_feats = tuple(x for x in os.environ.get("RV_FEATURES", "").split(",") if x)
    feature_sets = [env_feats] if (quick or env_feats) else [(), ("async-trait",)]
    n_cases = (400 if quick else 6000) * factor
    n_local = (150 if quick else 2000) * factor
    n_remote = (100 if quick else 1500) * factor
    scs = []
    lscs = {m: [] for m in MODES[1:]}
    # corpus first (a corpus scenario may name its mode; default send)
    cdir = os.path.join(ROOT, "corpus", chk.prop)
    if os.path.isdir(cdir):
        for f in sorted(os.listdir(cdir)):
            if f.endswith(".json"):
                c = json.load(open(os.path.join(cdir, f)))
                m = c.pop("mode", "send")
                (scs if m == "send" else lscs[m]).append(c)
    ncorpus = len(scs) + sum(len(v) for v in lscs.values())
    ncorpus_send, ncorpus_l = len(scs), {m: len(v) for m, v in lscs.items()}
    for k in range(n_cases):
        if chk.prop == "C03" and k % 100 == 57:
            scs.append(gen_hot_mailbox(chk.rng))
        elif k % 40 == 39:
            scs.append(gen_many_children(chk.rng))
        elif k % 20 == 13:
            scs.append(gen_fail_with_pending_stop(chk.rng))
        elif k % 20 == 3:
            scs.append(gen_backlog_then_sup(chk.rng))
        elif k % 40 == 19:
            scs.append(gen_abort_before_first_poll(chk.rng))
        elif k % 40 == 29:
            scs.append(gen_request_during_post_start(chk.rng))
        elif k % 40 == 9:
            scs.append(gen_draining_supervisor(chk.rng))
        elif k % 20 == 9:
            scs.append(gen_wire_handler_fails(chk.rng))
        elif k % 20 == 11:
            scs.append(gen_boom(chk.rng))
        elif k % 20 == 1 and SYNC_PANIC:
            scs.append(gen_sync_panic(chk.rng))
        elif k % 8 == 7:
            scs.append(gen_abort_in_post_stop(chk.rng))
        elif k % 5 == 4:
            scs.append(gen_supburst(chk.rng))
        else:
            scs.append(gen_scenario(chk.rng, focus if k % 2 else "mixed"))
    # the thread-local scenarios are drawn after the Send ones: the Send part of a seed is unchanged
    for m in LOCAL_MODES:
        for k in range(n_local):
            lscs[m].append(gen_local(chk.rng, k, focus))
    # ... and the remote-shim ones after those
    for k in range(n_remote):
        lscs["remote-shim"].append(gen_remote(chk.rng, k, focus))

    # 1 scenario in 5 (every mode): the `sup=def` actors run the trait's OWN default supervision handler
    for l in [scs[ncorpus_send:]] + [v[ncorpus_l[m]:] for m, v in lscs.items()]:
        for sc in l:
            maybe_tdef(sc, chk.rng)
            sprinkle_sends(sc, chk.rng)


    def norm(l):
        l = json.loads(json.dumps(l))  # normalise tuples to lists
        for sc in l:
            sc["msgs"] = {int(k): v for k, v in sc["msgs"].items()}
        return l
    scs = norm(scs)
    lscs = {m: norm(v) for m, v in lscs.items()}
    distinct = set()
    compared = discarded = 0
    chk.coverage["builds"] = []
    for features in feature_sets:
        build = cargo_build(["eng_world"], features=features)
        tag = "+".join(features) or "default"
        chk.coverage["builds"].append(tag)
        if not build["ok"]:
            ok, log = repo_builds_without_hooks()
            if not ok:
                return infrastructure_failure(chk.prop, "/repo does not compile even without hooks:\n" + log[-1500:])
            chk.violation(f"harness no longer builds against /repo (features {tag})",
                          "correspondence E1:eng_world cannot be built against the current tree\n" + build["log"][-3000:],
                          failing_input=False)
            return chk.finish(trusted_base=TRUSTED)
        c, d = compare_build(chk, scs, build, tag, oracle_fn, accept, what, distinct, complete_fn=complete_fn)
        compared += c
        discarded += d
        for m in MODES[1:]:
            c, d = compare_build(chk, lscs[m], build, tag, oracle_fn, accept, what, distinct, mode=m, complete_fn=complete_fn)
            compared += c
            discarded += d
    chk.coverage["traces_validated_against_impl"] = compared
    chk.coverage["discarded_order_sensitive"] = discarded
    chk.coverage["corpus"] = ncorpus
    chk.coverage["distinct_nontrivial"] = len(distinct)
    chk.coverage["rule"] = ("seeded random worlds of 1-4 scripted actors (spawn-linked trees), scripts with gates/ticks/"
                            "send/stop/kill/drain, failing callbacks, driver programs with settles, aborts and bursts; 1 in 8: children aborted "
                            "while suspended inside post_stop under a supervisor that stays alive; "
                            "non-trivial = the trace reaches at least 3 distinct phases (callback kinds, cancel, park, abort, failure); "
                            "distinct = distinct per-actor views; "
                            "thread-local hosts: per build and per local mode (adapter / native) the same kind of worlds on one "
                            "ThreadLocalActorSpawner, 3/5 without spawn-links, 2/5 spawn-linked; oracle + model comparison (c_local) for all; "
                            "remote-shim: per build the Send families (without spawnx) with every actor spawned by spawn_linked_remote under a remote "
                            "ActorId, messages through box_message/SerializedMessage/handle_serialized; oracle + model comparison (c_local = false)")
    chk.coverage["thread_local"] = {
        m: {"scenarios": len(lscs[m]) * len(chk.coverage["builds"]),
            "model_compared_unlinked": chk.hist.get(f"local.{m}.model_compared_unlinked", 0),
            "model_compared_linked": chk.hist.get(f"local.{m}.model_compared_linked", 0),
            "order_sensitive_left_out": chk.hist.get(f"local.{m}.order_sensitive.left_out", 0)}
        for m in LOCAL_MODES}
    chk.coverage["remote_shim"] = {
        "scenarios": len(lscs["remote-shim"]) * len(chk.coverage["builds"]),
        "handlers_run_through_handle_serialized": chk.hist.get("remote-shim.reached.Handle", 0),
        "cancelled_callbacks": chk.hist.get("remote-shim.reached.TCancel", 0),
        "order_sensitive_left_out": chk.hist.get("remote-shim.order_sensitive.left_out", 0)}
    return chk.finish(trusted_base=TRUSTED)
