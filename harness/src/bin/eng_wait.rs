//! E1 for C06: drives the REAL wait()/stop_and_wait()/kill_and_wait()/drain_and_wait(),
//! the join handle and the real exit path of ractor on a paused-clock current_thread runtime.
//!
//! stdin, one scenario per line:
//!   wait cause=<c> sup=<0|1> kids=<n | k,k,...> park=<0|1> [tl=<0|1>] [via=<direct|children>] ; <op> ; ...
//!     tl=1: the actor is a thread-local actor (`ThreadLocalActor::spawn*` on a `ThreadLocalActorSpawner`:
//!         its task runs on the spawner's own OS thread and runtime); the driver synchronises on
//!         what the operation must lead to (post_stop entered / the actor's task finished), then
//!         runs the usual quiescence barrier on its own runtime
//!     remote=1 (needs sup=1): the actor has a REMOTE ActorId (`ActorRuntime::spawn_linked_remote` under the
//!         harness supervisor): never a name or pid entry, but group membership / monitoring like anybody
//!     fragile=1: the actor's final State (graceful exits) / its handler's error value (cause err) has a
//!         destructor that panics, armed when the cause is delivered: for an unsupervised actor the terminal
//!         event is dropped inside ActorLifecycleGuard::cleanup, which unwinds half way; the guard's Drop
//!         must finish the exit (the supervisor of a supervised actor forgets the payload: control case)
//!     supdrain=1 (needs sup=1): when the actor exits its supervisor is DRAINING (one message in flight parked at
//!         a gate, one in its backlog, drain() requested): still alive, its supervision port still open
//!     succ=1: post_stop spawns a successor under the SAME name (free since the cleanup at Stopping); the
//!         printed cleanup count = pg Leave notifications + 1 if that successor's name entry has been removed
//!         again by the end (a second execution of the exit cleanup block)
//!     via=children: the cause (stop / drain) is delivered through the supervisor's
//!         `stop_children()` / `drain_children()`
//!     waiter kinds sc / dc: the SUPERVISOR's `stop_children_and_wait(None, tmo)` / `drain_children_and_wait(tmo)`
//!         (a stop_and_wait / drain_and_wait on the actor run inside a JoinSet; errors and timeouts are swallowed:
//!         always printed as ORet, lib/c06.py knows when the send part fails and no claim is made)
//!     kids: linked children; a number = that many idle children, or a list of kinds
//!         run (idle) | busy (Running, handler parked at a gate that is never opened)
//!         | drain (busy like that, then drain() requested: status Draining)
//!         | stopping (stop requested, parked in post_stop: status Stopping)
//!     the `children` flag of a snapshot = the parent has detached its children AND (judged at the
//!     final quiescence, gates still closed) every child has been signalled: it reached >= Stopping
//!     c ::= stop | drain | kill | killhandler | err | panic | stopkill | prefail | prepanic
//!         | postfail | pserr | pspanic | prekill | postkill
//!         | abort0 (the loop task's JoinHandle is aborted before the task was ever polled: spawn to
//!           completion, then no yield until `x` = abort()) | abortidle | aborthandler (abort while idle /
//!           inside a parked handler) | abortps (stop, then abort while post_stop is parked: op `ab`)
//!           | abortstart (spawn_instant, the start task is aborted while pre_start is parked)
//!     op ::= w <id> <kind> <tmo>   spawn waiter task <id>; kind = wait|stopw|killw|drainw|join|inline,
//!                                  tmo = none|short|long   (short = 500 ms, long = 1 h)
//!                                  inline = wait(None) polled by hand with a waker that re-polls the
//!                                  future synchronously inside wake(), i.e. on the exiting task in the
//!                                  middle of notify_waiters(): the schedule of an OS-thread waiter that
//!                                  runs the instant it is woken
//!          | x                     deliver the cause (stop()/drain()/kill()/message/open the start gate)
//!          | g                     let the parked post_stop return
//!          | k                     kill()          | s   stop(None)       | d   drain()
//!          | a                     advance the virtual clock by 1000 ms
//!   every op is followed by a quiescence barrier and a status sample.
//!   thr sup=<0|1> exit=<none|publish|between> ; <op> ; ...      controlled OS threads (hook points)
//!     the actor runs on its own runtime thread, every waiter on its own OS thread with a hand-made
//!     executor; `ractor::actor::verif::point` parks a thread once at the label of its plan
//!     op ::= ws <k> <none|notified|status>   start waiter thread k; it runs until it pauses at
//!                                            wait.after_notified / wait.after_status, parks in the await, or returns
//!          | x                               stop(); the exit runs until status.after_publish (for Stopped) /
//!                                            notify.between per `exit=`, or to completion
//!          | rw <k>                          resume the paused waiter k until it parks or returns
//!          | rx                              resume the paused exit to completion
//!     a waiter that is parked and was never woken when everything else has finished = lost wake-up
//!     output: (observations, [], leaves, plans_not_hit)
//! stdout, one Coq term per scenario:  (observations, statuses, number of pg Leave notifications)
//!   observations: waiter completions in order, then the waiters still pending at the end,
//!   each `mkObs w outcome (mkSnap status name pid pg ps_active ps_done children sup)`.
use std::sync::atomic::{AtomicU64, Ordering};
use std::future::Future;
use std::pin::Pin;
use std::sync::{Arc, Mutex};
use std::task::{Context, Poll, Wake, Waker};
use std::time::Duration;

use ractor::thread_local::{ThreadLocalActor, ThreadLocalActorSpawner};
use ractor::{
    pg, registry, Actor, ActorCell, ActorProcessingErr, ActorRef, ActorRuntime, ActorStatus,
    RactorErr, SupervisionEvent,
};
use rv_harness::*;
use tokio::sync::Semaphore;

static SCN: AtomicU64 = AtomicU64::new(0);

#[derive(Clone)]
struct Gate(Arc<Semaphore>);
impl Gate {
    fn new() -> Self {
        Gate(Arc::new(Semaphore::new(0)))
    }
    fn open(&self) {
        self.0.add_permits(1 << 20);
    }
    async fn pass(&self) {
        let _p = self.0.acquire().await.expect("gate");
    }
}

/// A value whose destructor panics once, when armed (like a nested runtime dropped in async context).
#[derive(Clone, Default)]
struct Fragile(Arc<std::sync::atomic::AtomicBool>);
impl Drop for Fragile {
    fn drop(&mut self) {
        if self.0.swap(false, Ordering::SeqCst) && !std::thread::panicking() {
            panic!("fragile drop panic");
        }
    }
}
struct FragileErr(#[allow(dead_code)] Fragile);
impl std::fmt::Debug for FragileErr {
    fn fmt(&self, f: &mut std::fmt::Formatter<'_>) -> std::fmt::Result {
        write!(f, "handler failed")
    }
}
impl std::fmt::Display for FragileErr {
    fn fmt(&self, f: &mut std::fmt::Formatter<'_>) -> std::fmt::Result {
        write!(f, "handler failed")
    }
}
impl std::error::Error for FragileErr {}

#[derive(Clone, Copy, PartialEq, Debug)]
enum Res {
    Ok,
    Err,
    Panic,
}

#[derive(Default)]
struct Flags {
    ps_in: AtomicU64,
    ps_out: AtomicU64,
    h_in: AtomicU64,
}

struct PsGuard(Arc<Flags>);
impl Drop for PsGuard {
    fn drop(&mut self) {
        self.0.ps_out.fetch_add(1, Ordering::SeqCst);
    }
}

#[derive(Clone)]
struct Cfg {
    pre: Res,
    pre_gate: Option<Gate>,
    post_start: Res,
    post_start_gate: Option<Gate>,
    ps: Res,
    ps_gate: Option<Gate>,
    handler_gate: Gate,
    flags: Arc<Flags>,
    fragile: Fragile,
    succ: Option<(String, Arc<Mutex<Option<ActorCell>>>)>,
}

enum Msg {
    Err,
    Panic,
    Park,
}
impl ractor::Message for Msg {}

// (Default: also spawned through ractor's blanket `impl<T: Actor + Default> ThreadLocalActor for T`)
#[derive(Default)]
struct Main;
impl Actor for Main {
    type Msg = Msg;
    type State = Cfg;
    type Arguments = Cfg;
    async fn pre_start(&self, _: ActorRef<Msg>, cfg: Cfg) -> Result<Cfg, ActorProcessingErr> {
        if let Some(g) = &cfg.pre_gate {
            g.pass().await;
        }
        match cfg.pre {
            Res::Ok => Ok(cfg),
            Res::Err => Err("pre_start failed".into()),
            Res::Panic => panic!("pre_start panic"),
        }
    }
    async fn post_start(&self, _: ActorRef<Msg>, cfg: &mut Cfg) -> Result<(), ActorProcessingErr> {
        if let Some(g) = &cfg.post_start_gate {
            g.pass().await;
        }
        match cfg.post_start {
            Res::Ok => Ok(()),
            Res::Err => Err("post_start failed".into()),
            Res::Panic => panic!("post_start panic"),
        }
    }
    async fn handle(&self, _: ActorRef<Msg>, m: Msg, cfg: &mut Cfg) -> Result<(), ActorProcessingErr> {
        match m {
            Msg::Err => Err(Box::new(FragileErr(cfg.fragile.clone()))),
            Msg::Panic => panic!("handler panic"),
            Msg::Park => {
                cfg.flags.h_in.fetch_add(1, Ordering::SeqCst);
                cfg.handler_gate.pass().await;
                Ok(())
            }
        }
    }
    async fn handle_supervisor_evt(
        &self,
        _: ActorRef<Msg>,
        _: SupervisionEvent,
        _: &mut Cfg,
    ) -> Result<(), ActorProcessingErr> {
        Ok(())
    }
    async fn post_stop(&self, _: ActorRef<Msg>, cfg: &mut Cfg) -> Result<(), ActorProcessingErr> {
        cfg.flags.ps_in.fetch_add(1, Ordering::SeqCst);
        let _guard = PsGuard(cfg.flags.clone());
        if let Some((name, slot)) = &cfg.succ {
            // a successor takes over the name (released by the cleanup at Stopping)
            if let Ok((r, _)) = Actor::spawn(Some(name.clone()), Kid, ()).await {
                *slot.lock().unwrap() = Some(r.get_cell());
            }
        }
        if let Some(g) = &cfg.ps_gate {
            g.pass().await;
        }
        match cfg.ps {
            Res::Ok => Ok(()),
            Res::Err => Err("post_stop failed".into()),
            Res::Panic => panic!("post_stop panic"),
        }
    }
}

/// A child with a parkable handler and a parkable post_stop (gates are never opened before the tidy-up).
struct Kid2;
#[derive(Clone)]
struct KidCfg {
    gate: Gate,
    park_ps: bool,
}
impl Actor for Kid2 {
    type Msg = ();
    type State = KidCfg;
    type Arguments = KidCfg;
    async fn pre_start(&self, _: ActorRef<()>, c: KidCfg) -> Result<KidCfg, ActorProcessingErr> {
        Ok(c)
    }
    async fn handle(&self, _: ActorRef<()>, _: (), c: &mut KidCfg) -> Result<(), ActorProcessingErr> {
        c.gate.pass().await;
        Ok(())
    }
    async fn post_stop(&self, _: ActorRef<()>, c: &mut KidCfg) -> Result<(), ActorProcessingErr> {
        if c.park_ps {
            c.gate.pass().await;
        }
        Ok(())
    }
}

struct Kid;
impl Actor for Kid {
    type Msg = ();
    type State = ();
    type Arguments = ();
    async fn pre_start(&self, _: ActorRef<()>, _: ()) -> Result<(), ActorProcessingErr> {
        Ok(())
    }
}

/// Supervisor: logs, in arrival order on its supervision port, the terminal event of the
/// main actor and the per-waiter markers (process-group notifications sent by a waiter task
/// right after its wait returned: same FIFO channel, so "terminal event before marker w"
/// means the event had been sent when waiter w returned).
struct Sup {
    main_name: String,
    main_group: String,
    mark_prefix: String,
    log: Arc<Mutex<Vec<String>>>,
    gates: [Gate; 2],
    seen: AtomicU64,
}
impl Actor for Sup {
    type Msg = ();
    type State = ();
    type Arguments = ();
    async fn pre_start(&self, _: ActorRef<()>, _: ()) -> Result<(), ActorProcessingErr> {
        Ok(())
    }
    async fn handle(&self, _: ActorRef<()>, _: (), _: &mut ()) -> Result<(), ActorProcessingErr> {
        // the k-th plain message parks at gate k (used to keep the supervisor busy / draining)
        let k = self.seen.fetch_add(1, Ordering::SeqCst) as usize;
        if k < 2 {
            self.gates[k].pass().await;
        }
        Ok(())
    }
    async fn handle_supervisor_evt(
        &self,
        _: ActorRef<()>,
        ev: SupervisionEvent,
        _: &mut (),
    ) -> Result<(), ActorProcessingErr> {
        match ev {
            SupervisionEvent::ActorTerminated(who, st, _) => {
                if who.get_name().as_deref() == Some(self.main_name.as_str()) {
                    self.log.lock().unwrap().push("term".into());
                    // (the payload may own a value with a panicking destructor: not this actor's business)
                    std::mem::forget(st);
                }
            }
            SupervisionEvent::ActorFailed(who, err) => {
                if who.get_name().as_deref() == Some(self.main_name.as_str()) {
                    self.log.lock().unwrap().push("term".into());
                    std::mem::forget(err);
                }
            }
            SupervisionEvent::ProcessGroupChanged(change) => {
                let g = change.get_group();
                if let Some(w) = g.strip_prefix(&self.mark_prefix) {
                    self.log.lock().unwrap().push(format!("mark {w}"));
                } else if g == self.main_group {
                    if let pg::GroupChangeMessage::Leave(_, _, who) = &change {
                        if who.iter().any(|c| c.get_name().as_deref() == Some(self.main_name.as_str())) {
                            self.log.lock().unwrap().push("leave".into());
                        }
                    }
                }
            }
            _ => {}
        }
        Ok(())
    }
}

struct Snap {
    status: ActorStatus,
    name: bool,
    pid: bool,
    pg: bool,
    ps_active: bool,
    ps_done: bool,
    children: bool,
}

struct Ctx {
    cell: ActorCell,
    name: String,
    group: String,
    mon_group: String,
    flags: Arc<Flags>,
}

impl Ctx {
    fn snapshot(&self) -> Snap {
        let id = self.cell.get_id();
        let ps_in = self.flags.ps_in.load(Ordering::SeqCst);
        let ps_out = self.flags.ps_out.load(Ordering::SeqCst);
        Snap {
            status: self.cell.get_status(),
            name: registry::where_is(self.name.clone()).map(|c| c.get_id() == id).unwrap_or(false),
            pid: registry::where_is_pid(id).is_some(),
            // still a member of its group, or still registered as a monitor of the other group
            pg: pg::get_members(&self.group).iter().any(|c| c.get_id() == id)
                || (!self.mon_group.is_empty()
                    && pg::verif::snapshot().map.iter().any(|(_, g, _, listeners)| *g == self.mon_group && listeners.contains(&id))),
            ps_active: ps_in != ps_out,
            ps_done: ps_out > 0,
            children: self.cell.get_children().is_empty(),
        }
    }
}

fn status_name(s: ActorStatus) -> &'static str {
    match s {
        ActorStatus::Unstarted => "Unstarted",
        ActorStatus::Starting => "Starting",
        ActorStatus::Running => "Running",
        ActorStatus::Upgrading => "Upgrading",
        ActorStatus::Draining => "Draining",
        ActorStatus::Stopping => "Stopping",
        ActorStatus::Stopped => "Stopped",
    }
}

fn snap_term(s: &Snap, sup: bool) -> String {
    format!(
        "(mkSnap {} {} {} {} {} {} {} {})",
        status_name(s.status),
        coq_bool(s.name),
        coq_bool(s.pid),
        coq_bool(s.pg),
        coq_bool(s.ps_active),
        coq_bool(s.ps_done),
        coq_bool(s.children),
        coq_bool(sup)
    )
}

async fn settle() {
    tokio::time::sleep(Duration::from_nanos(1)).await;
}

/// Wait (without any clock) until another OS thread has brought the world to `cond`.
async fn spin(cond: impl Fn() -> bool) {
    while !cond() {
        std::thread::yield_now();
        tokio::task::yield_now().await;
    }
}

fn kv<'a>(words: &'a [&'a str], key: &str) -> &'a str {
    for w in words {
        if let Some(v) = w.strip_prefix(key) {
            if let Some(v) = v.strip_prefix('=') {
                return v;
            }
        }
    }
    panic!("missing {key}");
}

/// A hand-polled wait(): `wake()` polls the future again on the spot.
struct Inline {
    fut: Mutex<Option<Pin<Box<dyn Future<Output = ()> + Send>>>>,
    on_done: Box<dyn Fn() + Send + Sync>,
}
impl Inline {
    fn poll_now(self: &Arc<Self>) {
        let mut g = self.fut.lock().unwrap();
        let ready = match g.as_mut() {
            Some(f) => {
                let waker = Waker::from(self.clone());
                let mut cx = Context::from_waker(&waker);
                matches!(f.as_mut().poll(&mut cx), Poll::Ready(()))
            }
            None => false,
        };
        if ready {
            *g = None;
            drop(g);
            (self.on_done)();
        }
    }
    fn pending(&self) -> bool {
        self.fut.lock().unwrap().is_some()
    }
}
impl Wake for Inline {
    fn wake(self: Arc<Self>) {
        self.poll_now();
    }
}

enum AnyJoin {
    Plain(tokio::task::JoinHandle<()>),
    Instant(tokio::task::JoinHandle<Result<tokio::task::JoinHandle<()>, ractor::SpawnErr>>),
}

async fn run_scenario(line: &str) -> String {
    let sid = SCN.fetch_add(1, Ordering::SeqCst);
    let pid = std::process::id();
    let mut parts = line.split(';').map(|p| p.trim());
    let head: Vec<&str> = parts.next().unwrap().split_whitespace().collect();
    assert_eq!(head[0], "wait");
    let cause = kv(&head, "cause").to_string();
    let with_sup = kv(&head, "sup") == "1";
    let kids_spec = kv(&head, "kids");
    let kid_kinds: Vec<String> = match kids_spec.parse::<usize>() {
        Ok(n) => vec!["run".to_string(); n],
        Err(_) => kids_spec.split(',').map(|x| x.to_string()).collect(),
    };
    let park = kv(&head, "park") == "1";
    let tl = head.iter().any(|w| *w == "tl=1");
    let remote = head.iter().any(|w| *w == "remote=1");
    let is_fragile = head.iter().any(|w| *w == "fragile=1");
    let supdrain = head.iter().any(|w| *w == "supdrain=1");
    let with_succ = head.iter().any(|w| *w == "succ=1");
    let succ_slot: Arc<Mutex<Option<ActorCell>>> = Arc::new(Mutex::new(None));
    let fragile = Fragile::default();
    let mon_group = format!("c06n-{pid}-{sid}");
    let via_children = head.iter().any(|w| *w == "via=children");

    let name = format!("c06-{pid}-{sid}");
    let group = format!("c06g-{pid}-{sid}");
    let mark_prefix = format!("c06m-{pid}-{sid}-");
    let flags = Arc::new(Flags::default());
    let start_gate = Gate::new();
    let ps_gate = Gate::new();
    let cfg = Cfg {
        pre: match cause.as_str() {
            "prefail" => Res::Err,
            "prepanic" => Res::Panic,
            _ => Res::Ok,
        },
        pre_gate: matches!(cause.as_str(), "prefail" | "prepanic" | "prekill" | "abortstart").then(|| start_gate.clone()),
        post_start: if cause == "postfail" { Res::Err } else { Res::Ok },
        post_start_gate: matches!(cause.as_str(), "postfail" | "postkill").then(|| start_gate.clone()),
        ps: match cause.as_str() {
            "pserr" => Res::Err,
            "pspanic" => Res::Panic,
            _ => Res::Ok,
        },
        ps_gate: park.then(|| ps_gate.clone()),
        handler_gate: Gate::new(),
        flags: flags.clone(),
        fragile: fragile.clone(),
        succ: with_succ.then(|| (name.clone(), succ_slot.clone())),
    };

    // supervisor and marker actor
    let sup_gates = [Gate::new(), Gate::new()];
    let sup_log = Arc::new(Mutex::new(Vec::<String>::new()));
    let (sup_ref, _sup_h) = Actor::spawn(
        None,
        Sup { main_name: name.clone(), main_group: group.clone(), mark_prefix: mark_prefix.clone(), log: sup_log.clone(), gates: sup_gates.clone(), seen: AtomicU64::new(0) },
        (),
    )
    .await
    .expect("sup");
    let (marker, _marker_h) = Actor::spawn(None, Kid, ()).await.expect("marker");

    // the actor under observation
    let instant = matches!(cause.as_str(), "prefail" | "prepanic" | "prekill" | "abortstart");
    // abort0: nothing may yield between the return of spawn and the abort (op `x`)
    let mut hold = cause == "abort0";
    let spawner = tl.then(ThreadLocalActorSpawner::new);
    let (main_cell, join): (ActorCell, AnyJoin) = if instant {
        // pre_start failures: the cell must exist before pre_start fails so that waiters can
        // register; spawn_instant / spawn_linked_instant return it immediately
        let (r, h) = match (&spawner, with_sup) {
            (Some(sp), false) => <Main as ThreadLocalActor>::spawn_instant(Some(name.clone()), cfg, sp.clone()).expect("spawn_instant"),
            (Some(sp), true) => {
                <Main as ThreadLocalActor>::spawn_linked_instant(Some(name.clone()), cfg, sup_ref.get_cell(), sp.clone())
                    .expect("spawn_linked_instant")
            }
            (None, false) => ActorRuntime::<Main>::spawn_instant(Some(name.clone()), Main, cfg).expect("spawn_instant"),
            (None, true) => ActorRuntime::<Main>::spawn_linked_instant(Some(name.clone()), Main, cfg, sup_ref.get_cell())
                .expect("spawn_linked_instant"),
        };
        (r.get_cell(), AnyJoin::Instant(h))
    } else if remote {
        let id = ractor::ActorId::Remote { node_id: 7, pid: sid };
        let (r, h) = ActorRuntime::<Main>::spawn_linked_remote(Some(name.clone()), Main, id, cfg, sup_ref.get_cell())
            .await
            .expect("spawn_linked_remote");
        (r.get_cell(), AnyJoin::Plain(h))
    } else if with_sup {
        let (r, h) = match &spawner {
            Some(sp) => <Main as ThreadLocalActor>::spawn_linked(Some(name.clone()), cfg, sup_ref.get_cell(), sp.clone())
                .await
                .expect("spawn"),
            None => Actor::spawn_linked(Some(name.clone()), Main, cfg, sup_ref.get_cell()).await.expect("spawn"),
        };
        (r.get_cell(), AnyJoin::Plain(h))
    } else {
        let (r, h) = match &spawner {
            Some(sp) => <Main as ThreadLocalActor>::spawn(Some(name.clone()), cfg, sp.clone()).await.expect("spawn"),
            None => Actor::spawn(Some(name.clone()), Main, cfg).await.expect("spawn"),
        };
        (r.get_cell(), AnyJoin::Plain(h))
    };
    let abort_handle = match &join {
        AnyJoin::Plain(h) => h.abort_handle(),
        AnyJoin::Instant(h) => h.abort_handle(),
    };
    let mut join = Some(join);
    if !hold {
        settle().await;
    }
    let start_parked = matches!(cause.as_str(), "prefail" | "prepanic" | "prekill" | "abortstart" | "postfail" | "postkill");
    if tl {
        // the other thread: wait until the actor is where the scenario starts
        let want = if start_parked { ActorStatus::Starting } else { ActorStatus::Running };
        let c = main_cell.clone();
        spin(move || c.get_status() == want).await;
    }
    pg::monitor(group.clone(), sup_ref.get_cell());
    pg::join(group.clone(), vec![main_cell.clone()]);
    pg::monitor(mon_group.clone(), main_cell.clone());
    let mut kid_cells = Vec::new();
    let mut kid_gates = Vec::new();
    for kind in &kid_kinds {
        let g = Gate::new();
        let cfgk = KidCfg { gate: g.clone(), park_ps: kind == "stopping" };
        let (k, _) = Actor::spawn_linked(None, Kid2, cfgk, main_cell.clone()).await.expect("kid");
        match kind.as_str() {
            "run" => {}
            "busy" => {
                k.cast(()).expect("kid msg");
            }
            "drain" => {
                k.cast(()).expect("kid msg");
                settle().await;
                let _ = k.get_cell().drain();
            }
            "stopping" => {
                settle().await;
                k.stop(None);
            }
            o => panic!("bad kid kind {o}"),
        }
        kid_gates.push(g);
        kid_cells.push(k.get_cell());
    }
    if cause == "killhandler" || cause == "aborthandler" {
        let r: ActorRef<Msg> = main_cell.clone().into();
        r.cast(Msg::Park).expect("park");
        if tl {
            let f = flags.clone();
            spin(move || f.h_in.load(Ordering::SeqCst) > 0).await;
        }
    }
    if !hold {
        settle().await;
    }
    if supdrain {
        // the supervisor: one message in flight (parked), one in the backlog, then drain()
        sup_ref.cast(()).expect("sup msg");
        sup_ref.cast(()).expect("sup msg");
        settle().await;
        let _ = sup_ref.get_cell().drain();
        settle().await;
    }
    // thread-local actors: what an operation must lead to before the barrier means anything
    let parkable = matches!(cause.as_str(), "stop" | "drain" | "pserr" | "pspanic" | "stopkill" | "abortps");
    let mut phase = 0; // 0 before the cause, 1 post_stop parked, 2 exit complete

    let ctx = Arc::new(Ctx {
        cell: main_cell.clone(),
        name: name.clone(),
        group: group.clone(),
        mon_group: mon_group.clone(),
        flags: flags.clone(),
    });
    // (waiter, outcome, snapshot) in completion order
    let done: Arc<Mutex<Vec<(u64, &'static str, Snap)>>> = Arc::new(Mutex::new(Vec::new()));
    let mut started: Vec<(u64, tokio::task::JoinHandle<()>)> = Vec::new();
    let mut inlines: Vec<(u64, Arc<Inline>)> = Vec::new();
    let mut statuses: Vec<ActorStatus> = Vec::new();

    for op in parts {
        let w: Vec<&str> = op.split_whitespace().collect();
        if w.is_empty() {
            continue;
        }
        // the cause is about to be delivered (by `x` or by a *_and_wait waiter): arm the destructor
        if is_fragile && (w[0] == "x" || (w[0] == "w" && w.get(4) == Some(&"c"))) {
            fragile.0.store(true, Ordering::SeqCst);
        }
        #[allow(unused_assignments)]
        let mut expect = 0u8; // 1 = like the cause, 2 = the exit completes, 3 = post_stop gets parked
        match w[0] {
            "w" => {
                let id: u64 = w[1].parse().unwrap();
                let kind = w[2].to_string();
                let tmo = match w[3] {
                    "none" => None,
                    "short" => Some(Duration::from_millis(500)),
                    "long" => Some(Duration::from_secs(3600)),
                    o => panic!("bad tmo {o}"),
                };
                if with_sup {
                    pg::monitor(format!("{mark_prefix}{id}"), sup_ref.get_cell());
                }
                let ctx2 = ctx.clone();
                let done2 = done.clone();
                let marker2 = marker.get_cell();
                let mark_group = format!("{mark_prefix}{id}");
                if kind == "inline" {
                    let cell = ctx2.cell.clone();
                    let inl = Arc::new(Inline {
                        fut: Mutex::new(Some(Box::pin(async move {
                            let _ = cell.wait(None).await;
                        }))),
                        on_done: Box::new(move || {
                            let snap = ctx2.snapshot();
                            done2.lock().unwrap().push((id, "ORet", snap));
                            pg::join(mark_group.clone(), vec![marker2.clone()]);
                        }),
                    });
                    inl.poll_now();
                    inlines.push((id, inl));
                    if !hold {
                        settle().await;
                    }
                    statuses.push(main_cell.get_status());
                    continue;
                }
                let jh = if kind == "join" { join.take() } else { None };
                let supc = sup_ref.get_cell();
                match w.get(4).copied() {
                    Some("c") => expect = 1,
                    Some("r") => expect = 2,
                    _ => {}
                }
                let task = tokio::spawn(async move {
                    let cell = ctx2.cell.clone();
                    let out: &'static str = match kind.as_str() {
                        "wait" => match cell.wait(tmo).await {
                            Ok(()) => "ORet",
                            Err(_) => "OTimeout",
                        },
                        "stopw" => match cell.stop_and_wait((id % 2 == 1).then(|| "bye".to_string()), tmo).await {
                            Ok(()) => "ORet",
                            Err(RactorErr::Timeout) => "OTimeout",
                            Err(_) => "OErr",
                        },
                        "killw" => match cell.kill_and_wait(tmo).await {
                            Ok(()) => "ORet",
                            Err(RactorErr::Timeout) => "OTimeout",
                            Err(_) => "OErr",
                        },
                        "drainw" => match cell.drain_and_wait(tmo).await {
                            Ok(()) => "ORet",
                            Err(RactorErr::Timeout) => "OTimeout",
                            Err(_) => "OErr",
                        },
                        // the supervisor's helpers: a JoinSet of stop_and_wait / drain_and_wait on its children
                        "sc" => {
                            supc.stop_children_and_wait(None, tmo).await;
                            "ORet"
                        }
                        "dc" => {
                            supc.drain_children_and_wait(tmo).await;
                            "ORet"
                        }
                        "join" => {
                            match jh.expect("join handle already taken") {
                                AnyJoin::Plain(h) => {
                                    let _ = h.await;
                                }
                                AnyJoin::Instant(h) => {
                                    if let Ok(Ok(inner)) = h.await {
                                        let _ = inner.await;
                                    }
                                }
                            }
                            "OJoin"
                        }
                        o => panic!("bad waiter kind {o}"),
                    };
                    // snapshot at the return, before anything else can run
                    let snap = ctx2.snapshot();
                    done2.lock().unwrap().push((id, out, snap));
                    pg::join(mark_group, vec![marker2]);
                });
                started.push((id, task));
            }
            "x" if via_children => {
                expect = 1;
                match cause.as_str() {
                    "drain" => sup_ref.get_cell().drain_children(),
                    _ => sup_ref.get_cell().stop_children(None),
                }
            }
            "x" => match cause.as_str() {
                "stop" | "stopkill" | "pserr" | "pspanic" | "abortps" => main_cell.stop(None),
                "abort0" | "abortidle" | "aborthandler" | "abortstart" => {
                    abort_handle.abort();
                    hold = false;
                }
                "drain" => {
                    let _ = main_cell.drain();
                }
                "kill" | "killhandler" | "prekill" | "postkill" => main_cell.kill(),
                "err" => {
                    let r: ActorRef<Msg> = main_cell.clone().into();
                    let _ = r.cast(Msg::Err);
                }
                "panic" => {
                    let r: ActorRef<Msg> = main_cell.clone().into();
                    let _ = r.cast(Msg::Panic);
                }
                "prefail" | "prepanic" | "postfail" => start_gate.open(),
                o => panic!("bad cause {o}"),
            },
            "g" => {
                expect = 2;
                ps_gate.open()
            }
            "k" => {
                if phase == 1 && cause == "stopkill" {
                    expect = 2;
                }
                main_cell.kill()
            }
            "ab" => {
                expect = 2;
                abort_handle.abort()
            }
            "s" => main_cell.stop(None),
            "d" => {
                let _ = main_cell.drain();
            }
            "a" => tokio::time::advance(Duration::from_millis(1000)).await,
            o => panic!("bad op {o}"),
        }
        if w[0] == "x" {
            expect = 1;
        }
        let _ = &is_fragile;
        if expect == 1 {
            expect = if parkable && park { 3 } else { 2 };
        }
        if expect == 3 {
            phase = 1;
        } else if expect == 2 {
            phase = 2;
        }
        if tl {
            // the actor lives on another OS thread: first let the waiter/driver side issue its calls,
            // then wait for what the operation must lead to, then the usual barrier
            settle().await;
            if expect == 3 {
                let f = flags.clone();
                spin(move || f.ps_in.load(Ordering::SeqCst) > 0).await;
            } else if expect == 2 {
                let h = abort_handle.clone();
                spin(move || h.is_finished()).await;
            }
        }
        if !hold {
            settle().await;
        }
        statuses.push(main_cell.get_status());
    }
    settle().await;

    // pending waiters, with the final snapshot
    let final_snap = ctx.snapshot();
    fragile.0.store(false, Ordering::SeqCst); // (disarm: the scenario is over)
    // every child signalled: with its gates still closed it has reached >= Stopping
    let kids_ok = kid_cells.iter().all(|k| k.get_status() >= ActorStatus::Stopping);
    if supdrain {
        // let the supervisor finish its in-flight message: it then serves its supervision port (priority)
        // and parks again in the backlog message, still Draining
        sup_gates[0].open();
        settle().await;
    }
    let term_at_end = sup_log.lock().unwrap().iter().any(|e| e == "term");
    // a successor registered under the same name must still be found (unless it was never spawned)
    let succ_cell = succ_slot.lock().unwrap().clone();
    let succ_lost = match &succ_cell {
        Some(c) => registry::where_is(name.clone()).map(|f| f.get_id() != c.get_id()).unwrap_or(true),
        None => false,
    };
    let completed: Vec<u64> = done.lock().unwrap().iter().map(|(w, _, _)| *w).collect();
    let mut pending: Vec<u64> = Vec::new();
    for (id, task) in &started {
        if !completed.contains(id) {
            pending.push(*id);
            task.abort();
        }
    }
    for (id, inl) in &inlines {
        if inl.pending() {
            pending.push(*id);
            // disarm: the tidy-up below must not complete it
            *inl.fut.lock().unwrap() = None;
        }
    }
    pending.sort();
    let leaves_at_end =
        sup_log.lock().unwrap().iter().filter(|e| *e == "leave").count() + if succ_lost { 1 } else { 0 };

    // tidy up so that nothing leaks into the next scenario; the supervisor drains its port first
    start_gate.open();
    ps_gate.open();
    main_cell.kill();
    sup_gates[1].open();
    if let Some(c) = &succ_cell {
        c.kill();
    }
    for g in &kid_gates {
        g.open();
    }
    for k in &kid_cells {
        k.kill();
    }
    settle().await;
    let log = sup_log.lock().unwrap().clone();
    marker.stop(None);
    sup_ref.stop(None);
    settle().await;

    // was the terminal event in the supervisor's port before waiter w's marker?
    let term_pos = log.iter().position(|e| e == "term");
    let sup_at = |w: u64| -> bool {
        if !with_sup {
            return false;
        }
        let mark = log.iter().position(|e| *e == format!("mark {w}"));
        match (term_pos, mark) {
            (Some(t), Some(m)) => t < m,
            (Some(_), None) => true, // waiter never returned: judged on the final log
            _ => false,
        }
    };

    let with_kids = |s: &Snap| Snap {
        status: s.status,
        name: s.name,
        pid: s.pid,
        pg: s.pg,
        ps_active: s.ps_active,
        ps_done: s.ps_done,
        children: s.children && kids_ok,
    };
    let mut obs: Vec<String> = Vec::new();
    for (w, out, snap) in done.lock().unwrap().iter() {
        obs.push(format!("mkObs {} {} {}", w, out, snap_term(&with_kids(snap), sup_at(*w))));
    }
    for w in pending {
        obs.push(format!("mkObs {} OPending {}", w, snap_term(&with_kids(&final_snap), with_sup && term_at_end)));
    }
    let sts: Vec<&str> = statuses.iter().map(|s| status_name(*s)).collect();
    format!("({}, {}, {})", coq_list(&obs), coq_list(&sts), leaves_at_end)
}

// ------------------------------------------------------------------------------------------
// controlled-thread engine
mod thr {
    use super::*;
    use std::cell::Cell;
    use std::collections::{HashMap, HashSet, VecDeque};
    use std::sync::{Condvar, OnceLock};

    #[derive(Clone, Copy, PartialEq, Eq, Hash, Debug)]
    pub enum Role {
        Waiter(u64),
        Exit,
    }
    #[derive(Clone, Copy, Debug, PartialEq)]
    pub enum Ev {
        Paused(&'static str),
        Parked(u64),
        Done,
    }
    #[derive(Default)]
    pub struct CtlState {
        pub plan: HashMap<Role, &'static str>,
        pub used: HashSet<Role>,
        pub resume: HashSet<Role>,
        pub events: HashMap<Role, VecDeque<Ev>>,
        pub wakes: HashMap<u64, u64>,
        pub main: Option<ActorCell>,
    }
    pub struct Ctl {
        pub st: Mutex<CtlState>,
        pub cv: Condvar,
    }
    thread_local! { pub static ROLE: Cell<Option<Role>> = const { Cell::new(None) }; }
    static CTL: OnceLock<Arc<Ctl>> = OnceLock::new();

    pub fn ctl() -> Arc<Ctl> {
        CTL.get_or_init(|| {
            let c = Arc::new(Ctl { st: Mutex::new(CtlState::default()), cv: Condvar::new() });
            let c2 = c.clone();
            ractor::actor::verif::set_point_hook(Some(Arc::new(move |label| c2.at_point(label))));
            c
        })
        .clone()
    }

    impl Ctl {
        pub fn reset(&self) {
            *self.st.lock().unwrap() = CtlState::default();
        }
        fn at_point(&self, label: &'static str) {
            let Some(role) = ROLE.with(|r| r.get()) else { return };
            let mut st = self.st.lock().unwrap();
            if st.plan.get(&role) != Some(&label) || st.used.contains(&role) {
                return;
            }
            if matches!(label, "status.after_publish" | "notify.between") {
                // only the actor's own final transition
                let stopped = st.main.as_ref().map(|c| c.get_status() == ActorStatus::Stopped).unwrap_or(false);
                if !stopped {
                    return;
                }
            }
            st.used.insert(role);
            st.events.entry(role).or_default().push_back(Ev::Paused(label));
            self.cv.notify_all();
            while !st.resume.contains(&role) {
                st = self.cv.wait(st).unwrap();
            }
            st.resume.remove(&role);
        }
        pub fn push(&self, role: Role, ev: Ev) {
            let mut st = self.st.lock().unwrap();
            st.events.entry(role).or_default().push_back(ev);
            self.cv.notify_all();
        }
        pub fn wait_event(&self, role: Role) -> Ev {
            let mut st = self.st.lock().unwrap();
            loop {
                if let Some(e) = st.events.entry(role).or_default().pop_front() {
                    return e;
                }
                st = self.cv.wait(st).unwrap();
            }
        }
        pub fn resume(&self, role: Role) {
            let mut st = self.st.lock().unwrap();
            st.resume.insert(role);
            self.cv.notify_all();
        }
        pub fn wakes(&self, k: u64) -> u64 {
            *self.st.lock().unwrap().wakes.get(&k).unwrap_or(&0)
        }
    }

    struct ThreadWaker {
        k: u64,
        ctl: Arc<Ctl>,
    }
    impl Wake for ThreadWaker {
        fn wake(self: Arc<Self>) {
            let mut st = self.ctl.st.lock().unwrap();
            *st.wakes.entry(self.k).or_default() += 1;
            self.ctl.cv.notify_all();
        }
    }

    enum Cmd {
        Stop,
        Finish,
    }

    pub fn run(line: &str) -> String {
        let sid = SCN.fetch_add(1, Ordering::SeqCst);
        let pid = std::process::id();
        let mut parts = line.split(';').map(|p| p.trim());
        let head: Vec<&str> = parts.next().unwrap().split_whitespace().collect();
        let with_sup = kv(&head, "sup") == "1";
        let exit_plan = match kv(&head, "exit") {
            "publish" => Some("status.after_publish"),
            "between" => Some("notify.between"),
            _ => None,
        };
        let c = ctl();
        c.reset();
        if let Some(p) = exit_plan {
            c.st.lock().unwrap().plan.insert(Role::Exit, p);
        }
        let name = format!("c06t-{pid}-{sid}");
        let group = format!("c06tg-{pid}-{sid}");
        let mark_prefix = format!("c06tm-{pid}-{sid}-");
        let flags = Arc::new(Flags::default());
        let sup_log = Arc::new(Mutex::new(Vec::<String>::new()));
        let sup_gates = [Gate::new(), Gate::new()];

        // the actor's runtime thread
        let (ready_tx, ready_rx) = std::sync::mpsc::channel::<(ActorCell, ActorCell, ActorCell)>();
        let (cmd_tx, mut cmd_rx) = tokio::sync::mpsc::unbounded_channel::<Cmd>();
        let (fin_tx, fin_rx) = std::sync::mpsc::channel::<()>();
        let exit_thread = {
            let (name, group, mark_prefix, flags, sup_log, c) =
                (name.clone(), group.clone(), mark_prefix.clone(), flags.clone(), sup_log.clone(), c.clone());
            std::thread::spawn(move || {
                ROLE.with(|r| r.set(Some(Role::Exit)));
                let rt = tokio::runtime::Builder::new_current_thread().enable_time().build().expect("rt");
                rt.block_on(async move {
                    let cfg = Cfg {
                        pre: Res::Ok,
                        pre_gate: None,
                        post_start: Res::Ok,
                        post_start_gate: None,
                        ps: Res::Ok,
                        ps_gate: None,
                        handler_gate: Gate::new(),
                        flags: flags.clone(),
                        fragile: Fragile::default(),
                        succ: None,
                    };
                    let (sup_ref, _sh) = Actor::spawn(
                        None,
                        Sup { main_name: name.clone(), main_group: group.clone(), mark_prefix: mark_prefix.clone(), log: sup_log.clone(), gates: sup_gates.clone(), seen: AtomicU64::new(0) },
                        (),
                    )
                    .await
                    .expect("sup");
                    let (marker, _mh) = Actor::spawn(None, Kid, ()).await.expect("marker");
                    let (main, handle) = if with_sup {
                        Actor::spawn_linked(Some(name.clone()), Main, cfg, sup_ref.get_cell()).await.expect("main")
                    } else {
                        Actor::spawn(Some(name.clone()), Main, cfg).await.expect("main")
                    };
                    pg::monitor(group.clone(), sup_ref.get_cell());
                    pg::monitor(format!("{mark_prefix}final"), sup_ref.get_cell());
                    pg::join(group.clone(), vec![main.get_cell()]);
                    let (_kid, _kh) = Actor::spawn_linked(None, Kid, (), main.get_cell()).await.expect("kid");
                    c.st.lock().unwrap().main = Some(main.get_cell());
                    ready_tx.send((main.get_cell(), sup_ref.get_cell(), marker.get_cell())).unwrap();
                    let mut handle = Some(handle);
                    while let Some(cmd) = cmd_rx.recv().await {
                        match cmd {
                            Cmd::Stop => {
                                main.stop(None);
                                if let Some(h) = handle.take() {
                                    let _ = h.await;
                                }
                                c.push(Role::Exit, Ev::Done);
                            }
                            Cmd::Finish => {
                                // let the supervisor drain its port: a final marker, then wait for it
                                pg::join(format!("{mark_prefix}final"), vec![marker.get_cell()]);
                                loop {
                                    if sup_log.lock().unwrap().iter().any(|e| e == "mark final") {
                                        break;
                                    }
                                    tokio::task::yield_now().await;
                                }
                                main.kill();
                                marker.stop(None);
                                sup_ref.stop(None);
                                for _ in 0..20 {
                                    tokio::task::yield_now().await;
                                }
                                let _ = fin_tx.send(());
                                break;
                            }
                        }
                    }
                });
            })
        };
        let (main_cell, sup_cell, marker_cell) = ready_rx.recv().expect("setup");
        let ctx = Arc::new(Ctx {
            cell: main_cell.clone(),
            name: name.clone(),
            group: group.clone(),
            mon_group: String::new(),
            flags: flags.clone(),
        });
        let done: Arc<Mutex<Vec<(u64, &'static str, Snap)>>> = Arc::new(Mutex::new(Vec::new()));
        // waiter bookkeeping: last event of each waiter
        let mut last: HashMap<u64, Ev> = HashMap::new();
        let mut order: Vec<u64> = Vec::new();
        let mut plans: HashMap<u64, Option<&'static str>> = HashMap::new();
        let mut hit: HashSet<u64> = HashSet::new();
        let mut exit_state: Option<Ev> = None;
        let mut exit_hit = false;
        let mut threads = Vec::new();

        // after something that may have woken parked waiters: collect their next events
        let settle_waiters = |last: &mut HashMap<u64, Ev>, order: &Vec<u64>| {
            loop {
                let mut progressed = false;
                for k in order {
                    if let Some(Ev::Parked(seen)) = last.get(k).copied() {
                        if c.wakes(*k) > seen {
                            let e = c.wait_event(Role::Waiter(*k));
                            last.insert(*k, e);
                            progressed = true;
                        }
                    }
                }
                if !progressed {
                    break;
                }
            }
        };

        for op in parts {
            let w: Vec<&str> = op.split_whitespace().collect();
            if w.is_empty() {
                continue;
            }
            match w[0] {
                "ws" => {
                    let k: u64 = w[1].parse().unwrap();
                    let plan = match w[2] {
                        "notified" => Some("wait.after_notified"),
                        "status" => Some("wait.after_status"),
                        _ => None,
                    };
                    plans.insert(k, plan);
                    if let Some(p) = plan {
                        c.st.lock().unwrap().plan.insert(Role::Waiter(k), p);
                    }
                    if with_sup {
                        pg::monitor(format!("{mark_prefix}{k}"), sup_cell.clone());
                    }
                    let (ctx2, done2, c2, marker2, mg) =
                        (ctx.clone(), done.clone(), c.clone(), marker_cell.clone(), format!("{mark_prefix}{k}"));
                    threads.push(std::thread::spawn(move || {
                        ROLE.with(|r| r.set(Some(Role::Waiter(k))));
                        let cell = ctx2.cell.clone();
                        let mut fut: Pin<Box<dyn Future<Output = ()> + Send>> = Box::pin(async move {
                            let _ = cell.wait(None).await;
                        });
                        let waker = Waker::from(Arc::new(ThreadWaker { k, ctl: c2.clone() }));
                        let mut cx = Context::from_waker(&waker);
                        loop {
                            let seen = c2.wakes(k);
                            match fut.as_mut().poll(&mut cx) {
                                Poll::Ready(()) => {
                                    let snap = ctx2.snapshot();
                                    done2.lock().unwrap().push((k, "ORet", snap));
                                    pg::join(mg.clone(), vec![marker2.clone()]);
                                    c2.push(Role::Waiter(k), Ev::Done);
                                    break;
                                }
                                Poll::Pending => {
                                    c2.push(Role::Waiter(k), Ev::Parked(seen));
                                    let mut st = c2.st.lock().unwrap();
                                    while *st.wakes.get(&k).unwrap_or(&0) <= seen {
                                        if st.resume.contains(&Role::Waiter(k)) {
                                            // scenario over: give up
                                            return;
                                        }
                                        st = c2.cv.wait(st).unwrap();
                                    }
                                }
                            }
                        }
                    }));
                    order.push(k);
                    let e = c.wait_event(Role::Waiter(k));
                    if matches!(e, Ev::Paused(_)) {
                        hit.insert(k);
                    }
                    last.insert(k, e);
                }
                "x" => {
                    cmd_tx.send(Cmd::Stop).unwrap();
                    let e = c.wait_event(Role::Exit);
                    if matches!(e, Ev::Paused(_)) {
                        exit_hit = true;
                    }
                    exit_state = Some(e);
                    settle_waiters(&mut last, &order);
                }
                "rw" => {
                    let k: u64 = w[1].parse().unwrap();
                    if matches!(last.get(&k), Some(Ev::Paused(_))) {
                        c.resume(Role::Waiter(k));
                        let e = c.wait_event(Role::Waiter(k));
                        last.insert(k, e);
                    }
                }
                "rx" => {
                    if matches!(exit_state, Some(Ev::Paused(_))) {
                        c.resume(Role::Exit);
                        let e = c.wait_event(Role::Exit);
                        exit_state = Some(e);
                    }
                    settle_waiters(&mut last, &order);
                }
                o => panic!("bad thr op {o}"),
            }
        }
        // finish whatever the scenario left paused
        for k in order.clone() {
            if matches!(last.get(&k), Some(Ev::Paused(_))) {
                c.resume(Role::Waiter(k));
                let e = c.wait_event(Role::Waiter(k));
                last.insert(k, e);
            }
        }
        let exit_complete = matches!(exit_state, Some(Ev::Done));
        let final_snap = ctx.snapshot();
        let term_at_end_probe = sup_log.clone();
        // pending = parked and not woken
        let mut pending: Vec<u64> = Vec::new();
        for k in &order {
            if let Some(Ev::Parked(seen)) = last.get(k).copied() {
                if c.wakes(*k) <= seen {
                    pending.push(*k);
                }
            }
        }
        let completed: Vec<(u64, &'static str, String)> = Vec::new();
        let _ = completed;
        // release everything: paused exit, parked waiters, then let the supervisor drain
        if matches!(exit_state, Some(Ev::Paused(_))) {
            c.resume(Role::Exit);
            let _ = c.wait_event(Role::Exit);
        }
        for k in &pending {
            c.resume(Role::Waiter(*k));
        }
        cmd_tx.send(Cmd::Finish).unwrap();
        let _ = fin_rx.recv();
        let _ = exit_thread.join();
        for t in threads {
            let _ = t.join();
        }
        let log = sup_log.lock().unwrap().clone();
        let _ = term_at_end_probe;
        let term_pos = log.iter().position(|e| e == "term");
        let sup_at = |w: u64| -> bool {
            if !with_sup {
                return false;
            }
            let mark = log.iter().position(|e| *e == format!("mark {w}"));
            matches!((term_pos, mark), (Some(t), Some(m)) if t < m)
        };
        let mut obs: Vec<String> = Vec::new();
        for (w, out, snap) in done.lock().unwrap().iter() {
            if !pending.contains(w) {
                obs.push(format!("mkObs {} {} {}", w, out, snap_term(snap, sup_at(*w))));
            }
        }
        for w in &pending {
            obs.push(format!("mkObs {} OPending {}", w, snap_term(&final_snap, with_sup && exit_complete)));
        }
        let leaves = log.iter().filter(|e| *e == "leave").count();
        let mut missed = 0;
        for (k, p) in &plans {
            if p.is_some() && !hit.contains(k) {
                missed += 1;
            }
        }
        if exit_plan.is_some() && !exit_hit {
            missed += 1;
        }
        format!("({}, [], {}, {})", coq_list(&obs), leaves, missed)
    }
}

fn main() {
    // the scripted callback panics are part of the scenarios; anything else is a harness bug
    std::panic::set_hook(Box::new(|info| {
        let msg = info.to_string();
        if !(msg.contains("handler panic") || msg.contains("post_stop panic") || msg.contains("fragile drop panic")
            || msg.contains("pre_start panic") || msg.contains("post_start panic"))
        {
            eprintln!("{msg}");
        }
    }));
    let mut out = Vec::new();
    for line in stdin_lines() {
        if line.starts_with("thr ") {
            out.push(thr::run(&line));
            continue;
        }
        let rt = tokio::runtime::Builder::new_current_thread()
            .enable_time()
            .start_paused(true)
            .build()
            .expect("runtime");
        let r = rt.block_on(run_scenario(&line));
        out.push(r);
        drop(rt);
    }
    for r in out {
        println!("{r}");
    }
}
