//! E1 for C09: drives the REAL `ActorRef::call`, `rpc::multi_call` and
//! `ActorRef::call_and_forward` against real actors on a paused tokio clock.
//!
//! stdin, one scenario per line:  `<n_actors> | op ; op ; ...`
//!   call <a> <ns|->            ActorRef::call in its own task (request id = next id)
//!   dcall <a> <ns|->           the same through DerivedActorRef::call (get_derived)
//!   mcall <a> <ns|->           the same through the call! / call_t! macros (ns must be whole ms)
//!   fwd <a> <b> <ns|->         call_and_forward to actor b
//!   multi <a,b,..> <ns|->      rpc::multi_call in its own task (ids allocated when it runs)
//!   act <c> <r<v>|d|s|m|p|e> [<c'>:<v>|<c'>:- ...]
//!                              publish the action of the handler of request c (reply v / drop
//!                              the port / store it in the state / move it to a new task /
//!                              panic / return Err); extra items answer or drop stored ports
//!   task <c> <r<v>|d>          the task holding c's port replies / drops it
//!   kill <a> | stop <a> | drain <a>
//!   settle | adv <ns> | advraw <ns>
//! stdout: one Coq-syntax term per scenario (`mkObs calls groups forwards alive`).
//! Every handler blocks on a per-request semaphore until the driver publishes its action.
use std::collections::HashMap;
use std::sync::atomic::{AtomicU64, Ordering};
use std::sync::{Arc, Mutex};

use ractor::concurrency::Duration;
use ractor::rpc::CallResult;
use ractor::{Actor, ActorProcessingErr, ActorRef, ActorStatus, RpcReplyPort};
use rv_harness::*;
use tokio::sync::Semaphore;
use tokio::time::Instant;

#[derive(Clone)]
enum Act {
    Reply(u64),
    Drop,
    Store,
    Move,
    Panic,
    Err,
}
#[derive(Clone)]
struct Plan {
    also: Vec<(u64, Option<u64>)>,
    act: Act,
}
#[derive(Clone)]
enum TAct {
    Reply(u64),
    Drop,
}

#[derive(Default, Clone)]
struct CallRec {
    res: Option<(String, u64)>,
    t0: Option<u64>,
    member: bool,
    tmo: Option<u64>,
    callee: usize,
    fwd: Option<usize>,
}

struct World {
    start: Instant,
    plans: Mutex<HashMap<u64, Plan>>,
    sems: Mutex<HashMap<u64, Arc<Semaphore>>>,
    tplans: Mutex<HashMap<u64, TAct>>,
    tsems: Mutex<HashMap<u64, Arc<Semaphore>>>,
    calls: Mutex<Vec<CallRec>>,
    groups: Mutex<Vec<(Option<String>, Vec<u64>)>>,
    fwds: Mutex<Vec<(u64, u64, u64, bool)>>,
    activity: AtomicU64,
}
impl World {
    fn now(&self) -> u64 {
        (Instant::now() - self.start).as_nanos() as u64
    }
    fn sem(&self, c: u64) -> Arc<Semaphore> {
        self.sems.lock().unwrap().entry(c).or_insert_with(|| Arc::new(Semaphore::new(0))).clone()
    }
    fn tsem(&self, c: u64) -> Arc<Semaphore> {
        self.tsems.lock().unwrap().entry(c).or_insert_with(|| Arc::new(Semaphore::new(0))).clone()
    }
    fn tick(&self) {
        self.activity.fetch_add(1, Ordering::SeqCst);
    }
    fn new_call(&self, member: bool, tmo: Option<Duration>, callee: usize, fwd: Option<usize>) -> u64 {
        let mut v = self.calls.lock().unwrap();
        v.push(CallRec { res: None, t0: None, member, tmo: tmo.map(|d| d.as_nanos() as u64), callee, fwd });
        (v.len() - 1) as u64
    }
    fn set_t0(&self, c: u64) {
        self.calls.lock().unwrap()[c as usize].t0 = Some(self.now());
    }
    fn set_res(&self, c: u64, r: String) {
        let t = self.now();
        self.calls.lock().unwrap()[c as usize].res = Some((r, t));
        self.tick();
    }
}

enum Msg {
    Req(u64, RpcReplyPort<u64>),
    Fwd(u64, u64),
}
impl ractor::Message for Msg {}

/// message type of the `DerivedActorRef::call` entry point (`dcall`)
struct DReq(u64, RpcReplyPort<u64>);
impl ractor::Message for DReq {}
impl From<DReq> for Msg {
    fn from(d: DReq) -> Msg {
        Msg::Req(d.0, d.1)
    }
}
impl TryFrom<Msg> for DReq {
    type Error = ();
    fn try_from(m: Msg) -> Result<DReq, ()> {
        match m {
            Msg::Req(a, b) => Ok(DReq(a, b)),
            _ => Err(()),
        }
    }
}

struct Callee;
struct St {
    w: Arc<World>,
    stored: HashMap<u64, RpcReplyPort<u64>>,
}
impl Actor for Callee {
    type Msg = Msg;
    type State = St;
    type Arguments = Arc<World>;
    async fn pre_start(&self, _: ActorRef<Msg>, w: Arc<World>) -> Result<St, ActorProcessingErr> {
        Ok(St { w, stored: HashMap::new() })
    }
    async fn handle(&self, _: ActorRef<Msg>, m: Msg, st: &mut St) -> Result<(), ActorProcessingErr> {
        match m {
            Msg::Fwd(c, v) => {
                let t = st.w.now();
                st.w.fwds.lock().unwrap().push((c, v, t, true));
                st.w.tick();
                Ok(())
            }
            Msg::Req(c, port) => {
                st.w.tick();
                st.w.sem(c).acquire().await.expect("sem").forget();
                let plan = st.w.plans.lock().unwrap().get(&c).cloned().expect("plan");
                for (c2, ov) in plan.also {
                    if let Some(p) = st.stored.remove(&c2) {
                        match ov {
                            Some(v) => {
                                let _ = p.send(v);
                            }
                            None => drop(p),
                        }
                    }
                }
                st.w.tick();
                match plan.act {
                    Act::Reply(v) => {
                        let _ = port.send(v);
                        Ok(())
                    }
                    Act::Drop => {
                        drop(port);
                        Ok(())
                    }
                    Act::Store => {
                        st.stored.insert(c, port);
                        Ok(())
                    }
                    Act::Move => {
                        let w = st.w.clone();
                        tokio::spawn(async move {
                            w.tsem(c).acquire().await.expect("tsem").forget();
                            let ta = w.tplans.lock().unwrap().get(&c).cloned().expect("tplan");
                            match ta {
                                TAct::Reply(v) => {
                                    let _ = port.send(v);
                                }
                                TAct::Drop => drop(port),
                            }
                            w.tick();
                        });
                        Ok(())
                    }
                    Act::Panic => panic!("handler panics while holding the port"),
                    Act::Err => Err("handler error".into()),
                }
            }
        }
    }
}

fn dur(s: &str) -> Option<Duration> {
    if s == "-" {
        None
    } else {
        Some(Duration::from_nanos(s.parse().unwrap()))
    }
}

fn res_term<T>(r: &CallResult<T>, v: impl Fn(&T) -> u64) -> String {
    match r {
        CallResult::Success(x) => format!("(OSuccess {})", v(x)),
        CallResult::SenderError => "OSenderError".into(),
        CallResult::Timeout => "OTimeout".into(),
    }
}

const K: usize = 8;

fn snapshot(w: &World, actors: &[ActorRef<Msg>]) -> (u64, usize, Vec<bool>) {
    (
        w.activity.load(Ordering::SeqCst),
        w.calls.lock().unwrap().iter().filter(|c| c.res.is_some()).count(),
        actors.iter().map(|a| a.get_status() != ActorStatus::Stopped).collect(),
    )
}

async fn settle(w: &World, actors: &[ActorRef<Msg>]) {
    let mut prev = snapshot(w, actors);
    loop {
        for _ in 0..K {
            tokio::task::yield_now().await;
        }
        let cur = snapshot(w, actors);
        if cur == prev {
            return;
        }
        prev = cur;
    }
}

async fn scenario(line: &str) -> String {
    let (n, ops) = line.split_once('|').expect("n | ops");
    let n: usize = n.trim().parse().unwrap();
    let w = Arc::new(World {
        start: Instant::now(),
        plans: Default::default(),
        sems: Default::default(),
        tplans: Default::default(),
        tsems: Default::default(),
        calls: Default::default(),
        groups: Default::default(),
        fwds: Default::default(),
        activity: AtomicU64::new(0),
    });
    let mut actors = Vec::new();
    let mut handles = Vec::new();
    for _ in 0..n {
        let (a, h) = Actor::spawn(None, Callee, w.clone()).await.expect("spawn");
        actors.push(a);
        handles.push(h);
    }
    settle(&w, &actors).await;
    for op in ops.split(';') {
        let t: Vec<&str> = op.split_whitespace().collect();
        if t.is_empty() {
            continue;
        }
        match t[0] {
            "call" => {
                let ai = t[1].parse::<usize>().unwrap();
                let a = actors[ai].clone();
                let tmo = dur(t[2]);
                let c = w.new_call(false, tmo, ai, None);
                let w2 = w.clone();
                tokio::spawn(async move {
                    let w3 = w2.clone();
                    let r = a
                        .call(
                            move |port| {
                                w3.set_t0(c);
                                Msg::Req(c, port)
                            },
                            tmo,
                        )
                        .await;
                    let s = match r {
                        Ok(cr) => res_term(&cr, |v| *v),
                        Err(_) => "OSendFailed".into(),
                    };
                    w2.set_res(c, s);
                });
            }
            "dcall" => {
                // DerivedActorRef::call (rpc.rs, separate impl block)
                let ai = t[1].parse::<usize>().unwrap();
                let a: ractor::DerivedActorRef<DReq> = actors[ai].get_derived();
                let tmo = dur(t[2]);
                let c = w.new_call(false, tmo, ai, None);
                let w2 = w.clone();
                tokio::spawn(async move {
                    let w3 = w2.clone();
                    let r = a
                        .call(
                            move |port| {
                                w3.set_t0(c);
                                DReq(c, port)
                            },
                            tmo,
                        )
                        .await;
                    let s = match r {
                        Ok(cr) => res_term(&cr, |v| *v),
                        Err(_) => "OSendFailed".into(),
                    };
                    w2.set_res(c, s);
                });
            }
            "mcall" => {
                // the call! / call_t! macros (timeout in whole milliseconds)
                let ai = t[1].parse::<usize>().unwrap();
                let a = actors[ai].clone();
                let tmo = dur(t[2]);
                let c = w.new_call(false, tmo, ai, None);
                let w2 = w.clone();
                tokio::spawn(async move {
                    w2.set_t0(c);
                    let r: Result<u64, ractor::RactorErr<Msg>> = match tmo {
                        None => ractor::call!(a, Msg::Req, c),
                        Some(d) => ractor::call_t!(a, Msg::Req, d.as_millis() as u64, c),
                    };
                    let s = match r {
                        Ok(v) => format!("(OSuccess {v})"),
                        Err(ractor::RactorErr::Timeout) => "OTimeout".to_string(),
                        Err(ractor::RactorErr::Messaging(ractor::MessagingErr::ChannelClosed)) => "OSenderError".to_string(),
                        Err(ractor::RactorErr::Messaging(_)) => "OSendFailed".to_string(),
                        Err(_) => "OJoinError".to_string(),
                    };
                    w2.set_res(c, s);
                });
            }
            "fwd" => {
                let ai = t[1].parse::<usize>().unwrap();
                let bi = t[2].parse::<usize>().unwrap();
                let a = actors[ai].clone();
                let b = actors[bi].clone();
                let tmo = dur(t[3]);
                let c = w.new_call(false, tmo, ai, Some(bi));
                let w2 = w.clone();
                tokio::spawn(async move {
                    let w3 = w2.clone();
                    let slot = Arc::new(Mutex::new(0u64));
                    let slot2 = slot.clone();
                    let h = a.call_and_forward(
                        move |port| {
                            w3.set_t0(c);
                            Msg::Req(c, port)
                        },
                        &b,
                        move |v: u64| {
                            *slot2.lock().unwrap() = v;
                            Msg::Fwd(c, v)
                        },
                        tmo,
                    );
                    let s = match h {
                        Err(_) => "OSendFailed".to_string(),
                        Ok(jh) => match jh.await {
                            Ok(cr) => {
                                if let CallResult::Success(Err(_)) = &cr {
                                    let v = *slot.lock().unwrap();
                                    let t = w2.now();
                                    w2.fwds.lock().unwrap().push((c, v, t, false));
                                }
                                res_term(&cr, |_| *slot.lock().unwrap())
                            }
                            Err(_) => "OJoinError".into(),
                        },
                    };
                    w2.set_res(c, s);
                });
            }
            "multi" => {
                let tis: Vec<usize> = t[1].split(',').map(|x| x.parse::<usize>().unwrap()).collect();
                let targets: Vec<ActorRef<Msg>> = tis.iter().map(|x| actors[*x].clone()).collect();
                let tmo = dur(t[2]);
                let g = {
                    let mut gs = w.groups.lock().unwrap();
                    gs.push((None, Vec::new()));
                    gs.len() - 1
                };
                let cursor = AtomicU64::new(0);
                let w2 = w.clone();
                tokio::spawn(async move {
                    let w3 = w2.clone();
                    let r = ractor::rpc::multi_call(
                        &targets,
                        move |port| {
                            let k = cursor.fetch_add(1, Ordering::SeqCst) as usize;
                            let c = w3.new_call(true, tmo, tis[k], None);
                            w3.groups.lock().unwrap()[g].1.push(c);
                            w3.set_t0(c);
                            Msg::Req(c, port)
                        },
                        tmo,
                    )
                    .await;
                    let s = match r {
                        Err(_) => "GErr".to_string(),
                        Ok(v) => {
                            let items: Vec<String> = v.iter().map(|cr| res_term(cr, |x| *x)).collect();
                            format!("(GOk {} {})", coq_list(&items), w2.now())
                        }
                    };
                    w2.groups.lock().unwrap()[g].0 = Some(s);
                    w2.tick();
                });
            }
            "act" => {
                let c: u64 = t[1].parse().unwrap();
                let act = match &t[2][..1] {
                    "r" => Act::Reply(t[2][1..].parse().unwrap()),
                    "d" => Act::Drop,
                    "s" => Act::Store,
                    "m" => Act::Move,
                    "p" => Act::Panic,
                    "e" => Act::Err,
                    x => panic!("bad action {x}"),
                };
                let also = t[3..]
                    .iter()
                    .map(|x| {
                        let (a, b) = x.split_once(':').unwrap();
                        (a.parse().unwrap(), if b == "-" { None } else { Some(b.parse().unwrap()) })
                    })
                    .collect();
                let mut pl = w.plans.lock().unwrap();
                if !pl.contains_key(&c) {
                    pl.insert(c, Plan { also, act });
                    drop(pl);
                    w.sem(c).add_permits(1);
                }
            }
            "task" => {
                let c: u64 = t[1].parse().unwrap();
                let ta = if t[2] == "d" { TAct::Drop } else { TAct::Reply(t[2][1..].parse().unwrap()) };
                let mut pl = w.tplans.lock().unwrap();
                if !pl.contains_key(&c) {
                    pl.insert(c, ta);
                    drop(pl);
                    w.tsem(c).add_permits(1);
                }
            }
            "kill" => actors[t[1].parse::<usize>().unwrap()].kill(),
            "stop" => actors[t[1].parse::<usize>().unwrap()].stop(None),
            "drain" => {
                let _ = actors[t[1].parse::<usize>().unwrap()].drain();
            }
            "settle" => settle(&w, &actors).await,
            "adv" => {
                settle(&w, &actors).await;
                tokio::time::advance(Duration::from_nanos(t[1].parse().unwrap())).await;
            }
            "advraw" => {
                tokio::time::advance(Duration::from_nanos(t[1].parse().unwrap())).await;
                settle(&w, &actors).await;
            }
            x => panic!("bad op {x}"),
        }
    }
    settle(&w, &actors).await;
    let calls: Vec<String> = w
        .calls
        .lock()
        .unwrap()
        .iter()
        .map(|c| {
            let t0 = c.t0.unwrap_or(0);
            let (r, t) = match (&c.res, c.member) {
                (Some((r, t)), false) => (r.clone(), *t),
                _ => ("OPending".to_string(), 0),
            };
            format!(
                "mkOC {r} {t} {t0} {} {} {}%nat {}",
                coq_bool(c.t0.is_some()),
                c.tmo.map(|x| format!("(Some {x})")).unwrap_or_else(|| "None".into()),
                c.callee,
                c.fwd.map(|x| format!("(Some {x}%nat)")).unwrap_or_else(|| "None".into())
            )
        })
        .collect();
    let groups: Vec<String> = w
        .groups
        .lock()
        .unwrap()
        .iter()
        .map(|(g, ids)| {
            let idl: Vec<String> = ids.iter().map(|x| format!("{x}%nat")).collect();
            format!("({}, {})", g.clone().unwrap_or_else(|| "GPending".into()), coq_list(&idl))
        })
        .collect();
    let fwds: Vec<String> = w
        .fwds
        .lock()
        .unwrap()
        .iter()
        .map(|(c, v, t, ok)| format!("({c}%nat, {v}, {t}, {})", coq_bool(*ok)))
        .collect();
    let alive: Vec<&str> = actors.iter().map(|a| coq_bool(a.get_status() != ActorStatus::Stopped)).collect();
    drop(handles);
    format!("mkObs {} {} {} {}", coq_list(&calls), coq_list(&groups), coq_list(&fwds), coq_list(&alive))
}

fn main() {
    std::panic::set_hook(Box::new(|info| {
        let s = info.to_string();
        if !s.contains("handler panics while holding the port") {
            eprintln!("{s}");
        }
    }));
    for line in stdin_lines() {
        let rt = tokio::runtime::Builder::new_current_thread()
            .enable_time()
            .start_paused(true)
            .build()
            .expect("runtime");
        let out = rt.block_on(scenario(&line));
        println!("{out}");
        drop(rt);
    }
}
