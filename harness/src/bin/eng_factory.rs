//! E1 for C13/C14: drives a REAL `ractor::factory::Factory` (all five routers x both queues)
//! deterministically: tokio current_thread runtime with a paused clock, harness workers whose
//! `handle` blocks on harness-owned gates, a recording discard handler, acceptance ports, a
//! gated `WorkerCapacityController` that can hold the factory actor inside its `Calculate`
//! handler, and a scripted `RateLimiter`. `sleep(1ns)` is the quiescence barrier.
//!
//! stdin, one scenario per line:   <cfg> ; <op> ; <op> ; ...
//!   cfg:  <router kp|q|sq|rr|cu> <queue d|p> <n workers> <disc none|new:L|old:L> <hash -|k:v,k:v> <rl -|bits> [dms:<secs> | dmsk:<secs>]  (dead man's switch: detection only | killing stuck workers)
//!   ops:  d <jid> <key> <ttl ms|-> <port 0|1>     dispatch a job
//!         g <w> | f <w> | p <w>                   running job on worker w completes | returns Err | panics
//!         k <w>                                   kill the newest live actor of worker w
//!         r <n>                                   AdjustWorkerPool(n)
//!         t <s>                                   advance the paused clock by s seconds (ttl unit: s + 0.5 s)
//!         hold | rel <n>                          advance 1 s with the capacity controller gated: the factory blocks inside Calculate | release it (n=0: unchanged)
//!       every op ends with: barrier, a no-op message to the factory, barrier.
//!       The clock only moves in `t` and `hold` (1 s) ops, and by 1 ms per barrier sleep; scenarios keep the
//!       total below 10 s so that the factory's 10 s ping timer never fires.
//!         drain | stop | q                        DrainRequests | factory.stop() | queue depth/active/capacity
//!         sd <disc> | sw <n> | sh                 UpdateSettings(discard_settings | worker_count | a new discard handler)
//!         ud <kind>                               UpdateSettings of dead man's switch (detection only) / capacity controller / hooks / stats
//!         xs <w> | xr <w>                         stop worker w's newest actor from outside with its post_stop held back | let that post_stop return
//! a line starting with `hash ` asks for hash_with_max values:  hash <n> <k> <k> ...
//! stdout: one Coq-syntax term per line: list (per op) of event lists (chronological inside an op).
use std::collections::{BTreeMap, HashMap, HashSet};
use std::sync::{Arc, Mutex};
use std::time::Duration;

use futures::future::BoxFuture;
use ractor::concurrency::oneshot;
use ractor::factory::queues::{DefaultQueue, PriorityManager, PriorityQueue, Queue, StandardPriority};
use ractor::factory::routing::{
    CustomHashFunction, CustomRouting, KeyPersistentRouting, QueuerRouting, RoundRobinRouting, Router,
    StickyQueuerRouting,
};
use ractor::factory::*;
use ractor::{Actor, ActorCell, ActorProcessingErr, ActorRef};
use rv_harness::*;
use tokio::sync::Semaphore;

// ---------------------------------------------------------------- shared recording state

#[derive(Default)]
struct Shared {
    events: Vec<String>,
    closed: bool,
    /// jids that reached a recorded end (handler completed) or a discard call
    settled: HashSet<u64>,
    /// build counter -> (aid = index, wid)
    builds: Vec<usize>,
    /// aid -> running jid
    running: BTreeMap<usize, u64>,
    /// aid -> command for the blocked handler (0 complete, 1 err, 2 panic)
    cmd: HashMap<usize, u8>,
    gates: HashMap<usize, Arc<Semaphore>>,
    hold_armed: bool,
    held: bool,
    release_value: usize,
    /// actors stopped from outside by `xs`: their post_stop waits for `xr`
    xgated: HashSet<usize>,
    /// aid -> gate of a post_stop that is being held back (present once the actor is inside post_stop)
    pgates: BTreeMap<usize, Arc<Semaphore>>,
    /// generations of discard handlers that are currently installed (or being replaced in this op)
    valid_handlers: HashSet<usize>,
}

type Sh = Arc<Mutex<Shared>>;

fn ev(sh: &Sh, e: String) {
    let mut s = sh.lock().unwrap();
    if !s.closed {
        s.events.push(e);
    }
}

struct Payload {
    jid: u64,
    sh: Sh,
}
impl ractor::Message for Payload {}
impl Drop for Payload {
    fn drop(&mut self) {
        let mut s = self.sh.lock().unwrap();
        if !s.closed && !s.settled.contains(&self.jid) {
            let e = format!("EDrop {}", self.jid);
            s.events.push(e);
        }
    }
}

// ---------------------------------------------------------------- worker

struct HWorker {
    aid: usize,
    sh: Sh,
}

impl Worker for HWorker {
    type Key = u64;
    type Message = Payload;
    type Arguments = ();
    type State = ();

    async fn pre_start(
        &self,
        _wid: WorkerId,
        _factory: &ActorRef<FactoryMessage<u64, Payload>>,
        _args: (),
    ) -> Result<(), ActorProcessingErr> {
        Ok(())
    }

    async fn post_stop(
        &self,
        _wid: WorkerId,
        _factory: &ActorRef<FactoryMessage<u64, Payload>>,
        _state: &mut (),
    ) -> Result<(), ActorProcessingErr> {
        // the exiting-worker window: status Stopping, ports closed, supervisor not yet told
        let gate = {
            let mut s = self.sh.lock().unwrap();
            if s.xgated.contains(&self.aid) {
                let g = Arc::new(Semaphore::new(0));
                s.pgates.insert(self.aid, g.clone());
                Some(g)
            } else {
                None
            }
        };
        if let Some(g) = gate {
            let p = g.acquire().await.expect("post_stop gate");
            p.forget();
            self.sh.lock().unwrap().pgates.remove(&self.aid);
        }
        Ok(())
    }

    async fn handle(
        &self,
        wid: WorkerId,
        _factory: &ActorRef<FactoryMessage<u64, Payload>>,
        job: Job<u64, Payload>,
        _state: &mut (),
    ) -> Result<u64, ActorProcessingErr> {
        let jid = job.msg.jid;
        let gate = {
            let mut s = self.sh.lock().unwrap();
            if !s.closed {
                s.events.push(format!("EStart {} {} {}", jid, wid, self.aid));
            }
            s.running.insert(self.aid, jid);
            s.gates.entry(self.aid).or_insert_with(|| Arc::new(Semaphore::new(0))).clone()
        };
        // a guard so that a killed handler leaves the running registry
        struct Guard(Sh, usize);
        impl Drop for Guard {
            fn drop(&mut self) {
                self.0.lock().unwrap().running.remove(&self.1);
            }
        }
        let _g = Guard(self.sh.clone(), self.aid);
        let permit = gate.acquire().await.expect("gate");
        permit.forget();
        let cmd = self.sh.lock().unwrap().cmd.remove(&self.aid).unwrap_or(0);
        match cmd {
            0 => {
                {
                    let mut s = self.sh.lock().unwrap();
                    s.settled.insert(jid);
                    if !s.closed {
                        s.events.push(format!("EEnd {} {} {}", jid, wid, self.aid));
                    }
                }
                Ok(job.key)
            }
            1 => Err(From::from("harness worker error")),
            _ => panic!("harness worker panic"),
        }
    }
}

struct Builder(Sh);
impl WorkerBuilder<HWorker, ()> for Builder {
    fn build(&mut self, wid: WorkerId) -> (HWorker, ()) {
        let mut s = self.0.lock().unwrap();
        let aid = s.builds.len();
        s.builds.push(wid);
        (HWorker { aid, sh: self.0.clone() }, ())
    }
}

// ---------------------------------------------------------------- user-code pieces

/// A recording discard handler of generation `.1`. A call that reaches a handler which is no longer
/// installed records nothing: the job then shows up as dropped (never given to the current handler).
struct Disc(Sh, usize);
impl DiscardHandler<u64, Payload> for Disc {
    fn discard(&self, reason: DiscardReason, job: &mut Job<u64, Payload>) {
        if !self.0.lock().unwrap().valid_handlers.contains(&self.1) {
            return;
        }
        let r = match reason {
            DiscardReason::TtlExpired => "RTtl",
            DiscardReason::Loadshed => "RLoadshed",
            DiscardReason::Shutdown => "RShutdown",
            DiscardReason::RateLimited => "RRate",
        };
        let mut s = self.0.lock().unwrap();
        s.settled.insert(job.msg.jid);
        if !s.closed {
            let e = format!("EDisc {} {}", job.msg.jid, r);
            s.events.push(e);
        }
    }
}

struct Ctl(Sh, Arc<Semaphore>);
impl WorkerCapacityController for Ctl {
    fn get_pool_size(&mut self, current: usize) -> BoxFuture<'_, usize> {
        Box::pin(async move {
            let armed = {
                let mut s = self.0.lock().unwrap();
                if s.hold_armed {
                    s.hold_armed = false;
                    s.held = true;
                    true
                } else {
                    false
                }
            };
            if !armed {
                return current;
            }
            let p = self.1.acquire().await.expect("ctl gate");
            p.forget();
            let mut s = self.0.lock().unwrap();
            s.held = false;
            if s.release_value == 0 {
                current
            } else {
                s.release_value
            }
        })
    }
}

/// lifecycle hooks with the library's default (no-op) implementations
struct Hooks;
impl FactoryLifecycleHooks<u64, Payload> for Hooks {}

/// a stats layer with the library's default (no-op) implementations
struct Stats;
impl FactoryStatsLayer for Stats {}

fn dms_cfg((secs, kill): (u64, bool)) -> DeadMansSwitchConfiguration {
    DeadMansSwitchConfiguration::builder().detection_timeout(Duration::from_secs(secs)).kill_worker(kill).build()
}

struct TableHash(HashMap<u64, u64>);
impl CustomHashFunction<u64> for TableHash {
    fn hash(&self, key: &u64, _n: usize) -> usize {
        *self.0.get(key).unwrap_or(key) as usize
    }
}

#[derive(Debug)]
struct ScriptLimiter(Vec<bool>, usize);
impl RateLimiter for ScriptLimiter {
    fn check(&mut self) -> bool {
        let r = self.0.get(self.1).copied().unwrap_or(true);
        self.1 += 1;
        r
    }
    fn bump(&mut self) {}
}

struct Prio;
impl PriorityManager<u64, StandardPriority> for Prio {
    fn is_discardable(&self, key: &u64) -> bool {
        key % 7 != 6
    }
    fn get_priority(&self, key: &u64) -> Option<StandardPriority> {
        Some(StandardPriority::from((key % 5) as usize))
    }
}

type PQ = PriorityQueue<u64, Payload, StandardPriority, Prio, 5>;

fn parse_disc(s: &str) -> DiscardSettings {
    if s == "none" {
        return DiscardSettings::None;
    }
    let (m, l) = s.split_once(':').expect("disc");
    DiscardSettings::Static {
        limit: l.parse().expect("limit"),
        mode: if m == "new" { DiscardMode::Newest } else { DiscardMode::Oldest },
    }
}

// ---------------------------------------------------------------- scenario driver

struct Cfg {
    n: usize,
    disc: String,
    /// dead man's switch at start: detection timeout in seconds, and whether stuck workers are killed
    dms: Option<(u64, bool)>,
}

/// Quiescence barrier: with the paused clock, time only moves when every task is blocked.
/// Two rounds, so that work started by a timer that fired on the first tick has settled too.
async fn barrier() {
    tokio::time::sleep(Duration::from_nanos(1)).await;
    tokio::time::sleep(Duration::from_nanos(1)).await;
}

async fn drive<R, Q>(router: R, queue: Q, cfg: Cfg, ops: Vec<Vec<String>>, sh: Sh) -> Vec<Vec<String>>
where
    R: Router<u64, Payload>,
    Q: Queue<u64, Payload>,
{
    let ctl_gate = Arc::new(Semaphore::new(0));
    sh.lock().unwrap().valid_handlers.insert(0);
    let mut handler_gen = 0usize;
    let fdef = Factory::<u64, Payload, (), HWorker, R, Q>::default();
    let args = FactoryArguments::builder()
        .worker_builder(if cfg.n % 2 == 0 {
            // the closure-backed builder of the library
            let shb = sh.clone();
            Box::new(worker_builder(move |wid| Builder(shb.clone()).build(wid)))
        } else {
            Box::new(Builder(sh.clone()))
        })
        .num_initial_workers(cfg.n)
        .router(router)
        .queue(queue)
        .discard_handler(Arc::new(Disc(sh.clone(), 0)))
        .discard_settings(parse_disc(&cfg.disc))
        .capacity_controller(Box::new(Ctl(sh.clone(), ctl_gate.clone())))
        .lifecycle_hooks(Box::new(Hooks))
        .stats(Arc::new(Stats))
        .maybe_dead_mans_switch(cfg.dms.map(dms_cfg))
        .build();
    let t_start = tokio::time::Instant::now();
    let (factory, _fh) = Actor::spawn(None, fdef, args).await.expect("factory spawn");
    barrier().await;
    sh.lock().unwrap().events.clear();

    // pid -> aid for worker actors, learned from the supervision tree after each barrier
    let mut cells: HashMap<usize, ActorCell> = HashMap::new(); // aid -> cell
    let mut known: HashSet<u64> = HashSet::new();
    let mut pending_ports: Vec<(u64, ractor::concurrency::OneshotReceiver<Option<Job<u64, Payload>>>)> = Vec::new();
    let mut out: Vec<Vec<String>> = Vec::new();

    // Actor ids are handed out sequentially and this process spawns nothing else meanwhile,
    // so the k-th built worker (aid k) has pid = factory pid + 1 + k.
    let fpid = factory.get_id().pid();
    let learn = |cells: &mut HashMap<usize, ActorCell>, known: &mut HashSet<u64>| {
        for c in factory.get_children() {
            let pid = c.get_id().pid();
            if known.insert(pid) {
                cells.insert((pid - fpid - 1) as usize, c);
            }
        }
    };
    learn(&mut cells, &mut known);

    for op in ops {
        let w: Vec<&str> = op.iter().map(|s| s.as_str()).collect();
        let num = |i: usize| -> usize { w[i].parse().unwrap_or_else(|_| panic!("bad number in op {:?}", w)) };
        match w[0] {
            "d" => {
                let jid = num(1) as u64;
                let key = num(2) as u64;
                let ttl = if w[3] == "-" {
                    None
                } else {
                    // x.5 s: barriers cost 2 ms of paused-clock time each, so with < 200 ops the
                    // barrier drift never decides an expiry comparison; only `t` ops do
                    Some(Duration::from_millis(num(3) as u64 * 1000 + 500))
                };
                let mut job = Job::with_options(key, Payload { jid, sh: sh.clone() }, JobOptions::new(ttl));
                if w[4] == "1" {
                    let (tx, rx) = oneshot();
                    job.accepted = Some(tx.into());
                    pending_ports.push((jid, rx));
                }
                // the three dispatch entry points of FactoryRef
                let sent = if job.accepted.is_some() {
                    factory.dispatch_job(job)
                } else if ttl.is_none() {
                    let Job { key, msg, .. } = job;
                    factory.dispatch(key, msg)
                } else {
                    let Job { key, msg, options, .. } = job;
                    factory.dispatch_with_options(key, msg, options)
                };
                if let Err(e) = sent {
                    // factory gone: the job comes back in the error
                    ev(&sh, format!("ESendErr {}", jid));
                    sh.lock().unwrap().settled.insert(jid);
                    drop(e);
                }
            }
            "g" | "f" | "p" => {
                let wid = num(1);
                let target = {
                    let s = sh.lock().unwrap();
                    s.running.keys().copied().find(|aid| s.builds[*aid] == wid)
                };
                if let Some(aid) = target {
                    let mut s = sh.lock().unwrap();
                    s.cmd.insert(aid, match w[0] { "g" => 0, "f" => 1, _ => 2 });
                    s.gates.get(&aid).expect("gate exists").add_permits(1);
                }
            }
            "k" => {
                let wid = num(1);
                let target = {
                    let s = sh.lock().unwrap();
                    cells
                        .iter()
                        .filter(|(aid, c)| {
                            s.builds[**aid] == wid
                                && matches!(
                                    c.get_status(),
                                    ractor::ActorStatus::Running
                                        | ractor::ActorStatus::Starting
                                        | ractor::ActorStatus::Upgrading
                                        | ractor::ActorStatus::Draining
                                )
                        })
                        .map(|(aid, _)| *aid)
                        .max()
                };
                if let Some(aid) = target {
                    cells[&aid].kill();
                }
            }
            "r" => {
                let _ = factory.adjust_worker_pool(num(1));
            }
            "t" => {
                tokio::time::advance(Duration::from_secs(num(1) as u64)).await;
            }
            "hold" => {
                // arm the controller and let a `Calculate` fire: the factory blocks inside it
                let alive = factory.get_status() == ractor::ActorStatus::Running;
                let already = sh.lock().unwrap().held;
                if alive && !already {
                    sh.lock().unwrap().hold_armed = true;
                }
                tokio::time::advance(Duration::from_secs(1)).await;
                barrier().await;
                sh.lock().unwrap().hold_armed = false;
            }
            "rel" => {
                let mut s = sh.lock().unwrap();
                s.hold_armed = false;
                if s.held {
                    s.release_value = num(1);
                    ctl_gate.add_permits(1);
                }
            }
            "drain" => {
                let _ = factory.drain_requests();
            }
            "stop" => {
                factory.stop(None);
            }
            "sd" => {
                let _ = factory.update_settings(UpdateSettingsRequest::builder().discard_settings(parse_disc(w[1])).build());
            }
            "sw" => {
                let _ = factory.update_settings(UpdateSettingsRequest::builder().worker_count(num(1)).build());
            }
            "xs" | "xg" => {
                // xs: graceful stop from outside of the newest live actor of worker w; its post_stop is held back
                // xg: only the mark: that actor's post_stop will be held back whoever stops it later (a pool shrink)
                let wid = num(1);
                let target = {
                    let s = sh.lock().unwrap();
                    cells
                        .iter()
                        .filter(|(aid, c)| {
                            s.builds[**aid] == wid
                                && matches!(
                                    c.get_status(),
                                    ractor::ActorStatus::Running
                                        | ractor::ActorStatus::Starting
                                        | ractor::ActorStatus::Upgrading
                                        | ractor::ActorStatus::Draining
                                )
                        })
                        .map(|(aid, _)| *aid)
                        .max()
                };
                if let Some(aid) = target {
                    sh.lock().unwrap().xgated.insert(aid);
                    if w[0] == "xs" {
                        cells[&aid].stop(None);
                    }
                }
            }
            "xr" => {
                // the oldest actor of worker w that sits in its held-back post_stop may finish
                let wid = num(1);
                let g = {
                    let s = sh.lock().unwrap();
                    s.pgates.iter().find(|(aid, _)| s.builds[**aid] == wid).map(|(_, g)| g.clone())
                };
                if let Some(g) = g {
                    g.add_permits(1);
                }
            }
            "sh" => {
                // UpdateSettings(discard_handler = a NEW recording handler)
                handler_gen += 1;
                sh.lock().unwrap().valid_handlers.insert(handler_gen);
                let h: Arc<dyn DiscardHandler<u64, Payload>> = Arc::new(Disc(sh.clone(), handler_gen));
                if factory
                    .cast(FactoryMessage::UpdateSettings(
                        UpdateSettingsRequest::builder().discard_handler(Some(h)).build(),
                    ))
                    .is_err()
                {
                    // factory gone: nothing was installed
                    sh.lock().unwrap().valid_handlers.remove(&handler_gen);
                    handler_gen -= 1;
                }
            }
            "ud" => {
                // UpdateSettings of the parts the model does not carry (their effect on jobs must be nil):
                // dms:<secs> | dms:off | ctl | hooks | hooksoff | stats | statsoff
                let req = match w[1] {
                    "dms:off" => UpdateSettingsRequest::builder().dead_mans_switch(None).build(),
                    x if x.starts_with("dmsk:") => UpdateSettingsRequest::builder()
                        .dead_mans_switch(Some(dms_cfg((x[5..].parse().expect("dmsk secs"), true))))
                        .build(),
                    x if x.starts_with("dms:") => UpdateSettingsRequest::builder()
                        .dead_mans_switch(Some(dms_cfg((x[4..].parse().expect("dms secs"), false))))
                        .build(),
                    "ctl" => UpdateSettingsRequest::builder()
                        .capacity_controller(Some(Box::new(Ctl(sh.clone(), ctl_gate.clone())) as Box<dyn WorkerCapacityController>))
                        .build(),
                    "hooks" => UpdateSettingsRequest::builder()
                        .lifecycle_hooks(Some(Box::new(Hooks) as Box<dyn FactoryLifecycleHooks<u64, Payload>>))
                        .build(),
                    "hooksoff" => UpdateSettingsRequest::builder().lifecycle_hooks(None).build(),
                    "stats" => UpdateSettingsRequest::builder()
                        .stats(Some(Arc::new(Stats) as Arc<dyn FactoryStatsLayer>))
                        .build(),
                    "statsoff" => UpdateSettingsRequest::builder().stats(None).build(),
                    other => panic!("unknown ud kind {other}"),
                };
                let _ = factory.update_settings(req);
            }
            "q" => {}
            other => panic!("unknown op {other}"),
        }
        barrier().await;
        if w[0] == "q" {
            let held = sh.lock().unwrap().held;
            let alive = factory.get_status() == ractor::ActorStatus::Running;
            if !held && alive {
                // the three queries through the FactoryRef convenience API (each waits for its answer; a factory
                // that stops in between refuses the next call)
                if let Ok(ractor::rpc::CallResult::Success(a)) = factory.queue_depth(None).await {
                    ev(&sh, format!("EQDepth {}", a));
                }
                if let Ok(ractor::rpc::CallResult::Success(b)) = factory.active_workers(None).await {
                    ev(&sh, format!("EQActive {}", b));
                }
                if let Ok(ractor::rpc::CallResult::Success(c)) = factory.available_capacity(None).await {
                    ev(&sh, format!("EQCap {}", c));
                }
                barrier().await;
            }
        }
        // a no-op message closes every op, so that the factory's `is_drained` check (made after
        // every handled message, but not after supervision events) has run at every op boundary
        let _ = factory.cast(FactoryMessage::WorkerPong(usize::MAX, Duration::ZERO));
        barrier().await;
        if w[0] == "sh" {
            // the scenario never sends `sh` while the factory is held, so the update has been applied
            let mut s = sh.lock().unwrap();
            if !s.held {
                let keep = handler_gen;
                s.valid_handlers.retain(|g| *g == keep);
            }
        }
        learn(&mut cells, &mut known);
        // acceptance replies that have arrived
        let mut still = Vec::new();
        for (jid, mut rx) in pending_ports.drain(..) {
            match rx.try_recv() {
                Ok(None) => ev(&sh, format!("EAcc {}", jid)),
                Ok(Some(job)) => {
                    ev(&sh, format!("ERet {}", jid));
                    drop(job);
                }
                Err(tokio::sync::oneshot::error::TryRecvError::Empty) => still.push((jid, rx)),
                Err(tokio::sync::oneshot::error::TryRecvError::Closed) => ev(&sh, format!("EPortClosed {}", jid)),
            }
        }
        pending_ports = still;
        // chronological inside the op; the check sorts before comparing views
        let evs: Vec<String> = std::mem::take(&mut sh.lock().unwrap().events);
        out.push(evs);
    }
    sh.lock().unwrap().closed = true;
    if std::env::var("RV_DEBUG").is_ok() {
        eprintln!("elapsed on the paused clock: {:?}", t_start.elapsed());
    }
    factory.kill();
    out
}

fn run_scenario(line: &str) -> String {
    let parts: Vec<Vec<String>> = line
        .split(';')
        .map(|p| p.split_whitespace().map(|s| s.to_string()).collect::<Vec<_>>())
        .filter(|p: &Vec<String>| !p.is_empty())
        .collect();
    let c = &parts[0];
    let ops: Vec<Vec<String>> = parts[1..].to_vec();
    let dms = c.get(6).and_then(|t| {
        t.strip_prefix("dmsk:")
            .map(|x| (x.parse::<u64>().expect("dmsk"), true))
            .or_else(|| t.strip_prefix("dms:").map(|x| (x.parse::<u64>().expect("dms"), false)))
    });
    let cfg = Cfg { n: c[2].parse().expect("n"), disc: c[3].clone(), dms };
    let mut table = HashMap::new();
    if c[4] != "-" {
        for kv in c[4].split(',') {
            let (k, v) = kv.split_once(':').expect("hash kv");
            table.insert(k.parse::<u64>().expect("k"), v.parse::<u64>().expect("v"));
        }
    }
    let rl: Option<Vec<bool>> = if c[5] == "-" { None } else { Some(c[5].chars().map(|ch| ch == '1').collect()) };
    let sh: Sh = Arc::new(Mutex::new(Shared::default()));
    let rt = tokio::runtime::Builder::new_current_thread()
        .enable_time()
        .start_paused(true)
        .build()
        .expect("rt");
    let router = c[0].clone();
    let queue = c[1].clone();
    let sh2 = sh.clone();
    macro_rules! go {
        ($r:expr) => {
            match (queue.as_str(), rl.clone()) {
                ("d", None) => rt.block_on(drive($r, DefaultQueue::default(), cfg, ops, sh2)),
                ("p", None) => rt.block_on(drive($r, PQ::new(Prio), cfg, ops, sh2)),
                ("d", Some(s)) => rt.block_on(drive(
                    RateLimitedRouter { router: $r, rate_limiter: ScriptLimiter(s, 0) },
                    DefaultQueue::default(),
                    cfg,
                    ops,
                    sh2,
                )),
                ("p", Some(s)) => rt.block_on(drive(
                    RateLimitedRouter { router: $r, rate_limiter: ScriptLimiter(s, 0) },
                    PQ::new(Prio),
                    cfg,
                    ops,
                    sh2,
                )),
                _ => panic!("bad queue"),
            }
        };
    }
    let out = match router.as_str() {
        "kp" => go!(KeyPersistentRouting::<u64, Payload>::default()),
        "q" => go!(QueuerRouting::<u64, Payload>::default()),
        "sq" => go!(StickyQueuerRouting::<u64, Payload>::default()),
        "rr" => go!(RoundRobinRouting::<u64, Payload>::default()),
        "cu" => go!(CustomRouting::<u64, Payload, TableHash>::new(TableHash(table))),
        other => panic!("unknown router {other}"),
    };
    drop(rt);
    let per_op: Vec<String> = out.iter().map(|evs| coq_list(evs)).collect();
    coq_list(&per_op)
}

fn main() {
    // silence the panic message of deliberately panicking workers
    std::panic::set_hook(Box::new(|_| {}));
    for line in stdin_lines() {
        if let Some(rest) = line.strip_prefix("hash ") {
            let v: Vec<u64> = rest.split_whitespace().map(|x| x.parse().expect("num")).collect();
            let n = v[0] as usize;
            let vals: Vec<u64> =
                v[1..].iter().map(|k| ractor::factory::hash::hash_with_max(k, n) as u64).collect();
            println!("{}", coq_nums(vals));
            continue;
        }
        let r = std::panic::catch_unwind(|| run_scenario(&line));
        match r {
            Ok(s) => println!("{}", s),
            Err(_) => println!("EHarnessPanic"),
        }
    }
}
