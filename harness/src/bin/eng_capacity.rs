//! E1 for C15 (factory capacity controls): the REAL `ractor::factory::Factory` under a
//! deterministic schedule: tokio current_thread runtime with a paused clock, harness workers
//! whose job handling blocks on a harness-owned gate, a recording discard handler, recording
//! lifecycle hooks, and `sleep(1ns)` as the exact quiescence barrier.  No hooks in /repo.
//!
//! stdin, one scenario per line:
//!   cap <router> <queue> <discard> <rate> <n0> ; <op> ; <op> ...
//!     router  = queuer | rr | custom
//!     queue   = default | prio
//!     discard = none | newest:<L> | oldest:<L>
//!     rate    = none | <refill>:<interval_ns>:<max|->:<initial|->
//!     op = d <id> <rk> <prio> <disc> | finw <w> | failw <w> | kill <w> | resize <n> | drain
//!        | adv <ns> | settle | q
//! stdout: one Coq term per scenario: the list of settle windows, each the list of events
//! observed in it (syntax of Factory/Capacity.v's `ev`).
use std::collections::HashMap;
use std::sync::{Arc, Mutex};
use std::time::Duration;

use futures::future::BoxFuture;
use futures::FutureExt;
use ractor::concurrency::OneshotReceiver;
use ractor::factory::queues::{DefaultQueue, PriorityManager, PriorityQueue, Queue, StandardPriority};
use ractor::factory::ratelim::{LeakyBucketRateLimiter, RateLimitedRouter};
use ractor::factory::routing::{
    CustomHashFunction, CustomRouting, KeyPersistentRouting, QueuerRouting, RoundRobinRouting, Router,
    StickyQueuerRouting,
};
use ractor::factory::WorkerCapacityController;
use ractor::factory::{
    DiscardHandler, DiscardMode, DiscardReason, DiscardSettings, DynamicDiscardController, Factory,
    FactoryArguments, UpdateSettingsRequest,
    FactoryLifecycleHooks, FactoryMessage, Job, JobOptions, WorkerBuilder, WorkerId, WorkerMessage,
    WorkerStartContext,
};
use ractor::{Actor, ActorProcessingErr, ActorRef, ActorStatus};
use rv_harness::*;
use tokio::sync::Semaphore;

type Key = u64;
/// The job id travels in the message; the key is what the routers / queues look at.
#[derive(Debug)]
struct Msg {
    id: u64,
}
impl ractor::Message for Msg {}

fn pack(rk: u64, prio: u64, disc: u64) -> Key {
    ((rk & 0xff) << 16) | ((prio & 0xff) << 8) | (disc & 1)
}

struct Slot {
    actor: ActorRef<WorkerMessage<Key, Msg>>,
    running: Option<u64>,
    gate: Arc<Semaphore>,
    fail: Arc<Mutex<bool>>,
    /// post_stop of this actor blocks on `stop_gate` when `stop_gated` is set
    stop_gate: Arc<Semaphore>,
    stop_gated: Arc<Mutex<bool>>,
}

/// every worker actor ever built (a slot's previous occupants included)
struct Built {
    wid: WorkerId,
    actor: ActorRef<WorkerMessage<Key, Msg>>,
    stop_gate: Arc<Semaphore>,
    stop_gated: Arc<Mutex<bool>>,
}

#[derive(Default)]
struct Shared {
    events: Vec<String>,
    all: Vec<Built>,
    slots: HashMap<WorkerId, Slot>,
    builds: HashMap<WorkerId, u64>,
}
type Sh = Arc<Mutex<Shared>>;

fn log(sh: &Sh, e: String) {
    sh.lock().unwrap().events.push(e);
}

struct HWorker {
    sh: Sh,
    inc: u64,
}
struct WState {
    wid: WorkerId,
    factory: ActorRef<FactoryMessage<Key, Msg>>,
    gate: Arc<Semaphore>,
    fail: Arc<Mutex<bool>>,
    stop_gate: Arc<Semaphore>,
    stop_gated: Arc<Mutex<bool>>,
}

impl Actor for HWorker {
    type Msg = WorkerMessage<Key, Msg>;
    type State = WState;
    type Arguments = WorkerStartContext<Key, Msg, ()>;

    async fn pre_start(
        &self,
        myself: ActorRef<Self::Msg>,
        args: Self::Arguments,
    ) -> Result<Self::State, ActorProcessingErr> {
        let gate = Arc::new(Semaphore::new(0));
        let fail = Arc::new(Mutex::new(false));
        let stop_gate = Arc::new(Semaphore::new(0));
        let stop_gated = Arc::new(Mutex::new(false));
        self.sh.lock().unwrap().all.push(Built {
            wid: args.wid,
            actor: myself.clone(),
            stop_gate: stop_gate.clone(),
            stop_gated: stop_gated.clone(),
        });
        self.sh.lock().unwrap().slots.insert(
            args.wid,
            Slot {
                actor: myself,
                running: None,
                gate: gate.clone(),
                fail: fail.clone(),
                stop_gate: stop_gate.clone(),
                stop_gated: stop_gated.clone(),
            },
        );
        Ok(WState { wid: args.wid, factory: args.factory, gate, fail, stop_gate, stop_gated })
    }

    async fn post_stop(
        &self,
        _myself: ActorRef<Self::Msg>,
        state: &mut Self::State,
    ) -> Result<(), ActorProcessingErr> {
        let gated = *state.stop_gated.lock().unwrap();
        if gated {
            state.stop_gate.acquire().await.expect("stop gate").forget();
        }
        Ok(())
    }

    async fn handle(
        &self,
        myself: ActorRef<Self::Msg>,
        message: Self::Msg,
        state: &mut Self::State,
    ) -> Result<(), ActorProcessingErr> {
        match message {
            WorkerMessage::FactoryPing(time) => {
                state.factory.cast(FactoryMessage::WorkerPong(state.wid, time.elapsed()))?;
            }
            WorkerMessage::Dispatch(job) => {
                let id = job.msg.id;
                {
                    let mut g = self.sh.lock().unwrap();
                    g.events.push(format!("EStart {} {} {}", id, state.wid, self.inc));
                    if let Some(s) = g.slots.get_mut(&state.wid) {
                        if s.actor.get_id() == myself.get_id() {
                            s.running = Some(id);
                        }
                    }
                }
                state.gate.acquire().await.expect("gate").forget();
                let failed = *state.fail.lock().unwrap();
                {
                    let mut g = self.sh.lock().unwrap();
                    if let Some(s) = g.slots.get_mut(&state.wid) {
                        if s.actor.get_id() == myself.get_id() {
                            s.running = None;
                        }
                    }
                    g.events.push(if failed { format!("ELost {id}") } else { format!("EEnd {id}") });
                }
                if failed {
                    return Err("scripted failure".into());
                }
                state.factory.cast(FactoryMessage::Finished(state.wid, job.key))?;
            }
        }
        Ok(())
    }
}

struct Builder(Sh);
impl WorkerBuilder<HWorker, ()> for Builder {
    fn build(&mut self, wid: WorkerId) -> (HWorker, ()) {
        let mut g = self.0.lock().unwrap();
        let n = g.builds.entry(wid).or_insert(0);
        *n += 1;
        (HWorker { sh: self.0.clone(), inc: *n }, ())
    }
}

struct Discards(Sh);
impl DiscardHandler<Key, Msg> for Discards {
    fn discard(&self, reason: DiscardReason, job: &mut Job<Key, Msg>) {
        let r = match reason {
            DiscardReason::TtlExpired => "TtlExpired",
            DiscardReason::Loadshed => "Loadshed",
            DiscardReason::Shutdown => "Shutdown",
            DiscardReason::RateLimited => "RateLimited",
        };
        log(&self.0, format!("EDiscard {} {}", job.msg.id, r));
    }
}

struct Hooks(Sh);
impl FactoryLifecycleHooks<Key, Msg> for Hooks {
    fn on_factory_started(
        &self,
        _f: ActorRef<FactoryMessage<Key, Msg>>,
    ) -> BoxFuture<'_, Result<(), ActorProcessingErr>> {
        log(&self.0, "EHook HStarted".into());
        async { Ok(()) }.boxed()
    }
    fn on_factory_stopped(&self) -> BoxFuture<'_, Result<(), ActorProcessingErr>> {
        log(&self.0, "EHook HStopped".into());
        async { Ok(()) }.boxed()
    }
    fn on_factory_draining(
        &self,
        _f: ActorRef<FactoryMessage<Key, Msg>>,
    ) -> BoxFuture<'_, Result<(), ActorProcessingErr>> {
        log(&self.0, "EHook HDraining".into());
        async { Ok(()) }.boxed()
    }
}

struct RkHasher;
impl CustomHashFunction<Key> for RkHasher {
    fn hash(&self, key: &Key, _worker_count: usize) -> usize {
        ((key >> 16) & 0xff) as usize
    }
}

struct Prio;
impl PriorityManager<Key, StandardPriority> for Prio {
    fn is_discardable(&self, job: &Key) -> bool {
        job & 1 == 1
    }
    fn get_priority(&self, job: &Key) -> Option<StandardPriority> {
        Some(StandardPriority::from(((job >> 8) & 0xff) as usize))
    }
}

struct Scn {
    discard: DiscardSettings,
    n0: usize,
    /// what the WorkerCapacityController answers on successive Calculate ticks (None: no controller)
    ctl: Option<Vec<usize>>,
    ops: Vec<Vec<String>>,
}

/// scripted capacity controller; an exhausted script answers the current size
struct ScriptedCapacity(std::collections::VecDeque<usize>);
impl WorkerCapacityController for ScriptedCapacity {
    fn get_pool_size(&mut self, current: usize) -> BoxFuture<'_, usize> {
        let n = self.0.pop_front().unwrap_or(current);
        async move { n }.boxed()
    }
}

/// scripted dynamic discard controller; an exhausted script keeps the limit
struct ScriptedLimit(std::collections::VecDeque<usize>);
impl DynamicDiscardController for ScriptedLimit {
    fn compute(&mut self, current_threshold: usize) -> BoxFuture<'_, usize> {
        let n = self.0.pop_front().unwrap_or(current_threshold);
        async move { n }.boxed()
    }
}

fn script(s: &str) -> Option<Vec<usize>> {
    if s == "-" {
        None
    } else {
        Some(s.split(',').filter(|x| !x.is_empty()).map(|x| x.parse().expect("script")).collect())
    }
}

fn opt(v: Option<usize>) -> String {
    match v {
        Some(x) => format!("(Some {x})"),
        None => "None".into(),
    }
}

async fn drive<R, Q>(router: R, queue: Q, scn: Scn) -> String
where
    R: Router<Key, Msg>,
    Q: Queue<Key, Msg>,
{
    let sh: Sh = Arc::new(Mutex::new(Shared::default()));
    let t_start = tokio::time::Instant::now();
    let fdef = Factory::<Key, Msg, (), HWorker, R, Q>::default();
    let args = FactoryArguments::builder()
        .worker_builder(Box::new(Builder(sh.clone())))
        .num_initial_workers(scn.n0)
        .router(router)
        .queue(queue)
        .discard_handler(Arc::new(Discards(sh.clone())))
        .discard_settings(scn.discard)
        .lifecycle_hooks(Box::new(Hooks(sh.clone())))
        .maybe_capacity_controller(
            scn.ctl
                .clone()
                .map(|v| Box::new(ScriptedCapacity(v.into())) as Box<dyn WorkerCapacityController>),
        )
        .build();
    let (factory, _handle) = Actor::spawn(None, fdef, args).await.expect("factory spawn");
    let mut windows: Vec<String> = Vec::new();
    let mut pending: Vec<(u64, OneshotReceiver<Option<Job<Key, Msg>>>)> = Vec::new();
    let mut stopped_logged = false;
    let debug = std::env::var("RV_DEBUG").is_ok();

    for op in &scn.ops {
        match op[0].as_str() {
            "d" => {
                let id: u64 = op[1].parse().unwrap();
                let key = pack(op[2].parse().unwrap(), op[3].parse().unwrap(), op[4].parse().unwrap());
                let (tx, rx) = ractor::concurrency::oneshot();
                let job = Job { key, msg: Msg { id }, options: JobOptions::default(), accepted: Some(tx.into()) };
                match factory.cast(FactoryMessage::Dispatch(job)) {
                    Ok(()) => pending.push((id, rx)),
                    Err(_) => log(&sh, format!("EDropped {id}")),
                }
            }
            "finw" | "failw" => {
                let w: usize = op[1].parse().unwrap();
                let g = sh.lock().unwrap();
                if let Some(s) = g.slots.get(&w) {
                    if s.running.is_some() && s.actor.get_status() == ActorStatus::Running {
                        *s.fail.lock().unwrap() = op[0] == "failw";
                        s.gate.add_permits(1);
                    }
                }
            }
            "finall" => {
                let g = sh.lock().unwrap();
                let mut ws: Vec<&WorkerId> = g.slots.keys().collect();
                ws.sort();
                for w in ws {
                    let s = &g.slots[w];
                    if s.running.is_some() && s.actor.get_status() == ActorStatus::Running {
                        *s.fail.lock().unwrap() = false;
                        s.gate.add_permits(1);
                    }
                }
            }
            "stopw" => {
                // user code stops the IDLE worker actor of slot w; its post_stop is slow (gated)
                let w: usize = op[1].parse().unwrap();
                let g = sh.lock().unwrap();
                if let Some(s) = g.slots.get(&w) {
                    if s.running.is_none() && s.actor.get_status() == ActorStatus::Running {
                        *s.stop_gated.lock().unwrap() = true;
                        s.actor.stop(None);
                    }
                }
            }
            "gatestop" => {
                // the current actor of slot w gets a slow post_stop (whoever stops it later)
                let w: usize = op[1].parse().unwrap();
                let g = sh.lock().unwrap();
                if let Some(s) = g.slots.get(&w) {
                    if s.actor.get_status() == ActorStatus::Running {
                        *s.stop_gated.lock().unwrap() = true;
                    }
                }
            }
            "openstop" => {
                // every actor ever built for slot w: post_stop no longer slow; release the blocked ones
                let w: usize = op[1].parse().unwrap();
                let g = sh.lock().unwrap();
                for b in g.all.iter().filter(|b| b.wid == w) {
                    let was = std::mem::replace(&mut *b.stop_gated.lock().unwrap(), false);
                    if was && b.actor.get_status() == ActorStatus::Stopping {
                        b.stop_gate.add_permits(1);
                    }
                }
            }
            "kill" => {
                let w: usize = op[1].parse().unwrap();
                let mut g = sh.lock().unwrap();
                let mut lost = None;
                if let Some(s) = g.slots.get_mut(&w) {
                    if s.actor.get_status() == ActorStatus::Running {
                        lost = s.running.take();
                        s.actor.kill();
                    }
                }
                if let Some(id) = lost {
                    g.events.push(format!("ELost {id}"));
                }
            }
            "resize" => {
                let _ = factory.cast(FactoryMessage::AdjustWorkerPool(op[1].parse().unwrap()));
            }
            "drain" => {
                let _ = factory.cast(FactoryMessage::DrainRequests);
            }
            "tick" => {
                // jump over the next DoPings deadline (10 s): one Calculate and one DoPings are processed
                tokio::time::advance(Duration::from_nanos(10_005_000_000)).await;
            }
            "updn" => {
                // UpdateSettings { worker_count }: the other way to ask for a pool size
                let req = UpdateSettingsRequest::builder().worker_count(op[1].parse().unwrap()).build();
                let _ = factory.cast(FactoryMessage::UpdateSettings(req));
            }
            "updhooks" => {
                // UpdateSettings { lifecycle_hooks }: a new hooks object takes over (same log)
                let hooks: Box<dyn FactoryLifecycleHooks<Key, Msg>> = Box::new(Hooks(sh.clone()));
                let req = UpdateSettingsRequest::builder().lifecycle_hooks(Some(hooks)).build();
                let _ = factory.cast(FactoryMessage::UpdateSettings(req));
            }
            "upd" => {
                // UpdateSettings { discard_settings } at runtime
                let req = UpdateSettingsRequest::builder().discard_settings(parse_discard(&op[1])).build();
                let _ = factory.cast(FactoryMessage::UpdateSettings(req));
            }
            "adv" => {
                tokio::time::advance(Duration::from_nanos(op[1].parse().unwrap())).await;
            }
            "settle" => {
                tokio::time::sleep(Duration::from_nanos(1)).await;
                if debug {
                    eprintln!("settle -> t={}ns", t_start.elapsed().as_nanos());
                }
                let mut keep = Vec::new();
                for (id, mut rx) in pending.drain(..) {
                    match rx.try_recv() {
                        Ok(None) => log(&sh, format!("EAccept {id}")),
                        Ok(Some(_)) => log(&sh, format!("EReject {id}")),
                        Err(tokio::sync::oneshot::error::TryRecvError::Closed) => {
                            log(&sh, format!("EDropped {id}"))
                        }
                        Err(tokio::sync::oneshot::error::TryRecvError::Empty) => keep.push((id, rx)),
                    }
                }
                pending = keep;
                if !stopped_logged && factory.get_status() == ActorStatus::Stopped {
                    stopped_logged = true;
                    log(&sh, "EStopped".into());
                }
                let evs = std::mem::take(&mut sh.lock().unwrap().events);
                windows.push(coq_list(&evs));
            }
            "q" => {
                let d = factory.call(FactoryMessage::GetQueueDepth, None).await.ok().and_then(|r| r.success_or(()).ok());
                let a = if d.is_some() {
                    factory.call(FactoryMessage::GetAvailableCapacity, None).await.ok().and_then(|r| r.success_or(()).ok())
                } else {
                    None
                };
                let n = if a.is_some() {
                    factory.call(FactoryMessage::GetNumActiveWorkers, None).await.ok().and_then(|r| r.success_or(()).ok())
                } else {
                    None
                };
                // all worker actors this harness built that are still running, by slot (a slot
                // listed twice = an actor the factory no longer knows is still alive)
                let mut live: Vec<u64> = {
                    let g = sh.lock().unwrap();
                    g.all
                        .iter()
                        .filter(|b| b.actor.get_status() == ActorStatus::Running)
                        .map(|b| b.wid as u64)
                        .collect()
                };
                live.sort();
                log(&sh, format!("EQuery {} {} {} {}", opt(d), opt(a), opt(n), coq_nums(live)));
            }
            other => panic!("unknown op {other}"),
        }
    }
    // clean up: kill whatever is left so the runtime can be dropped
    factory.kill();
    for b in sh.lock().unwrap().all.iter() {
        b.actor.kill();
    }
    tokio::time::sleep(Duration::from_nanos(1)).await;
    coq_list(&windows)
}

/// a dynamic controller that keeps the limit (it is only consulted on the 10 s ping cycle)
struct KeepLimit;
impl DynamicDiscardController for KeepLimit {
    fn compute(&mut self, current_threshold: usize) -> BoxFuture<'_, usize> {
        async move { current_threshold }.boxed()
    }
}

/// none | newest:<L> | oldest:<L> | dyn-newest:<L> | dyn-oldest:<L>
fn parse_discard(s: &str) -> DiscardSettings {
    if s == "none" {
        return DiscardSettings::None;
    }
    let (m, l) = s.split_once(':').expect("discard");
    let limit: usize = l.parse().expect("limit");
    let mode = if m.ends_with("newest") { DiscardMode::Newest } else { DiscardMode::Oldest };
    if m.starts_with("dyn-") {
        DiscardSettings::Dynamic { limit, mode, updater: Box::new(KeepLimit) }
    } else {
        DiscardSettings::Static { limit, mode }
    }
}

fn limiter(spec: &str) -> LeakyBucketRateLimiter {
    let p: Vec<&str> = spec.split(':').collect();
    let refill: usize = p[0].parse().unwrap();
    let interval = Duration::from_nanos(p[1].parse().unwrap());
    let max: Option<usize> = if p[2] == "-" { None } else { Some(p[2].parse().unwrap()) };
    let initial: Option<usize> = if p[3] == "-" { None } else { Some(p[3].parse().unwrap()) };
    match (max, initial) {
        (Some(m), Some(i)) => LeakyBucketRateLimiter::builder().refill(refill).interval(interval).max(m).initial(i).build(),
        (Some(m), None) => LeakyBucketRateLimiter::builder().refill(refill).interval(interval).max(m).build(),
        (None, Some(i)) => LeakyBucketRateLimiter::builder().refill(refill).interval(interval).initial(i).build(),
        (None, None) => LeakyBucketRateLimiter::builder().refill(refill).interval(interval).build(),
    }
}

async fn with_queue<R: Router<Key, Msg>>(router: R, queue: &str, scn: Scn) -> String {
    match queue {
        "default" => drive(router, DefaultQueue::<Key, Msg>::default(), scn).await,
        "prio" => {
            drive(
                router,
                PriorityQueue::<Key, Msg, StandardPriority, Prio, { StandardPriority::size() }>::new(Prio),
                scn,
            )
            .await
        }
        other => panic!("unknown queue {other}"),
    }
}

async fn with_rate<R: Router<Key, Msg>>(router: R, rate: &str, queue: &str, scn: Scn) -> String {
    if rate == "none" {
        with_queue(router, queue, scn).await
    } else {
        let r = RateLimitedRouter { router, rate_limiter: limiter(rate) };
        with_queue(r, queue, scn).await
    }
}

fn run_case(rest: &str) -> String {
    let mut parts = rest.split(';');
    let head: Vec<String> = parts.next().unwrap().split_whitespace().map(|s| s.to_string()).collect();
    let ops: Vec<Vec<String>> = parts
        .map(|o| o.split_whitespace().map(|w| w.to_string()).collect::<Vec<_>>())
        .filter(|o| !o.is_empty())
        .collect();
    // optional 6th / 7th head fields: capacity controller script, dynamic discard controller script
    let ctl = head.get(5).and_then(|x| script(x));
    let dynscr = head.get(6).and_then(|x| script(x));
    let mut discard = parse_discard(&head[2]);
    if let Some(v) = dynscr {
        if let Some((limit, mode)) = discard.get_limit_and_mode() {
            discard = DiscardSettings::Dynamic { limit, mode, updater: Box::new(ScriptedLimit(v.into())) };
        }
    }
    let scn = Scn { discard, n0: head[4].parse().expect("n0"), ctl, ops };
    let rt = tokio::runtime::Builder::new_current_thread()
        .enable_time()
        .start_paused(true)
        .build()
        .expect("runtime");
    rt.block_on(async move {
        match head[0].as_str() {
            "queuer" => with_rate(QueuerRouting::<Key, Msg>::default(), &head[3], &head[1], scn).await,
            "rr" => with_rate(RoundRobinRouting::<Key, Msg>::default(), &head[3], &head[1], scn).await,
            "custom" => with_rate(CustomRouting::<Key, Msg, RkHasher>::new(RkHasher), &head[3], &head[1], scn).await,
            "kp" => with_rate(KeyPersistentRouting::<Key, Msg>::default(), &head[3], &head[1], scn).await,
            "sticky" => with_rate(StickyQueuerRouting::<Key, Msg>::default(), &head[3], &head[1], scn).await,
            other => panic!("unknown router {other}"),
        }
    })
}

fn main() {
    for line in stdin_lines() {
        let (kind, rest) = line.split_once(' ').unwrap_or((&line, ""));
        match kind {
            "cap" => println!("{}", run_case(rest)),
            // hash <rk> <prio> <disc>: hash_with_max(key, n) for n = 1..=8 (KeyPersistentRouting's hash is scenario data)
            "hash" => {
                let w: Vec<u64> = rest.split_whitespace().map(|x| x.parse().unwrap()).collect();
                let key = pack(w[0], w[1], w[2]);
                println!("{}", coq_nums((1..=8usize).map(|n| ractor::factory::hash::hash_with_max(&key, n) as u64)));
            }
            other => panic!("unknown case kind {other}"),
        }
    }
}
