//! E4 for C18: two or three REAL `ractor_cluster::NodeServer`s in one process that end up with
//! SEVERAL connections to each other (simultaneous dial from both sides, repeated dials, mixed),
//! connected through the public external-transport API (`ConnectionOpenedExternal`) over in-memory
//! duplex pipes whose frames are released one by one by the driver ("gated" transport), so that
//! the handshakes of the connections interleave exactly as the scenario says. Paused virtual
//! clock, current_thread runtime: every step is followed by a quiescence barrier.
//!
//! stdin, one case per line:
//!   elect names=<r0>,<r1>[,<r2>] conns=<x>><y>,<x>><y>,... | <token> <token> ...
//!     names: the nodes' name ranks (node i is called n<rank>@host; rank order = str::cmp order)
//!     conns: connection k is dialled by node x and accepted by node y (is_server on y);
//!            `L>y:<nonce>` = dialled by a hand-driven LEGACY peer (header word legacy=<rank>; it speaks
//!            the wire protocol itself and announces the given connection nonce: 0 or a repeated one)
//!   tokens (each followed by a quiescence barrier):
//!     o<k>   open connection k (both NodeServers get ConnectionOpenedExternal)
//!     <k>f   release the next frame travelling dialler -> acceptor on connection k
//!     <k>b   release the next frame travelling acceptor -> dialler
//!     <k>n <k>c <k>a   legacy connection k: send Name | answer Status+Challenge | take the Ack and send Ready
//!     X<k>   connection k is CUT now (at a frame boundary: whatever was not yet released is lost, both
//!            ends see the stream end / a write error)
//!     S<k>   connection k is stalled: excluded from `F` until `U`; `Z<k>`: stalled for good
//!     F      every connection that is not stalled runs freely; wait for quiescence; snapshot
//!     U      no connection is stalled any more (everything runs freely); quiescence; snapshot
//!   tcp names=<r0>,<r1>[,<r2>] mode=<iso|trans> expect=<xy>,<xy>,... | d<x><y> d<x><y> ...
//!     REAL TCP: node i is n<rank>@127.0.0.1 with its own listener on a free loopback port; d<x><y> = node x
//!     dials node y with `ractor_cluster::client_connect`; mode=trans: NodeConnectionMode::Transitive (a node
//!     dials the peers its peer tells it about). Real-time runtime; after the dials the driver waits —
//!     bounded, else exit 2 — until every expected pair has exactly one session at both nodes and nothing else
//!     is open. Output: mkTcp [events as below, conn = -1] [(node, [(session, is_server, peer_rank); ...]); ...]
//! stdout, one Coq-syntax term per case:
//!   mkNet [(k, dialler, acceptor, nonce); ...]
//!         [(node, kind, session, is_server, conn); ...]          kind 0 opened 1 authenticated 2 ready 3 disconnected
//!         [(mkSnap [(node, [(conn, session, is_server, peer_rank); ...]); ...] [(conn, dial_end_open, acc_end_open); ...]); ...]
//!         [(k, status (9 = none seen), acked, eof); ...]            the legacy connections as the legacy peer saw them
//! Infrastructure problems (no quiescence within a generous bound of VIRTUAL time, panics) exit 2.
use std::collections::{HashMap, VecDeque};
use std::io;
use std::pin::Pin;
use std::sync::atomic::{AtomicBool, Ordering};
use std::sync::{Arc, Mutex};
use std::task::{Context, Poll, Waker};
use std::time::Duration;

use ractor::concurrency::JoinHandle;
use ractor::{Actor, ActorRef};
use prost::Message as _;
use ractor_cluster::node::verif_auth::{challenge_digest, proto_auth, proto_control, proto_meta};
use ractor_cluster::node::NodeServerSessionInformation;
use ractor_cluster::{BoxRead, BoxWrite, ClusterBidiStream, NodeEventSubscription, NodeServer, NodeServerMessage};
use rv_harness::*;
use tokio::io::{AsyncRead, AsyncReadExt, AsyncWrite, AsyncWriteExt, DuplexStream, ReadBuf, ReadHalf, WriteHalf};

static PANICKED: AtomicBool = AtomicBool::new(false);

fn infra(msg: impl AsRef<str>) -> ! {
    eprintln!("eng_elect_net: INFRA FAILURE: {}", msg.as_ref());
    std::process::exit(2)
}

/// The code under test wedged or broke the run: an OBSERVATION (`stuck "<why>"`, the rest of the batch
/// `skipped`), not an infrastructure problem. `infra` is left for malformed scenarios and the like.
struct Stuck(String);
fn stuck(msg: impl AsRef<str>) -> ! {
    std::panic::panic_any(Stuck(msg.as_ref().to_string()))
}

fn u(s: &str) -> u64 {
    s.parse().unwrap_or_else(|_| infra(format!("bad number {s:?}")))
}

// ------------------------------------------------------------------ gated transport

/// One direction of one physical connection, as seen by the reading end.
#[derive(Default)]
struct DirState {
    staged: VecDeque<u8>,     // bytes taken from the pipe, not yet handed to the session
    scan: usize,              // staged bytes already attributed to complete frames
    complete: VecDeque<usize>, // sizes (header included) of the complete frames in `staged`
    out_remaining: usize,     // bytes of released frames still to hand out
    credits: u64,
    free: bool,
    eof: bool,
    waker: Option<Waker>,
    released: u64,
    first_frame: Option<Vec<u8>>,
}

#[derive(Default)]
struct LinkState {
    dirs: [DirState; 2], // 0: dialler -> acceptor (read by the acceptor), 1: acceptor -> dialler
    // [end][half]: end 0 = dialler, 1 = acceptor; half 0 = read, 1 = write
    dropped: [[bool; 2]; 2],
    cut: bool,
}

type Link = Arc<Mutex<LinkState>>;

struct GatedEnd {
    stream: DuplexStream,
    link: Link,
    end: usize,
    label: String,
}

impl ClusterBidiStream for GatedEnd {
    fn split(self: Box<Self>) -> (BoxRead, BoxWrite) {
        let (r, w) = tokio::io::split(self.stream);
        // the end `end` reads the direction written by the other end
        let dir = if self.end == 1 { 0 } else { 1 };
        (
            Box::new(GatedRead { inner: r, link: self.link.clone(), dir, end: self.end }),
            Box::new(GatedWrite { inner: w, link: self.link, end: self.end }),
        )
    }
    fn peer_label(&self) -> Option<String> {
        Some(self.label.clone())
    }
    fn local_label(&self) -> Option<String> {
        Some(self.label.clone())
    }
}

struct GatedRead {
    inner: ReadHalf<DuplexStream>,
    link: Link,
    dir: usize,
    end: usize,
}

impl Drop for GatedRead {
    fn drop(&mut self) {
        self.link.lock().unwrap().dropped[self.end][0] = true;
    }
}

impl AsyncRead for GatedRead {
    fn poll_read(mut self: Pin<&mut Self>, cx: &mut Context<'_>, buf: &mut ReadBuf<'_>) -> Poll<io::Result<()>> {
        let this = &mut *self;
        if this.link.lock().unwrap().cut {
            return Poll::Ready(Ok(())); // the connection is gone: end of stream
        }
        // 1. take whatever the pipe has
        loop {
            let mut tmp = [0u8; 4096];
            let mut rb = ReadBuf::new(&mut tmp);
            match Pin::new(&mut this.inner).poll_read(cx, &mut rb) {
                Poll::Pending => break,
                Poll::Ready(Err(e)) => return Poll::Ready(Err(e)),
                Poll::Ready(Ok(())) => {
                    let got = rb.filled().len();
                    let mut l = this.link.lock().unwrap();
                    let d = &mut l.dirs[this.dir];
                    if got == 0 {
                        d.eof = true;
                        break;
                    }
                    d.staged.extend(rb.filled());
                    // attribute complete frames
                    loop {
                        let avail = d.staged.len() - d.scan;
                        if avail < 8 {
                            break;
                        }
                        let mut hdr = [0u8; 8];
                        for (i, b) in d.staged.iter().skip(d.scan).take(8).enumerate() {
                            hdr[i] = *b;
                        }
                        let n = u64::from_be_bytes(hdr) as usize + 8;
                        if avail < n {
                            break;
                        }
                        if d.first_frame.is_none() {
                            d.first_frame = Some(d.staged.iter().skip(d.scan + 8).take(n - 8).copied().collect());
                        }
                        d.complete.push_back(n);
                        d.scan += n;
                    }
                }
            }
        }
        // 2. hand out released frames
        let mut l = this.link.lock().unwrap();
        let d = &mut l.dirs[this.dir];
        if d.out_remaining == 0 {
            if (d.free || d.credits > 0) && !d.complete.is_empty() {
                let n = d.complete.pop_front().unwrap();
                d.out_remaining = n;
                if !d.free {
                    d.credits -= 1;
                }
                d.released += 1;
            }
        }
        if d.out_remaining > 0 {
            let n = d.out_remaining.min(buf.remaining());
            let chunk: Vec<u8> = d.staged.drain(..n).collect();
            d.scan -= n;
            d.out_remaining -= n;
            buf.put_slice(&chunk);
            return Poll::Ready(Ok(()));
        }
        if d.eof && d.complete.is_empty() && (d.free || d.credits > 0) {
            // the writer is gone; an incomplete tail is dropped like a truncated frame. The end of the
            // stream is released like a frame (a FIN may arrive any time after the data), so that the
            // frames a stopping session managed to flush are handled before its close is noticed
            if !d.free {
                d.credits -= 1;
            }
            return Poll::Ready(Ok(()));
        }
        d.waker = Some(cx.waker().clone());
        Poll::Pending
    }
}

struct GatedWrite {
    inner: WriteHalf<DuplexStream>,
    link: Link,
    end: usize,
}

impl Drop for GatedWrite {
    fn drop(&mut self) {
        self.link.lock().unwrap().dropped[self.end][1] = true;
    }
}

impl AsyncWrite for GatedWrite {
    fn poll_write(mut self: Pin<&mut Self>, cx: &mut Context<'_>, buf: &[u8]) -> Poll<io::Result<usize>> {
        if self.link.lock().unwrap().cut {
            return Poll::Ready(Err(io::Error::new(io::ErrorKind::BrokenPipe, "link cut")));
        }
        Pin::new(&mut self.inner).poll_write(cx, buf)
    }
    fn poll_flush(mut self: Pin<&mut Self>, cx: &mut Context<'_>) -> Poll<io::Result<()>> {
        Pin::new(&mut self.inner).poll_flush(cx)
    }
    fn poll_shutdown(mut self: Pin<&mut Self>, cx: &mut Context<'_>) -> Poll<io::Result<()>> {
        Pin::new(&mut self.inner).poll_shutdown(cx)
    }
}

fn grant(link: &Link, dir: usize) {
    let mut l = link.lock().unwrap();
    l.dirs[dir].credits += 1;
    if let Some(w) = l.dirs[dir].waker.take() {
        w.wake();
    }
}

fn set_free(link: &Link, free: bool) {
    let mut l = link.lock().unwrap();
    for d in 0..2 {
        l.dirs[d].free = free;
        if free {
            if let Some(w) = l.dirs[d].waker.take() {
                w.wake();
            }
        }
    }
}

// ------------------------------------------------------------------ protobuf: NameMessage.connection_id

fn varint(b: &[u8], pos: &mut usize) -> Option<u64> {
    let mut v = 0u64;
    let mut shift = 0;
    loop {
        let x = *b.get(*pos)?;
        *pos += 1;
        v |= ((x & 0x7f) as u64) << shift;
        if x & 0x80 == 0 {
            return Some(v);
        }
        shift += 7;
        if shift > 63 {
            return None;
        }
    }
}

/// value of field `field` (LEN -> bytes, VARINT -> number) in a protobuf message
fn field(b: &[u8], field: u64) -> Option<(Option<Vec<u8>>, Option<u64>)> {
    let mut pos = 0;
    while pos < b.len() {
        let key = varint(b, &mut pos)?;
        let (f, wt) = (key >> 3, key & 7);
        match wt {
            0 => {
                let v = varint(b, &mut pos)?;
                if f == field {
                    return Some((None, Some(v)));
                }
            }
            2 => {
                let n = varint(b, &mut pos)? as usize;
                let s = b.get(pos..pos + n)?;
                pos += n;
                if f == field {
                    return Some((Some(s.to_vec()), None));
                }
            }
            1 => pos += 8,
            5 => pos += 4,
            _ => return None,
        }
    }
    None
}

/// NetworkMessage.auth(1).name(1).connection_id(4); 0 if absent (proto3 default)
fn nonce_of(first_frame: &[u8]) -> Option<u64> {
    let auth = field(first_frame, 1)?.0?;
    let name = field(&auth, 1)?.0?;
    Some(field(&name, 4).and_then(|x| x.1).unwrap_or(0))
}

// ------------------------------------------------------------------ events

type Events = Arc<Mutex<Vec<(usize, u8, u64, bool, String)>>>;

struct Sub {
    node: usize,
    events: Events,
}
impl Sub {
    fn push(&self, kind: u8, s: NodeServerSessionInformation) {
        self.events.lock().unwrap().push((self.node, kind, s.actor.get_id().pid(), s.is_server, s.peer_addr));
    }
}
impl NodeEventSubscription for Sub {
    fn node_session_opened(&self, s: NodeServerSessionInformation) {
        self.push(0, s)
    }
    fn node_session_authenticated(&self, s: NodeServerSessionInformation) {
        self.push(1, s)
    }
    fn node_session_ready(&self, s: NodeServerSessionInformation) {
        self.push(2, s)
    }
    fn node_session_disconnected(&self, s: NodeServerSessionInformation) {
        self.push(3, s)
    }
}

fn conn_of_label(l: &str) -> i64 {
    l.strip_prefix('c').and_then(|x| x.parse().ok()).unwrap_or(-1)
}

// ------------------------------------------------------------------ a hand-driven legacy peer

#[derive(Default)]
struct LegacyIn {
    frames: VecDeque<proto_meta::NetworkMessage>,
    eof: bool,
}

struct Legacy {
    nonce: u64,
    write: Option<WriteHalf<DuplexStream>>,
    inbox: Arc<Mutex<LegacyIn>>,
    step: u8, // 0: nothing sent, 1: Name sent, 2: challenge answered / status answered, 3: done
    status: u64,
    acked: bool,
}

fn frame_of(m: &proto_meta::NetworkMessage) -> Vec<u8> {
    let mut buf = (m.encoded_len() as u64).to_be_bytes().to_vec();
    m.encode(&mut buf).expect("encode");
    buf
}

fn auth_msg(m: proto_auth::authentication_message::Msg) -> proto_meta::NetworkMessage {
    proto_meta::NetworkMessage {
        message: Some(proto_meta::network_message::Message::Auth(proto_auth::AuthenticationMessage { msg: Some(m) })),
    }
}

async fn legacy_reader(mut r: ReadHalf<DuplexStream>, inbox: Arc<Mutex<LegacyIn>>) {
    loop {
        let n = match r.read_u64().await {
            Ok(n) => n as usize,
            Err(_) => break,
        };
        let mut buf = vec![0u8; n];
        if r.read_exact(&mut buf).await.is_err() {
            break;
        }
        match proto_meta::NetworkMessage::decode(&buf[..]) {
            Ok(m) => inbox.lock().unwrap().frames.push_back(m),
            Err(_) => break,
        }
    }
    inbox.lock().unwrap().eof = true;
}

impl Legacy {
    async fn send(&mut self, m: proto_meta::NetworkMessage) {
        if let Some(w) = self.write.as_mut() {
            let _ = w.write_all(&frame_of(&m)).await;
            let _ = w.flush().await;
        }
    }

    /// one step of the dialling side of the handshake, as a legacy peer performs it
    async fn advance(&mut self, rank: u64) {
        use proto_auth::authentication_message::Msg;
        match self.step {
            0 => {
                self.send(auth_msg(Msg::Name(proto_auth::NameMessage {
                    name: node_name(rank),
                    flags: Some(proto_auth::NodeFlags { version: 1 }),
                    connection_string: format!("legacy{rank}:1"),
                    connection_id: self.nonce,
                })))
                .await;
                self.step = 1;
            }
            1 => {
                let mut challenge = None;
                {
                    let mut i = self.inbox.lock().unwrap();
                    while let Some(m) = i.frames.pop_front() {
                        if let Some(proto_meta::network_message::Message::Auth(a)) = m.message {
                            match a.msg {
                                Some(Msg::ServerStatus(s)) => self.status = s.status as u64,
                                Some(Msg::ServerChallenge(c)) => challenge = Some(c.challenge),
                                _ => {}
                            }
                        }
                    }
                }
                if let Some(c) = challenge {
                    self.send(auth_msg(Msg::ClientChallenge(proto_auth::ChallengeReply {
                        challenge: 0x5151_0000 + self.nonce as u32,
                        digest: challenge_digest("cookie", c),
                    })))
                    .await;
                    self.step = 2;
                } else if self.status == 4 {
                    // Alive: confirm we are alive
                    self.send(auth_msg(Msg::ClientStatus(proto_auth::ClientStatus { status: true }))).await;
                    self.step = 2;
                }
            }
            2 => {
                let mut i = self.inbox.lock().unwrap();
                let mut acked = false;
                while let Some(m) = i.frames.pop_front() {
                    if let Some(proto_meta::network_message::Message::Auth(a)) = m.message {
                        if let Some(Msg::ServerAck(_)) = a.msg {
                            acked = true;
                        }
                    }
                }
                drop(i);
                if acked {
                    self.acked = true;
                    // nothing to advertise: the initial synchronisation is just Ready
                    self.send(proto_meta::NetworkMessage {
                        message: Some(proto_meta::network_message::Message::Control(proto_control::ControlMessage {
                            msg: Some(proto_control::control_message::Msg::Ready(proto_control::Ready {})),
                        })),
                    })
                    .await;
                    self.step = 3;
                }
            }
            _ => {}
        }
    }
}

// ------------------------------------------------------------------ driver

struct Conn {
    dial: usize, // LEGACY for the hand-driven peer
    acc: usize,
    link: Link,
    ends: Option<(GatedEnd, GatedEnd)>,
    legacy: Option<Legacy>,
    legacy_stream: Option<DuplexStream>,
    stalled: bool,
    forever: bool,
    opened: bool,
}

const LEGACY: usize = 99;

async fn sessions_of(n: &ActorRef<NodeServerMessage>) -> HashMap<u64, NodeServerSessionInformation> {
    match ractor::call_t!(n, NodeServerMessage::GetSessions, 1000) {
        Ok(m) => m,
        Err(e) => stuck(format!("GetSessions failed: {e}")),
    }
}

async fn barrier() {
    // virtual time: advances only when every task is idle
    tokio::time::sleep(Duration::from_millis(1)).await;
    tokio::time::sleep(Duration::from_millis(1)).await;
}

fn rank_of(name: &str) -> u64 {
    node_rank(name)
}

async fn snapshot(nodes: &[ActorRef<NodeServerMessage>], conns: &[Conn]) -> String {
    let mut per_node = Vec::new();
    for (i, n) in nodes.iter().enumerate() {
        let mut v: Vec<(i64, u64, bool, u64)> = sessions_of(n)
            .await
            .into_values()
            .map(|s| {
                (
                    conn_of_label(&s.peer_addr),
                    s.actor.get_id().pid(),
                    s.is_server,
                    s.peer_name.as_ref().map(|p| rank_of(&p.name)).unwrap_or(u64::MAX),
                )
            })
            .collect();
        v.sort();
        let items: Vec<String> = v.iter().map(|(c, s, srv, r)| format!("({}, {}, {}, {})", c, s, coq_bool(*srv), r)).collect();
        per_node.push(format!("({}, {})", i, coq_list(&items)));
    }
    let mut ends = Vec::new();
    for (k, c) in conns.iter().enumerate() {
        let l = c.link.lock().unwrap();
        let open = |e: usize| c.opened && !(l.dropped[e][0] && l.dropped[e][1]);
        let dial_open = match &c.legacy {
            Some(lg) => c.opened && !lg.inbox.lock().unwrap().eof,
            None => open(0),
        };
        ends.push(format!("({}, {}, {})", k, coq_bool(dial_open), coq_bool(open(1))));
    }
    format!("(mkSnap {} {})", coq_list(&per_node), coq_list(&ends))
}

/// wait until nothing changes any more (events, session tables, pipe ends), bounded in virtual time
async fn quiesce(nodes: &[ActorRef<NodeServerMessage>], conns: &[Conn], events: &Events) -> String {
    let mut last = String::new();
    let mut same = 0;
    for _ in 0..400 {
        tokio::time::sleep(Duration::from_millis(5)).await;
        let s = format!("{}#{}", snapshot(nodes, conns).await, events.lock().unwrap().len());
        if s == last {
            same += 1;
            if same >= 3 {
                return snapshot(nodes, conns).await;
            }
        } else {
            same = 0;
            last = s;
        }
    }
    stuck("no quiescence within 2 virtual seconds: the nodes keep changing state")
}

async fn join_bounded(what: &str, h: JoinHandle<()>) {
    if tokio::time::timeout(Duration::from_secs(10), h).await.is_err() {
        stuck(format!("{what} did not stop within 10 virtual s"));
    }
}

async fn run_case(line: String) -> String {
    let (head, toks) = line.split_once('|').unwrap_or_else(|| infra(format!("no '|' in {line:?}")));
    let mut ranks: Vec<u64> = Vec::new();
    let mut conns: Vec<Conn> = Vec::new();
    let mut legacy_rank: u64 = 0;
    for w in head.split_whitespace() {
        if let Some(v) = w.strip_prefix("names=") {
            ranks = v.split(',').map(u).collect();
        } else if let Some(v) = w.strip_prefix("conns=") {
            for (k, c) in v.split(',').enumerate() {
                let (x, y) = c.split_once('>').unwrap_or_else(|| infra(format!("bad conn {c:?}")));
                let (a, b) = tokio::io::duplex(256 * 1024);
                let link: Link = Arc::new(Mutex::new(LinkState::default()));
                let label = format!("c{k}");
                if x == "L" {
                    let (y, nonce) = y.split_once(':').unwrap_or_else(|| infra(format!("bad legacy conn {c:?}")));
                    // the real node's end reads freely: the legacy peer decides when it sends
                    set_free(&link, true);
                    conns.push(Conn {
                        dial: LEGACY,
                        acc: u(y) as usize,
                        ends: Some((
                            GatedEnd { stream: tokio::io::duplex(8).0, link: link.clone(), end: 0, label: label.clone() },
                            GatedEnd { stream: b, link: link.clone(), end: 1, label },
                        )),
                        link,
                        legacy: Some(Legacy {
                            nonce: u(nonce),
                            write: None,
                            inbox: Arc::new(Mutex::new(LegacyIn::default())),
                            step: 0,
                            status: 9,
                            acked: false,
                        }),
                        legacy_stream: Some(a),
                        stalled: false,
                        forever: false,
                        opened: false,
                    });
                    continue;
                }
                conns.push(Conn {
                    dial: u(x) as usize,
                    acc: u(y) as usize,
                    ends: Some((
                        GatedEnd { stream: a, link: link.clone(), end: 0, label: label.clone() },
                        GatedEnd { stream: b, link: link.clone(), end: 1, label },
                    )),
                    link,
                    legacy: None,
                    legacy_stream: None,
                    stalled: false,
                    forever: false,
                    opened: false,
                });
            }
        } else if let Some(v) = w.strip_prefix("legacy=") {
            legacy_rank = u(v);
        } else if w != "elect" {
            infra(format!("bad header word {w:?}"));
        }
    }
    let events: Events = Arc::new(Mutex::new(Vec::new()));
    let mut nodes: Vec<ActorRef<NodeServerMessage>> = Vec::new();
    let mut handles = Vec::new();
    for (i, r) in ranks.iter().enumerate() {
        let (n, h) = Actor::spawn(
            None,
            {
                let full = node_name(*r);
                let (n, h) = full.split_once('@').unwrap();
                NodeServer::new(0, "cookie".to_string(), n.to_string(), h.to_string(), None, None)
            },
            (),
        )
        .await
        .unwrap_or_else(|e| stuck(format!("node {i} does not start: {e}")));
        n.cast(NodeServerMessage::SubscribeToEvents {
            id: "h".to_string(),
            subscription: Box::new(Sub { node: i, events: events.clone() }),
        })
        .unwrap_or_else(|e| stuck(format!("subscribe: {e}")));
        let _ = sessions_of(&n).await; // mailbox barrier (subscription, listener port)
        nodes.push(n);
        handles.push(h);
    }
    let mut snaps: Vec<String> = Vec::new();
    for t in toks.split_whitespace() {
        if let Some(k) = t.strip_prefix('o') {
            let k = u(k) as usize;
            let c = &mut conns[k];
            let (d, a) = c.ends.take().unwrap_or_else(|| infra("connection opened twice"));
            c.opened = true;
            if let Some(lg) = c.legacy.as_mut() {
                drop(d);
                let (r, w) = tokio::io::split(c.legacy_stream.take().unwrap());
                lg.write = Some(w);
                tokio::spawn(legacy_reader(r, lg.inbox.clone()));
            } else {
                // the dialling side goes through the public helper for external transports
                ractor_cluster::client_connect_external(&nodes[c.dial], Box::new(d))
                    .await
                    .unwrap_or_else(|e| stuck(format!("open: {e}")));
            }
            nodes[c.acc]
                .cast(NodeServerMessage::ConnectionOpenedExternal { stream: Box::new(a), is_server: true })
                .unwrap_or_else(|e| stuck(format!("open: {e}")));
        } else if let Some(k) = t.strip_prefix('S') {
            conns[u(k) as usize].stalled = true;
        } else if let Some(k) = t.strip_prefix('X') {
            let mut l = conns[u(k) as usize].link.lock().unwrap();
            l.cut = true;
            for d in 0..2 {
                if let Some(w) = l.dirs[d].waker.take() {
                    w.wake();
                }
            }
        } else if let Some(k) = t.strip_prefix('Z') {
            conns[u(k) as usize].stalled = true;
            conns[u(k) as usize].forever = true;
        } else if let Some(k) = t.strip_suffix('n').or_else(|| t.strip_suffix('c')).or_else(|| t.strip_suffix('a')) {
            let want = match t.chars().last() {
                Some('n') => 0,
                Some('c') => 1,
                _ => 2,
            };
            let c = &mut conns[u(k) as usize];
            if let Some(lg) = c.legacy.as_mut() {
                if lg.step == want {
                    lg.advance(legacy_rank).await;
                }
            }
        } else if t == "F" || t == "U" {
            if t == "U" {
                for c in conns.iter_mut() {
                    if !c.forever {
                        c.stalled = false;
                    }
                }
            }
            for c in conns.iter() {
                if !c.stalled {
                    set_free(&c.link, true);
                }
            }
            // the legacy peer completes the handshakes it is allowed to complete, one step at a time
            for _ in 0..3 {
                for k in 0..conns.len() {
                    if conns[k].opened && !conns[k].stalled {
                        if let Some(lg) = conns[k].legacy.as_mut() {
                            lg.advance(legacy_rank).await;
                            barrier().await;
                        }
                    }
                }
            }
            snaps.push(quiesce(&nodes, &conns, &events).await);
            continue;
        } else if let Some(k) = t.strip_suffix('f') {
            grant(&conns[u(k) as usize].link, 0);
        } else if let Some(k) = t.strip_suffix('b') {
            grant(&conns[u(k) as usize].link, 1);
        } else {
            infra(format!("bad token {t:?}"));
        }
        barrier().await;
    }
    // observations
    let mut cs = Vec::new();
    for (k, c) in conns.iter().enumerate() {
        let l = c.link.lock().unwrap();
        let nonce = l.dirs[0].first_frame.as_deref().and_then(nonce_of);
        let nonce = match (nonce, &c.legacy) {
            (Some(n), _) => n,
            (None, Some(lg)) => lg.nonce,
            (None, None) if !c.opened => 0,
            (None, None) => stuck(format!("connection {k}: no Name frame seen on the wire")),
        };
        cs.push(format!("({}, {}, {}, {})", k, c.dial, c.acc, nonce));
    }
    let evs: Vec<String> = events
        .lock()
        .unwrap()
        .iter()
        .map(|(n, kind, sid, srv, label)| format!("({}, {}, {}, {}, {})", n, kind, sid, coq_bool(*srv), conn_of_label(label)))
        .collect();
    let legs: Vec<String> = conns
        .iter()
        .enumerate()
        .filter_map(|(k, c)| {
            c.legacy.as_ref().map(|lg| format!("({}, {}, {}, {})", k, lg.status, coq_bool(lg.acked), coq_bool(lg.inbox.lock().unwrap().eof)))
        })
        .collect();
    // teardown
    for n in &nodes {
        n.stop(None);
    }
    for (i, h) in handles.into_iter().enumerate() {
        join_bounded(&format!("node {i}"), h).await;
    }
    drop(conns);
    format!("mkNet {} {} {} {}", coq_list(&cs), coq_list(&evs), coq_list(&snaps), coq_list(&legs))
}

// ------------------------------------------------------------------ real TCP between real nodes

fn tcp_rank(name: &str) -> u64 {
    name.strip_prefix('n').and_then(|x| x.split('@').next()).and_then(|x| x.parse().ok()).unwrap_or(u64::MAX)
}

async fn run_tcp(line: String) -> String {
    let (head, toks) = line.split_once('|').unwrap_or_else(|| infra(format!("no '|' in {line:?}")));
    let mut ranks: Vec<u64> = Vec::new();
    let mut trans = false;
    let mut expect: Vec<(usize, usize)> = Vec::new();
    for w in head.split_whitespace() {
        if let Some(v) = w.strip_prefix("names=") {
            ranks = v.split(',').map(u).collect();
        } else if let Some(v) = w.strip_prefix("mode=") {
            trans = v == "trans";
        } else if let Some(v) = w.strip_prefix("expect=") {
            for p in v.split(',') {
                let b = p.as_bytes();
                expect.push(((b[0] - b'0') as usize, (b[1] - b'0') as usize));
            }
        } else if w != "tcp" {
            infra(format!("bad header word {w:?}"));
        }
    }
    let events: Events = Arc::new(Mutex::new(Vec::new()));
    let mut nodes: Vec<ActorRef<NodeServerMessage>> = Vec::new();
    let mut ports: Vec<u16> = Vec::new();
    let mut handles = Vec::new();
    for (i, r) in ranks.iter().enumerate() {
        let port = match std::net::TcpListener::bind("127.0.0.1:0").and_then(|l| l.local_addr()) {
            Ok(a) => a.port(),
            Err(e) => infra(format!("no free loopback port: {e}")),
        };
        let mode = if trans { ractor_cluster::node::NodeConnectionMode::Transitive } else { ractor_cluster::node::NodeConnectionMode::Isolated };
        let server = NodeServer::new(port, "cookie".to_string(), format!("n{:010}", r), "127.0.0.1".to_string(), None, Some(mode))
            .with_listen_addr(std::net::IpAddr::V4(std::net::Ipv4Addr::LOCALHOST));
        let (n, h) = Actor::spawn(None, server, ()).await.unwrap_or_else(|e| infra(format!("node {i} does not start: {e}")));
        n.cast(NodeServerMessage::SubscribeToEvents { id: "h".to_string(), subscription: Box::new(Sub { node: i, events: events.clone() }) })
            .unwrap_or_else(|e| infra(format!("subscribe: {e}")));
        let _ = sessions_of(&n).await;
        nodes.push(n);
        ports.push(port);
        handles.push(h);
    }
    for t in toks.split_whitespace() {
        let b = t.as_bytes();
        if b.len() != 3 || b[0] != b'd' {
            infra(format!("bad token {t:?}"));
        }
        let (x, y) = ((b[1] - b'0') as usize, (b[2] - b'0') as usize);
        if let Err(e) = ractor_cluster::client_connect(&nodes[x], format!("127.0.0.1:{}", ports[y])).await {
            stuck(format!("tcp connect {x}->{y} failed: {e}"));
        }
    }
    // wait for the logical end state (bounded in real time; a miss is an infrastructure verdict because
    // real time is involved)
    // real time is only used to notice that nothing changes any more: as long as there is progress the
    // wait goes on (120 s overall => infrastructure failure); a state frozen for 10 s that is not the
    // expected end state is reported as it is (an observation for the oracle)
    let deadline = std::time::Instant::now() + Duration::from_secs(120);
    let mut stable = 0;
    let mut last_fp = String::new();
    let mut frozen_since = std::time::Instant::now();
    let table = loop {
        let mut per_node: Vec<Vec<(u64, bool, u64)>> = Vec::new();
        for n in &nodes {
            let mut v: Vec<(u64, bool, u64)> = sessions_of(n)
                .await
                .into_values()
                .map(|s| (s.actor.get_id().pid(), s.is_server, s.peer_name.as_ref().map(|p| tcp_rank(&p.name)).unwrap_or(u64::MAX)))
                .collect();
            v.sort();
            per_node.push(v);
        }
        let mut ok = true;
        for (i, v) in per_node.iter().enumerate() {
            let want: Vec<u64> = expect.iter().filter_map(|(x, y)| if *x == i { Some(ranks[*y]) } else if *y == i { Some(ranks[*x]) } else { None }).collect();
            let mut got: Vec<u64> = v.iter().map(|s| s.2).collect();
            let mut want = want;
            got.sort();
            want.sort();
            ok &= got == want;
        }
        {
            // nothing else is open: every opened session that is not listed has been disconnected
            let e = events.lock().unwrap();
            for (i, v) in per_node.iter().enumerate() {
                let opened = e.iter().filter(|x| x.0 == i && x.1 == 0).count();
                let closed = e.iter().filter(|x| x.0 == i && x.1 == 3).count();
                ok &= opened - closed == v.len();
                // the survivors have reported ready
                for s in v {
                    ok &= e.iter().any(|x| x.0 == i && x.1 == 2 && x.2 == s.0);
                }
            }
        }
        if ok {
            stable += 1;
            if stable >= 20 {
                break per_node;
            }
        } else {
            stable = 0;
        }
        let fp = format!("{per_node:?}#{}", events.lock().unwrap().len());
        if fp != last_fp {
            last_fp = fp;
            frozen_since = std::time::Instant::now();
        } else if !ok && frozen_since.elapsed() >= Duration::from_secs(10) {
            break per_node;
        }
        if std::time::Instant::now() >= deadline {
            infra(format!("tcp: still changing after 120 s: {per_node:?}"));
        }
        tokio::time::sleep(Duration::from_millis(10)).await;
    };
    let evs: Vec<String> = events
        .lock()
        .unwrap()
        .iter()
        .map(|(n, kind, sid, srv, _)| format!("({}, {}, {}, {}, -1)", n, kind, sid, coq_bool(*srv)))
        .collect();
    let tab: Vec<String> = table
        .iter()
        .enumerate()
        .map(|(i, v)| {
            let items: Vec<String> = v.iter().map(|(s, srv, r)| format!("({}, {}, {})", s, coq_bool(*srv), r)).collect();
            format!("({}, {})", i, coq_list(&items))
        })
        .collect();
    for n in &nodes {
        n.stop(None);
    }
    for (i, h) in handles.into_iter().enumerate() {
        join_bounded(&format!("node {i}"), h).await;
    }
    format!("mkTcp {} {}", coq_list(&evs), coq_list(&tab))
}

fn main() {
    let default_hook = std::panic::take_hook();
    std::panic::set_hook(Box::new(move |info| {
        PANICKED.store(true, Ordering::SeqCst);
        default_hook(info);
    }));
    let lines = stdin_lines();
    let total = lines.len();
    for (case, line) in lines.into_iter().enumerate() {
        let is_tcp = line.starts_with("tcp ");
        let rt = tokio::runtime::Builder::new_current_thread()
            .enable_all()
            .start_paused(!is_tcp)
            .build()
            .unwrap_or_else(|e| infra(format!("runtime: {e}")));
        let res = std::panic::catch_unwind(std::panic::AssertUnwindSafe(|| {
            if is_tcp {
                rt.block_on(run_tcp(line.clone()))
            } else {
                rt.block_on(run_case(line.clone()))
            }
        }));
        let out = match res {
            Ok(o) if !PANICKED.load(Ordering::SeqCst) => o,
            Ok(_) => "stuck \"a panic occurred in some task during the case\"".to_string(),
            Err(p) => match p.downcast_ref::<Stuck>() {
                Some(s) => format!("stuck \"{}\"", s.0.replace('"', "'")),
                None => "stuck \"the driver panicked\"".to_string(),
            },
        };
        let bad = out.starts_with("stuck");
        if bad {
            std::mem::forget(rt);
        } else {
            drop(rt);
        }
        println!("{out}");
        if bad {
            // the process-global registries are not trustworthy any more: the rest is not evaluated
            for _ in case + 1..total {
                println!("skipped");
            }
            std::process::exit(0);
        }
    }
}
