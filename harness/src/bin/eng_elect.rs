//! E3 for C18: drives the real `elect_sessions` and the real `NodeServerState`
//! methods (through the cfg-gated `ractor_cluster::node::verif` wrappers).
//!
//! stdin, one case per line:
//!   elect <this> <peer> <id>:<srv>:<nonce> ...
//!   table <this> <op> ; <op> ; ...     with ops
//!       open <id> <srv> | reg <id> <peer> <nonce> | cc <id> | cs <peer> <nonce>
//!       | commit <id> | commith <id> | el <id> | rm <id> | fail <id> | ready <id>
//! stdout: one Coq-syntax term per case.
use std::collections::HashMap;
use std::sync::{Arc, Mutex};

use ractor::{Actor, ActorCell, ActorId, ActorProcessingErr, ActorRef, SupervisionEvent};
use ractor_cluster::node::verif::{elect, VerifNode};
use ractor_cluster::node::NodeServerSessionInformation;
use ractor_cluster::{NodeEventSubscription, NodeServerMessage};
use rv_harness::*;

struct Dummy;
impl Actor for Dummy {
    type Msg = ();
    type State = ();
    type Arguments = ();
    async fn pre_start(&self, _: ActorRef<()>, _: ()) -> Result<(), ActorProcessingErr> {
        Ok(())
    }
}

#[derive(Clone, Default)]
struct Events(Arc<Mutex<Vec<String>>>);
struct Sub(Events);
impl NodeEventSubscription for Sub {
    fn node_session_opened(&self, _: NodeServerSessionInformation) {}
    fn node_session_disconnected(&self, s: NodeServerSessionInformation) {
        self.0 .0.lock().unwrap().push(format!("disc {}", s.actor.get_id().pid()));
    }
    fn node_session_authenticated(&self, s: NodeServerSessionInformation) {
        self.0 .0.lock().unwrap().push(format!("auth {}", s.actor.get_id().pid()));
    }
    fn node_session_ready(&self, s: NodeServerSessionInformation) {
        self.0 .0.lock().unwrap().push(format!("ready {}", s.actor.get_id().pid()));
    }
}

fn u(s: &str) -> u64 {
    s.parse().unwrap_or_else(|_| panic!("bad number {s:?}"))
}

async fn run_table(rest: &str) -> String {
    let mut it = rest.splitn(2, ' ');
    let this = u(it.next().unwrap());
    let ops = it.next().unwrap_or("");
    let (anchor, _) = Actor::spawn(None, Dummy, ()).await.unwrap();
    let mut node = VerifNode::new(&node_name(this), anchor.get_cell());
    let events = Events::default();
    node.subscribe("h", Box::new(Sub(events.clone())));
    // model id -> real cell
    let mut cells: HashMap<u64, ActorCell> = HashMap::new();
    let mut back: HashMap<u64, u64> = HashMap::new(); // real pid -> model id
    let mut outs: Vec<String> = Vec::new();
    let fake = ActorId::Local(u64::MAX - 7);
    for op in ops.split(';') {
        let w: Vec<&str> = op.split_whitespace().collect();
        if w.is_empty() {
            continue;
        }
        let idof = |cells: &HashMap<u64, ActorCell>, m: u64| cells.get(&m).map(|c| c.get_id()).unwrap_or(fake);
        match w[0] {
            "open" => {
                let m = u(w[1]);
                if !cells.contains_key(&m) {
                    let (a, _) = Actor::spawn(None, Dummy, ()).await.unwrap();
                    back.insert(a.get_id().pid(), m);
                    cells.insert(m, a.get_cell());
                }
                node.open_session(cells[&m].clone(), w[2] == "1");
                outs.push("OUnit".into());
            }
            "reg" => {
                node.register(idof(&cells, u(w[1])), &node_name(u(w[2])), u(w[3]));
                outs.push("OUnit".into());
            }
            "cc" => outs.push(format!("ONum {}", node.check_candidate(idof(&cells, u(w[1]))))),
            "cs" => outs.push(format!("ONum {}", node.check_session(&node_name(u(w[1])), u(w[2])))),
            "commit" => {
                let r = node.commit(idof(&cells, u(w[1])));
                outs.push(match r {
                    None => "OCommit None".to_string(),
                    Some((b, losers)) => {
                        let mut l: Vec<u64> = losers.iter().map(|p| back[p]).collect();
                        l.sort();
                        format!("OCommit (Some ({}, {}))", coq_bool(b), coq_nums(l))
                    }
                });
            }
            "el" => outs.push(format!("OBool {}", coq_bool(node.is_elected(idof(&cells, u(w[1])))))),
            "rm" => {
                // the real supervision handler removes the session
                let m = u(w[1]);
                if let Some(c) = cells.get(&m) {
                    node.handle_supervisor_evt(SupervisionEvent::ActorTerminated(c.clone(), None, None)).await;
                }
                outs.push("OUnit".into());
            }
            "fail" => {
                // the session actor FAILS (handler error / panic): reported through ActorFailed only
                let m = u(w[1]);
                if let Some(c) = cells.get(&m) {
                    node.handle_supervisor_evt(SupervisionEvent::ActorFailed(c.clone(), From::from("session failed"))).await;
                }
                outs.push("OUnit".into());
            }
            "commith" => {
                // the real ConnectionAuthenticated handler: which sessions does it stop, and is the
                // `authenticated` event published?
                let id = idof(&cells, u(w[1]));
                let before = events.0.lock().unwrap().len();
                let alive_before: Vec<u64> = cells
                    .iter()
                    .filter(|(_, c)| c.get_status() < ractor::ActorStatus::Stopping)
                    .map(|(m, _)| *m)
                    .collect();
                node.handle(NodeServerMessage::ConnectionAuthenticated(id)).await;
                tokio::time::sleep(std::time::Duration::from_nanos(1)).await;
                let published = events.0.lock().unwrap()[before..].iter().any(|e| e.starts_with("auth "));
                let mut stopped: Vec<u64> = alive_before
                    .into_iter()
                    .filter(|m| cells[m].get_status() >= ractor::ActorStatus::Stopping)
                    .collect();
                stopped.sort();
                outs.push(format!("OCommitH {} {}", coq_bool(published), coq_nums(stopped)));
            }
            "ready" => {
                // the real message handler decides whether a ready event is published
                let before = events.0.lock().unwrap().len();
                node.handle(NodeServerMessage::ConnectionReady(idof(&cells, u(w[1])))).await;
                let after = events.0.lock().unwrap().len();
                outs.push(format!("OBool {}", coq_bool(after > before)));
            }
            other => panic!("unknown op {other}"),
        }
    }
    for c in cells.values() {
        c.stop(None);
    }
    anchor.stop(None);
    coq_list(&outs)
}

#[tokio::main(flavor = "current_thread", start_paused = true)]
async fn main() {
    for line in stdin_lines() {
        let (kind, rest) = line.split_once(' ').unwrap_or((&line, ""));
        match kind {
            "elect" => {
                let w: Vec<&str> = rest.split_whitespace().collect();
                let this = node_name(u(w[0]));
                let peer = node_name(u(w[1]));
                let cands: Vec<(u64, bool, u64)> = w[2..]
                    .iter()
                    .map(|c| {
                        let p: Vec<&str> = c.split(':').collect();
                        (u(p[0]), p[1] == "1", u(p[2]))
                    })
                    .collect();
                println!("{}", coq_nums(elect(&this, &peer, &cands)));
            }
            "table" => println!("{}", run_table(rest).await),
            other => panic!("unknown case kind {other}"),
        }
    }
}
