//! Engine for C07 / C02: drives the REAL send / drain / stop / kill paths of one actor
//! (ractor/src/actor/actor_properties.rs, actor_cell.rs, actor.rs) under a deterministic
//! schedule and prints the event log in the syntax of `Admission.Model.ev`.
//!
//! Determinism: a tokio current_thread runtime with a paused clock runs the actor and a
//! supervisor; the driver is the runtime's main task, so the actor only makes progress while
//! the driver awaits (`run` = `sleep(1ns)`, an exact quiescence barrier). Sender OS threads
//! are parked INSIDE the lock-free send path, between taking the admission ticket and the
//! channel enqueue, through the user-overridable `Message::box_message` (no hook needed).
//!
//! stdin: one scenario per line, actions separated by ';'
//!     do <call> | start <call> | rel <n> | run | ps <n>
//!     | wait (ActorCell::wait(None): polled once and kept; once the actor has exited every kept wait must be complete)
//!     | mode kids <n> (the target supervises n children; the call X stops one of them, so a supervision event
//!       reaches the target while it works through its mailbox; the target ignores the event)
//!     | mode instant | go | mode remote | tick (= run, then 2 s of virtual time pass)
//!     (mode instant: the target is created with spawn_instant and its pre_start parks at a gate (it
//!      links itself to the supervisor first, so the exit reason stays observable); `go` opens the gate.
//!      mode remote: the target carries a REMOTE ActorId (ActorRuntime::spawn_linked_remote) and
//!      handles serialized messages; sends use a serializable message type, flag n = a type
//!      without wire format (must come back as InvalidActorType); no gates / box scripts there.)
//!     (ps <n>: the target actor's post_stop releases the n-th started thread and waits for it, i.e.
//!      a sender parked in box_message completes while the actor is between its loop exit and the
//!      drop of its ports; declared once, anywhere in the line)
//!     call := S(<pid>,<flags>,[<call>,...],[<call>,...]) | D | T | K
//!             flags: any of w (wrong type) b (box_message fails) g (gate) f (handler fails), or -;
//!             a digit selects the entry point the send goes through (default 0):
//!               0 ActorCell::send_message      1 ActorRef::<T>::from(cell).send_message
//!               2 ActorRef::<T>::from(cell).cast   3 ActorRef::<T>::from(cell).call(.., None)
//!               4 ActorRef::<T>::from(cell).call(.., Some(timeout))   5 rpc::cast(&cell, ..)
//!               6 rpc::call(&cell, .., None)
//!               7 ActorRef::<T>::from(cell).call_and_forward(.., &forward_to, .., None)
//!               8 rpc::call_and_forward(&cell, .., forward_to_cell, .., None)
//!               9 rpc::multi_call(&[ActorRef::<T>::from(cell)], .., None)
//!             (7-9 spawn tasks: on a thread without a runtime context they fall back to 3)
//!             z / y: ActorRef::call(.., Some(Duration::ZERO)) / rpc::call(&cell, .., Some(1 ns))
//!             d: through a DerivedActorRef (ActorRef::get_derived, converter closure, TryFrom back-conversion
//!                of a refused message); r: through ActorRef::<T>::where_is(name) (typed registry lookup with
//!                is_message_type_of; for a wrong type the lookup itself must refuse) then send_message
//!             u: ActorCell::send_serialized of bytes the actor's message type cannot decode (NOT generated
//!                by the checks, see docs/notes/C02.md "Coverage audit")
//!             s / c / q: the message enters through ActorCell::send_serialized as a Cast / a Call whose
//!             reply receiver the caller has already dropped / a Call whose caller still waits
//!             (a call is polled once: Pending / Ok(_) = the request was accepted = ROk)
//!             first list: calls made from inside box_message; second: calls made by the handler
//!             D = drain(), T = stop(None), K = kill()
//!             Dc = supervisor.drain_children(); Dt / Dw = drain_and_wait(Some(1s)) / drain_and_wait(None): the
//!             future is polled once (that performs the drain) and kept; it must have completed once the
//!             actor is Stopped (checked at the end of the scenario)
//! stdout: one line per scenario: `([ev; ...], status)`.
//!
//! A line starting with `stress ` runs the uncontrolled multi-thread mode (see `stress`).
use std::sync::mpsc as smpsc;
use std::sync::{Arc, Mutex, OnceLock};
use std::time::Duration;

use ractor::message::{BoxedDowncastErr, BoxedMessage};
use futures::FutureExt;
use ractor::rpc::CallResult;
use ractor::{
    Actor, ActorCell, ActorId, ActorProcessingErr, ActorRef, Message, MessagingErr, RpcReplyPort,
    SupervisionEvent,
};
use rv_harness::*;

// ---------------------------------------------------------------- scenario syntax

#[derive(Clone, Debug)]
enum Call {
    Send(Arc<Spec>),
    /// 0 drain(); 1 supervisor.drain_children(); 2 drain_and_wait(Some); 3 drain_and_wait(None)
    Drain(u8),
    /// stop one of the target's children (mode kids)
    KidStop,
    Stop,
    Kill,
}

#[derive(Debug)]
struct Spec {
    pid: u64,
    wrong: bool,
    boxfail: bool,
    gate: bool,
    hfail: bool,
    via: u8,
    /// 0 typed send; 1 send_serialized Cast; 2 send_serialized Call, receiver dropped; 3 Call, receiver kept
    ser: u8,
    /// remote mode: a message type without wire format
    nonser: bool,
    box_calls: Vec<Call>,
    hcalls: Vec<Call>,
}

struct P<'a> {
    s: &'a [u8],
    i: usize,
}
impl<'a> P<'a> {
    fn ws(&mut self) {
        while self.i < self.s.len() && (self.s[self.i] as char).is_whitespace() {
            self.i += 1;
        }
    }
    fn eat(&mut self, c: u8) {
        self.ws();
        assert!(self.i < self.s.len() && self.s[self.i] == c, "expected {:?} at {} in {:?}", c as char, self.i, std::str::from_utf8(self.s));
        self.i += 1;
    }
    fn peek(&mut self) -> u8 {
        self.ws();
        if self.i < self.s.len() {
            self.s[self.i]
        } else {
            0
        }
    }
    fn num(&mut self) -> u64 {
        self.ws();
        let st = self.i;
        while self.i < self.s.len() && self.s[self.i].is_ascii_digit() {
            self.i += 1;
        }
        std::str::from_utf8(&self.s[st..self.i]).unwrap().parse().expect("number")
    }
    fn list(&mut self) -> Vec<Call> {
        self.eat(b'[');
        let mut v = Vec::new();
        if self.peek() == b']' {
            self.i += 1;
            return v;
        }
        loop {
            v.push(self.call());
            if self.peek() == b',' {
                self.i += 1;
            } else {
                self.eat(b']');
                return v;
            }
        }
    }
    fn call(&mut self) -> Call {
        match self.peek() {
            b'D' => {
                self.i += 1;
                let k = match self.s.get(self.i) {
                    Some(b'c') => 1,
                    Some(b't') => 2,
                    Some(b'w') => 3,
                    _ => 0,
                };
                if k != 0 {
                    self.i += 1;
                }
                Call::Drain(k)
            }
            b'T' => {
                self.i += 1;
                Call::Stop
            }
            b'X' => {
                self.i += 1;
                Call::KidStop
            }
            b'K' => {
                self.i += 1;
                Call::Kill
            }
            b'S' => {
                self.i += 1;
                self.eat(b'(');
                let pid = self.num();
                self.eat(b',');
                self.ws();
                let st = self.i;
                while self.i < self.s.len() && self.s[self.i] != b',' {
                    self.i += 1;
                }
                let flags = std::str::from_utf8(&self.s[st..self.i]).unwrap().trim().to_string();
                self.eat(b',');
                let box_calls = self.list();
                self.eat(b',');
                let hcalls = self.list();
                self.eat(b')');
                Call::Send(Arc::new(Spec {
                    pid,
                    wrong: flags.contains('w'),
                    boxfail: flags.contains('b'),
                    gate: flags.contains('g'),
                    hfail: flags.contains('f'),
                    via: if flags.contains('z') {
                        12
                    } else if flags.contains('y') {
                        13
                    } else if flags.contains('d') {
                        10
                    } else if flags.contains('r') {
                        11
                    } else {
                        flags.chars().find(|c| c.is_ascii_digit()).map(|c| c as u8 - b'0').unwrap_or(0)
                    },
                    ser: if flags.contains('u') {
                        4
                    } else if flags.contains('s') {
                        1
                    } else if flags.contains('c') {
                        2
                    } else if flags.contains('q') {
                        3
                    } else {
                        0
                    },
                    nonser: flags.contains('n'),
                    box_calls,
                    hcalls,
                }))
            }
            c => panic!("bad call start {:?}", c as char),
        }
    }
}

fn parse_call(s: &str) -> Call {
    let mut p = P { s: s.as_bytes(), i: 0 };
    let c = p.call();
    p.ws();
    assert!(p.i == s.len(), "trailing input in call {s:?}");
    c
}

// ---------------------------------------------------------------- shared context

enum Evt {
    Parked,
    Done,
}

struct Gate {
    evt: smpsc::Sender<Evt>,
    release: Mutex<smpsc::Receiver<()>>,
}

struct Ctx {
    cell: OnceLock<ActorCell>,
    /// reply-forwarding target for call_and_forward (the supervisor; it ignores `()` messages)
    fwd: OnceLock<ActorRef<()>>,
    log: Mutex<Vec<String>>,
    started: Mutex<Vec<Started>>,
    /// start-order indices of the threads post_stop releases
    ps: Mutex<Vec<usize>>,
    hang: std::sync::atomic::AtomicBool,
    /// mode remote: the target has a remote ActorId
    remote: std::sync::atomic::AtomicBool,
    /// mode instant: pre_start links to this supervisor and then waits for a permit
    pre_gate: OnceLock<(ActorCell, Arc<tokio::sync::Semaphore>)>,
    /// reply receivers of serialized calls whose caller "still waits"
    kept: Mutex<Vec<Box<dyn std::any::Any + Send>>>,
    /// registry name of the target
    name: OnceLock<String>,
    /// mode kids: number of children to spawn, and the children still alive
    n_kids: std::sync::atomic::AtomicUsize,
    kids: Mutex<Vec<ActorCell>>,
    /// drain_and_wait futures that were polled once and are still pending
    waits: Mutex<Vec<std::pin::Pin<Box<dyn std::future::Future<Output = bool> + Send>>>>,
}

/// serialized messages carry only the payload id; the receiving side finds the scripted
/// behaviour of that message here (one scenario at a time per process)
static REG: Mutex<Option<std::collections::HashMap<u64, (Arc<Spec>, Arc<Ctx>)>>> = Mutex::new(None);
fn reg_put(spec: &Arc<Spec>, ctx: &Arc<Ctx>) {
    REG.lock().unwrap().get_or_insert_with(Default::default).insert(spec.pid, (spec.clone(), ctx.clone()));
}
fn reg_get(pid: u64) -> Option<(Arc<Spec>, Arc<Ctx>)> {
    REG.lock().unwrap().as_ref().and_then(|m| m.get(&pid).cloned())
}
fn pid_of_serialized(m: &ractor::message::SerializedMessage) -> u64 {
    use ractor::message::SerializedMessage::*;
    let args = match m {
        Cast { args, .. } | Call { args, .. } => args,
        CallReply(_, args) => args,
    };
    let mut b = [0u8; 8];
    b.copy_from_slice(&args[..8]);
    u64::from_be_bytes(b)
}
impl Ctx {
    fn ev(&self, s: String) {
        self.log.lock().unwrap().push(s);
    }
    fn cell(&self) -> &ActorCell {
        self.cell.get().expect("actor cell")
    }
    fn new() -> Arc<Ctx> {
        Arc::new(Ctx {
            cell: OnceLock::new(),
            fwd: OnceLock::new(),
            log: Mutex::new(Vec::new()),
            started: Mutex::new(Vec::new()),
            ps: Mutex::new(Vec::new()),
            hang: std::sync::atomic::AtomicBool::new(false),
            remote: std::sync::atomic::AtomicBool::new(false),
            pre_gate: OnceLock::new(),
            kept: Mutex::new(Vec::new()),
            name: OnceLock::new(),
            n_kids: std::sync::atomic::AtomicUsize::new(0),
            kids: Mutex::new(Vec::new()),
            waits: Mutex::new(Vec::new()),
        })
    }
    /// release the n-th started thread (if still parked) and wait until its send has returned
    fn release(&self, n: usize) {
        let mut st = self.started.lock().unwrap();
        if let Some(t) = st.get_mut(n) {
            if t.parked {
                t.parked = false;
                let _ = t.release.send(());
                match t.evt.recv_timeout(Duration::from_secs(30)) {
                    Ok(Evt::Done) => {}
                    _ => self.hang.store(true, std::sync::atomic::Ordering::SeqCst),
                }
            }
            if let Some(h) = t.handle.take() {
                let _ = h.join();
            }
        }
    }
}

// ---------------------------------------------------------------- message types

/// carried inside the BoxedMessage (default boxing)
struct Inner {
    spec: Arc<Spec>,
    ctx: Arc<Ctx>,
    reply: Option<RpcReplyPort<u64>>,
}
impl Message for Inner {
    fn deserialize(m: ractor::message::SerializedMessage) -> Result<Self, BoxedDowncastErr> {
        let (spec, ctx) = reg_get(pid_of_serialized(&m)).ok_or(BoxedDowncastErr)?;
        Ok(Inner { spec, ctx, reply: None })
    }
}

/// remote mode: a message type with a wire format ...
struct SMsg(u64);
impl Message for SMsg {
    fn serializable() -> bool {
        true
    }
    fn serialize(self) -> Result<ractor::message::SerializedMessage, BoxedDowncastErr> {
        Ok(ractor::message::SerializedMessage::Cast {
            variant: "m".into(),
            args: self.0.to_be_bytes().to_vec(),
            metadata: None,
        })
    }
    fn deserialize(m: ractor::message::SerializedMessage) -> Result<Self, BoxedDowncastErr> {
        Ok(SMsg(pid_of_serialized(&m)))
    }
}

/// the actor's message type; its `box_message` is the door into the send path
struct HMsg {
    spec: Arc<Spec>,
    ctx: Arc<Ctx>,
    gate: Option<Arc<Gate>>,
    reply: Option<RpcReplyPort<u64>>,
}
impl Message for HMsg {
    fn box_message(self, pid: &ActorId) -> Result<BoxedMessage, BoxedDowncastErr> {
        // here the calling thread holds an admission ticket and has not yet enqueued
        if let Some(g) = &self.gate {
            let _ = g.evt.send(Evt::Parked);
            let _ = g.release.lock().unwrap().recv_timeout(Duration::from_secs(30));
        }
        for c in &self.spec.box_calls {
            perform(&self.ctx, c, None);
        }
        if self.spec.boxfail {
            return Err(BoxedDowncastErr);
        }
        Inner { spec: self.spec, ctx: self.ctx, reply: self.reply }.box_message(pid)
    }
    fn from_boxed(m: BoxedMessage) -> Result<Self, BoxedDowncastErr> {
        Inner::from_boxed(m).map(|i| HMsg { spec: i.spec, ctx: i.ctx, gate: None, reply: i.reply })
    }
}

/// a message of a different type, for the TypeId check
struct Wrong(u64, #[allow(dead_code)] Option<RpcReplyPort<u64>>);
impl Message for Wrong {}

/// message types of derived references (`ActorRef::get_derived`)
struct DMsg(HMsg);
impl From<DMsg> for HMsg {
    fn from(d: DMsg) -> HMsg {
        d.0
    }
}
impl TryFrom<HMsg> for DMsg {
    type Error = ();
    fn try_from(m: HMsg) -> Result<DMsg, ()> {
        Ok(DMsg(m))
    }
}
struct DWrong(Wrong);
impl From<DWrong> for Wrong {
    fn from(d: DWrong) -> Wrong {
        d.0
    }
}
impl TryFrom<Wrong> for DWrong {
    type Error = ();
    fn try_from(m: Wrong) -> Result<DWrong, ()> {
        Ok(DWrong(m))
    }
}

fn unwrap_err<A, B>(r: Result<(), MessagingErr<A>>, f: impl FnOnce(A) -> B) -> Result<(), MessagingErr<B>> {
    r.map_err(|e| match e {
        MessagingErr::SendErr(a) => MessagingErr::SendErr(f(a)),
        MessagingErr::ChannelClosed => MessagingErr::ChannelClosed,
        MessagingErr::InvalidActorType => MessagingErr::InvalidActorType,
    })
}

/// poll a `call` future exactly once (the request is sent on the first poll): an error of the
/// initial send is returned; Pending or any CallResult means the request was accepted
fn call_once<T, F>(fut: F) -> Result<(), MessagingErr<T>>
where
    F: std::future::Future<Output = Result<CallResult<u64>, MessagingErr<T>>>,
{
    match fut.now_or_never() {
        None | Some(Ok(_)) => Ok(()),
        Some(Err(e)) => Err(e),
    }
}

fn call_timeout() -> Option<Duration> {
    // the timeout variant needs a timer, i.e. a runtime context (driver and handlers have one)
    tokio::runtime::Handle::try_current().ok().map(|_| Duration::from_secs(5))
}

/// send `m` through the selected public entry point
fn send_via<T: Message>(
    ctx: &Ctx,
    via: u8,
    m: T,
    with_port: impl FnOnce(T, RpcReplyPort<u64>) -> T,
) -> Result<(), MessagingErr<T>> {
    let cell = ctx.cell();
    let typed: ActorRef<T> = cell.clone().into();
    let in_rt = tokio::runtime::Handle::try_current().is_ok();
    let via = if via >= 7 && !(in_rt && ctx.fwd.get().is_some()) { 3 } else { via };
    match via {
        // a call whose deadline is already over / almost over: the request must still be sent
        12 => call_once(typed.call(|p| with_port(m, p), Some(Duration::ZERO))),
        13 => call_once(ractor::rpc::call(cell, |p| with_port(m, p), Some(Duration::from_nanos(1)))),
        7 => typed
            .call_and_forward(|p| with_port(m, p), ctx.fwd.get().unwrap(), |_: u64| (), None)
            .map(|_h| ()),
        8 => ractor::rpc::call_and_forward(
            cell,
            |p| with_port(m, p),
            ctx.fwd.get().unwrap().get_cell(),
            |_: u64| (),
            None,
        )
        .map(|_h| ()),
        9 => {
            let slot = std::cell::RefCell::new(Some((m, with_port)));
            let refs = [typed.clone()];
            let fut = ractor::rpc::multi_call(
                &refs,
                |p| {
                    let (m, f) = slot.borrow_mut().take().expect("one target");
                    f(m, p)
                },
                None,
            );
            match fut.now_or_never() {
                None | Some(Ok(_)) => Ok(()),
                Some(Err(e)) => Err(e),
            }
        }
        1 => typed.send_message(m),
        2 => typed.cast(m),
        3 => call_once(typed.call(|p| with_port(m, p), None)),
        4 => call_once(typed.call(|p| with_port(m, p), call_timeout())),
        5 => ractor::rpc::cast(cell, m),
        6 => call_once(ractor::rpc::call(cell, |p| with_port(m, p), None)),
        _ => cell.send_message(m),
    }
}

fn res_term<T>(r: &Result<(), MessagingErr<T>>, pid_of: impl Fn(&T) -> u64) -> String {
    match r {
        Ok(()) => "ROk".into(),
        Err(MessagingErr::SendErr(m)) => format!("(RErr {})", pid_of(m)),
        Err(MessagingErr::InvalidActorType) => "RInvalid".into(),
        Err(MessagingErr::ChannelClosed) => "RChannelClosed".into(),
    }
}

/// perform one call against the actor from the current thread, logging what is observed
fn perform(ctx: &Arc<Ctx>, c: &Call, gate: Option<Arc<Gate>>) {
    match c {
        Call::Send(spec) => {
            let remote = ctx.remote.load(std::sync::atomic::Ordering::SeqCst);
            ctx.ev(format!("EBegin {} {}", spec.pid, coq_bool(spec.wrong || (remote && spec.nonser))));
            let r = if remote {
                // only the plain entry points: the default box_message decides
                let via = match spec.via {
                    1 | 2 | 5 => spec.via,
                    // typed registry lookup: a remote id cannot be type-checked (is_message_type_of = None),
                    // the reference is handed out
                    // (remote-id actors are not in the name registry, so the lookup itself finds nothing)
                    11 if ctx.cell().is_message_type_of::<SMsg>().is_none()
                        && ctx.name.get().and_then(|n| ActorRef::<SMsg>::where_is(n.clone())).is_some() =>
                    {
                        1
                    }
                    _ => 0,
                };
                if spec.nonser {
                    let r = send_via(ctx, via, Wrong(spec.pid, None), |m, _| m);
                    res_term(&r, |m| m.0)
                } else {
                    reg_put(spec, ctx);
                    if spec.pid % 2 == 0 {
                        // the library's blanket Message impl for BytesConvertable types
                        let r = send_via(ctx, via, spec.pid, |m, _| m);
                        res_term(&r, |m| *m)
                    } else {
                        let r = send_via(ctx, via, SMsg(spec.pid), |m, _| m);
                        res_term(&r, |m| m.0)
                    }
                }
            } else if spec.ser != 0 {
                use ractor::message::SerializedMessage;
                reg_put(spec, ctx);
                let args = spec.pid.to_be_bytes().to_vec();
                let m = if spec.ser == 4 {
                    // bytes that name no scripted message: the target's deserialize fails
                    SerializedMessage::Cast { variant: "m".into(), args: u64::MAX.to_be_bytes().to_vec(), metadata: None }
                } else if spec.ser == 1 {
                    SerializedMessage::Cast { variant: "m".into(), args, metadata: None }
                } else {
                    let (tx, rx) = tokio::sync::oneshot::channel::<Vec<u8>>();
                    if spec.ser == 3 {
                        ctx.kept.lock().unwrap().push(Box::new(rx));
                    } else {
                        drop(rx);
                    }
                    SerializedMessage::Call { variant: "m".into(), args, reply: tx.into(), metadata: None }
                };
                match ctx.cell().send_serialized(m) {
                    Ok(()) => "ROk".to_string(),
                    Err(e) => match *e {
                        MessagingErr::SendErr(m) => format!("(RErr {})", pid_of_serialized(&m)),
                        MessagingErr::InvalidActorType => "RInvalid".into(),
                        MessagingErr::ChannelClosed => "RChannelClosed".into(),
                    },
                }
            } else if spec.wrong {
                let m = Wrong(spec.pid, None);
                let r = match spec.via {
                    10 => {
                        let typed: ActorRef<Wrong> = ctx.cell().clone().into();
                        unwrap_err(typed.get_derived::<DWrong>().send_message(DWrong(m)), |d| d.0)
                    }
                    11 => match ctx.name.get().and_then(|n| ActorRef::<Wrong>::where_is(n.clone())) {
                        // a typed lookup must not hand out a reference of the wrong type
                        Some(r) => r.send_message(m),
                        None if ctx.cell().is_message_type_of::<Wrong>() == Some(false) => Err(MessagingErr::InvalidActorType),
                        None => ctx.cell().send_message(m),
                    },
                    v => send_via(ctx, v, m, |m, p| Wrong(m.0, Some(p))),
                };
                res_term(&r, |m| m.0)
            } else {
                let m = HMsg { spec: spec.clone(), ctx: ctx.clone(), gate, reply: None };
                let r = match spec.via {
                    10 => {
                        let typed: ActorRef<HMsg> = ctx.cell().clone().into();
                        unwrap_err(typed.get_derived::<DMsg>().send_message(DMsg(m)), |d| d.0)
                    }
                    11 => match ctx.name.get().and_then(|n| ActorRef::<HMsg>::where_is(n.clone())) {
                        Some(r) if ctx.cell().is_message_type_of::<HMsg>() == Some(true) => r.send_message(m),
                        // unregistered (the actor is gone): the caller still holds the cell
                        _ => ctx.cell().send_message(m),
                    },
                    v => send_via(ctx, v, m, |mut m, p| {
                        m.reply = Some(p);
                        m
                    }),
                };
                res_term(&r, |m| m.spec.pid)
            };
            ctx.ev(format!("EEnd {} {}", spec.pid, r));
        }
        Call::Drain(kind) => {
            let in_rt = tokio::runtime::Handle::try_current().is_ok();
            let ok = match kind {
                1 if ctx.fwd.get().is_some() => {
                    // the supervisor drains its children (= the target); no result is reported
                    ctx.fwd.get().unwrap().get_cell().drain_children();
                    true
                }
                2 | 3 => {
                    let cell = ctx.cell().clone();
                    let to = if *kind == 2 && in_rt { Some(Duration::from_secs(1)) } else { None };
                    let mut fut: std::pin::Pin<Box<dyn std::future::Future<Output = bool> + Send>> =
                        Box::pin(async move { !matches!(cell.drain_and_wait(to).await, Err(ractor::RactorErr::Messaging(_))) });
                    let waker = futures::task::noop_waker();
                    let mut cx = std::task::Context::from_waker(&waker);
                    match fut.as_mut().poll(&mut cx) {
                        std::task::Poll::Ready(ok) => ok,
                        std::task::Poll::Pending => {
                            ctx.waits.lock().unwrap().push(fut);
                            true
                        }
                    }
                }
                _ => ctx.cell().drain().is_ok(),
            };
            ctx.ev(format!("EDrainEnd {}", coq_bool(ok)));
        }
        Call::KidStop => {
            if let Some(k) = ctx.kids.lock().unwrap().pop() {
                k.stop(None);
            }
        }
        Call::Stop => {
            ctx.ev("EStopReq".into());
            ctx.cell().stop(None);
        }
        Call::Kill => {
            ctx.ev("EKillReq".into());
            ctx.cell().kill();
        }
    }
}

// ---------------------------------------------------------------- actors

struct Target(Arc<Ctx>);
impl Actor for Target {
    type Msg = HMsg;
    type State = ();
    type Arguments = ();
    async fn pre_start(&self, myself: ActorRef<HMsg>, _: ()) -> Result<(), ActorProcessingErr> {
        if let Some((sup, gate)) = self.0.pre_gate.get() {
            // unsupervised start (spawn_instant); linking here keeps the exit reason observable
            myself.link(sup.clone());
            gate.acquire().await.expect("gate").forget();
        }
        for _ in 0..self.0.n_kids.load(std::sync::atomic::Ordering::SeqCst) {
            let (k, _) = Actor::spawn_linked(None, Kid, (), myself.get_cell()).await?;
            self.0.kids.lock().unwrap().push(k.get_cell());
        }
        Ok(())
    }
    async fn handle_supervisor_evt(
        &self,
        _: ActorRef<HMsg>,
        _: SupervisionEvent,
        _: &mut (),
    ) -> Result<(), ActorProcessingErr> {
        // a child came or went: of no concern to the mailbox
        Ok(())
    }
    async fn post_stop(&self, _: ActorRef<HMsg>, _: &mut ()) -> Result<(), ActorProcessingErr> {
        // the loop has been left and Stopping published; the ports are still alive
        let ps: Vec<usize> = self.0.ps.lock().unwrap().clone();
        for n in ps {
            self.0.release(n);
        }
        Ok(())
    }
    async fn handle(&self, _: ActorRef<HMsg>, m: HMsg, _: &mut ()) -> Result<(), ActorProcessingErr> {
        self.0.ev(format!("EHandle {}", m.spec.pid));
        if let Some(p) = m.reply {
            let _ = p.send(m.spec.pid);
        }
        for c in &m.spec.hcalls {
            perform(&self.0, c, None);
        }
        if m.spec.hfail {
            self.0.ev("EFail".into());
            return Err("scripted handler failure".into());
        }
        Ok(())
    }
}

struct Kid;
impl Actor for Kid {
    type Msg = ();
    type State = ();
    type Arguments = ();
    async fn pre_start(&self, _: ActorRef<()>, _: ()) -> Result<(), ActorProcessingErr> {
        Ok(())
    }
}

/// the target of `mode remote`: an actor with a remote ActorId handles serialized messages only
struct RTarget(Arc<Ctx>);
impl Actor for RTarget {
    type Msg = SMsg;
    type State = ();
    type Arguments = ();
    async fn pre_start(&self, _: ActorRef<SMsg>, _: ()) -> Result<(), ActorProcessingErr> {
        Ok(())
    }
    async fn handle_serialized(
        &self,
        _: ActorRef<SMsg>,
        m: ractor::message::SerializedMessage,
        _: &mut (),
    ) -> Result<(), ActorProcessingErr> {
        let pid = pid_of_serialized(&m);
        self.0.ev(format!("EHandle {pid}"));
        if let Some((spec, _)) = reg_get(pid) {
            for c in &spec.hcalls {
                perform(&self.0, c, None);
            }
            if spec.hfail {
                self.0.ev("EFail".into());
                return Err("scripted handler failure".into());
            }
        }
        Ok(())
    }
}

struct Sup(Arc<Ctx>);
impl Actor for Sup {
    type Msg = ();
    type State = ();
    type Arguments = ();
    async fn pre_start(&self, _: ActorRef<()>, _: ()) -> Result<(), ActorProcessingErr> {
        Ok(())
    }
    async fn handle_supervisor_evt(
        &self,
        _: ActorRef<()>,
        evt: SupervisionEvent,
        _: &mut (),
    ) -> Result<(), ActorProcessingErr> {
        match evt {
            SupervisionEvent::ActorTerminated(_, _, reason) => {
                let r = match reason.as_deref() {
                    Some("Drained") => "RDrained".to_string(),
                    None => "RStop".to_string(),
                    Some("killed") => "RKilled".to_string(),
                    Some(other) => format!("(ROther \"{other}\")"),
                };
                self.0.ev(format!("EExit {r}"));
            }
            SupervisionEvent::ActorFailed(_, _) => self.0.ev("EExit RFailed".into()),
            _ => {}
        }
        Ok(())
    }
}

async fn quiesce() {
    for _ in 0..3 {
        tokio::time::sleep(Duration::from_nanos(1)).await;
    }
}

struct Started {
    release: smpsc::Sender<()>,
    evt: smpsc::Receiver<Evt>,
    handle: Option<std::thread::JoinHandle<()>>,
    parked: bool,
}

async fn run_case(line: &str) -> String {
    let ctx = Ctx::new();
    *REG.lock().unwrap() = None;
    let (sup, _sh) = Actor::spawn(None, Sup(ctx.clone()), ()).await.expect("sup");
    let instant = line.contains("mode instant");
    if let Some(p) = line.find("mode kids ") {
        let n: usize = line[p + 10..].split(|c: char| !c.is_ascii_digit()).next().unwrap().parse().expect("kids");
        ctx.n_kids.store(n, std::sync::atomic::Ordering::SeqCst);
    }
    let remote = line.contains("mode remote");
    let gate = Arc::new(tokio::sync::Semaphore::new(0));
    static CASE: std::sync::atomic::AtomicU64 = std::sync::atomic::AtomicU64::new(0);
    let name = format!("adm-{}-{}", std::process::id(), CASE.fetch_add(1, std::sync::atomic::Ordering::SeqCst));
    let _ = ctx.name.set(name.clone());
    let actor: ActorCell = if remote {
        ctx.remote.store(true, std::sync::atomic::Ordering::SeqCst);
        let (a, _h) = ractor::ActorRuntime::spawn_linked_remote(
            Some(name),
            RTarget(ctx.clone()),
            ActorId::Remote { node_id: 7, pid: 4242 },
            (),
            sup.get_cell(),
        )
        .await
        .expect("remote target");
        a.get_cell()
    } else if instant {
        let _ = ctx.pre_gate.set((sup.get_cell(), gate.clone()));
        let (a, _h) = ractor::ActorRuntime::spawn_instant(Some(name), Target(ctx.clone()), ()).expect("instant target");
        a.get_cell()
    } else {
        let (a, _ah) = Actor::spawn_linked(Some(name), Target(ctx.clone()), (), sup.get_cell())
            .await
            .expect("target");
        a.get_cell()
    };
    let _ = ctx.cell.set(actor.clone());
    let _ = ctx.fwd.set(sup.clone());
    quiesce().await;
    let actions: Vec<(&str, &str)> = line
        .split(';')
        .map(|a| a.trim())
        .filter(|a| !a.is_empty())
        .map(|a| a.split_once(' ').unwrap_or((a, "")))
        .collect();
    for (kw, rest) in &actions {
        if *kw == "ps" {
            ctx.ps.lock().unwrap().push(rest.trim().parse().expect("ps index"));
        }
    }
    for (kw, rest) in actions {
        match kw {
            "ps" | "mode" => {}
            "go" => gate.add_permits(1),
            "wait" => {
                let cell = ctx.cell().clone();
                let mut fut: std::pin::Pin<Box<dyn std::future::Future<Output = bool> + Send>> = Box::pin(async move {
                    let _ = cell.wait(None).await;
                    true
                });
                let waker = futures::task::noop_waker();
                let mut cx = std::task::Context::from_waker(&waker);
                if fut.as_mut().poll(&mut cx).is_pending() {
                    ctx.waits.lock().unwrap().push(fut);
                }
            }
            "do" => perform(&ctx, &parse_call(rest), None),
            "start" => {
                let call = parse_call(rest);
                let (etx, erx) = smpsc::channel();
                let (rtx, rrx) = smpsc::channel();
                let gate = Arc::new(Gate { evt: etx.clone(), release: Mutex::new(rrx) });
                let c2 = ctx.clone();
                let h = std::thread::spawn(move || {
                    perform(&c2, &call, Some(gate));
                    let _ = etx.send(Evt::Done);
                });
                let parked = match erx.recv_timeout(Duration::from_secs(30)) {
                    Ok(Evt::Parked) => true,
                    Ok(Evt::Done) => false,
                    Err(_) => {
                        ctx.hang.store(true, std::sync::atomic::Ordering::SeqCst);
                        false
                    }
                };
                ctx.started.lock().unwrap().push(Started { release: rtx, evt: erx, handle: Some(h), parked });
            }
            "rel" => ctx.release(rest.trim().parse().expect("rel index")),
            "run" => quiesce().await,
            "tick" => {
                // like run, and the virtual clock passes the 1 s bound of pending drain_and_wait(Some) calls
                quiesce().await;
                tokio::time::advance(Duration::from_secs(2)).await;
                quiesce().await;
                let waker = futures::task::noop_waker();
                let mut cx = std::task::Context::from_waker(&waker);
                ctx.waits.lock().unwrap().retain_mut(|f| f.as_mut().poll(&mut cx).is_pending());
            }
            other => panic!("unknown action {other:?}"),
        }
    }
    // never leave a thread parked
    let n = ctx.started.lock().unwrap().len();
    for k in 0..n {
        ctx.release(k);
    }
    let status = ctx.cell().get_status() as u8;
    let log = ctx.log.lock().unwrap().clone();
    // once the actor has exited, every wait / drain_and_wait must have returned
    if status == 6 || log.iter().any(|e| e.starts_with("EExit")) {
        quiesce().await;
        let waker = futures::task::noop_waker();
        let mut cx = std::task::Context::from_waker(&waker);
        for f in ctx.waits.lock().unwrap().iter_mut() {
            if f.as_mut().poll(&mut cx).is_pending() {
                ctx.hang.store(true, std::sync::atomic::Ordering::SeqCst);
            }
        }
    }
    ctx.waits.lock().unwrap().clear();
    // clean up whatever is still alive
    actor.kill();
    sup.stop(None);
    quiesce().await;
    if ctx.hang.load(std::sync::atomic::Ordering::SeqCst) {
        return "HANG".to_string();
    }
    format!("({}, {})", coq_list(&log), status)
}

// ---------------------------------------------------------------- uncontrolled stress mode
//
// `stress <senders> <per_sender> <drain_after> <mode>`: real multi-thread tokio runtime,
// <senders> OS threads each sending <per_sender> messages with pids (t+1)*100+k (per_sender < 100), a drainer
// (mode 0), stopper (mode 1) or nobody (mode 2) fired once <drain_after> sends have returned.
// Prints the log as for a scenario; only fed to the oracles (no model comparison).
fn stress(rest: &str) -> String {
    let w: Vec<u64> = rest.split_whitespace().map(|x| x.parse().expect("num")).collect();
    let (senders, per, after, mode) = (w[0], w[1], w[2], w[3]);
    let rt = tokio::runtime::Builder::new_multi_thread().worker_threads(2).enable_all().build().unwrap();
    rt.block_on(async move {
        let ctx = Ctx::new();
        let (sup, _sh) = Actor::spawn(None, Sup(ctx.clone()), ()).await.expect("sup");
        let (actor, ah) = Actor::spawn_linked(None, Target(ctx.clone()), (), sup.get_cell())
            .await
            .expect("target");
        let _ = ctx.cell.set(actor.get_cell());
        let returned = Arc::new(std::sync::atomic::AtomicU64::new(0));
        let mut hs = Vec::new();
        for t in 0..senders {
            let c = ctx.clone();
            let ret = returned.clone();
            hs.push(std::thread::spawn(move || {
                for k in 0..per {
                    let spec = Arc::new(Spec {
                        pid: t * per + k + 1,
                        wrong: false,
                        boxfail: false,
                        gate: false,
                        hfail: false,
                        via: 0,
                        ser: 0,
                        nonser: false,
                        box_calls: vec![],
                        hcalls: vec![],
                    });
                    perform(&c, &Call::Send(spec), None);
                    ret.fetch_add(1, std::sync::atomic::Ordering::SeqCst);
                }
            }));
        }
        let c = ctx.clone();
        let ret = returned.clone();
        let total = senders * per;
        let d = std::thread::spawn(move || {
            while ret.load(std::sync::atomic::Ordering::SeqCst) < after.min(total) {
                std::thread::yield_now();
            }
            match mode {
                0 => {
                    perform(&c, &Call::Drain(0), None);
                    perform(&c, &Call::Drain(0), None);
                }
                1 => perform(&c, &Call::Stop, None),
                _ => {}
            }
        });
        for h in hs {
            let _ = h.join();
        }
        let _ = d.join();
        if mode == 2 {
            // let the actor empty its mailbox, then observe it alive
            let cell = actor.get_cell();
            for _ in 0..2000 {
                tokio::time::sleep(Duration::from_millis(5)).await;
                let n = ctx.log.lock().unwrap().iter().filter(|e| e.starts_with("EHandle")).count() as u64;
                if n >= total {
                    break;
                }
            }
            let status = cell.get_status() as u8;
            let log = ctx.log.lock().unwrap().clone();
            actor.kill();
            let _ = ah.await;
            sup.stop(None);
            return format!("({}, {})", coq_list(&log), status);
        }
        let _ = tokio::time::timeout(Duration::from_secs(60), ah).await;
        // the supervisor logs the exit asynchronously
        for _ in 0..2000 {
            if ctx.log.lock().unwrap().iter().any(|e| e.starts_with("EExit")) {
                break;
            }
            tokio::time::sleep(Duration::from_millis(5)).await;
        }
        let status = ctx.cell().get_status() as u8;
        let log = ctx.log.lock().unwrap().clone();
        sup.stop(None);
        format!("({}, {})", coq_list(&log), status)
    })
}

// ---------------------------------------------------------------- race rounds (refused senders vs drain)
//
// `race <rounds> <senders> <seed>`: each round a fresh actor on the paused current_thread runtime;
// <senders> pooled OS threads cast at full speed until their first refusal while one more thread
// calls drain() as soon as some sender has a few accepted messages (plus a per-round spin). The
// driver thread is blocked meanwhile, so the actor does not run during the race: the race is purely
// on the admission word and the channel, and it is the REFUSED senders that overlap the drain's
// marker decision. Verdict per round is not timing based: all threads have finished the round and
// drain() has returned, then the actor runs to quiescence (sleep(1ns) barrier) and must have handled
// everything accepted and exited with reason Drained. Events carry a global sequence number taken
// before a call and after its return, so the merged log is a valid real-time order.
// Output: (Race rounds bad [logs of bad rounds (<= 3)] [log of one good round]).
struct RaceShared {
    cell: Mutex<Option<ActorCell>>,
    ctx: Mutex<Option<Arc<Ctx>>>,
    seq: std::sync::atomic::AtomicU64,
    warmed: std::sync::atomic::AtomicBool,
    spin: std::sync::atomic::AtomicU64,
    quit: std::sync::atomic::AtomicBool,
    start: std::sync::Barrier,
    end: std::sync::Barrier,
    events: Mutex<Vec<(u64, String)>>,
}

fn race(rest: &str) -> String {
    use std::sync::atomic::Ordering::SeqCst;
    let w: Vec<u64> = rest.split_whitespace().map(|x| x.parse().expect("num")).collect();
    let (rounds, senders, seed) = (w[0], w[1] as usize, w[2]);
    let sh = Arc::new(RaceShared {
        cell: Mutex::new(None),
        ctx: Mutex::new(None),
        seq: std::sync::atomic::AtomicU64::new(0),
        warmed: std::sync::atomic::AtomicBool::new(false),
        spin: std::sync::atomic::AtomicU64::new(0),
        quit: std::sync::atomic::AtomicBool::new(false),
        start: std::sync::Barrier::new(senders + 2),
        end: std::sync::Barrier::new(senders + 2),
        events: Mutex::new(Vec::new()),
    });
    let mut pool = Vec::new();
    for t in 0..senders {
        let sh = sh.clone();
        pool.push(std::thread::spawn(move || loop {
            sh.start.wait();
            if sh.quit.load(SeqCst) {
                return;
            }
            let cell = sh.cell.lock().unwrap().clone().unwrap();
            let ctx = sh.ctx.lock().unwrap().clone().unwrap();
            let mut mine: Vec<(u64, String)> = Vec::new();
            let mut k = 0u64;
            loop {
                let pid = (t as u64) * 40 + k + 1;
                let spec = Arc::new(Spec {
                    pid,
                    wrong: false,
                    boxfail: false,
                    gate: false,
                    hfail: false,
                    via: 0,
                    ser: 0,
                    nonser: false,
                    box_calls: vec![],
                    hcalls: vec![],
                });
                // every third sender thread goes through ActorCell::send_serialized (same admission protocol)
                let (b, e, ok, res) = if t % 3 == 2 {
                    reg_put(&spec, &ctx);
                    let m = ractor::message::SerializedMessage::Cast {
                        variant: "m".into(),
                        args: pid.to_be_bytes().to_vec(),
                        metadata: None,
                    };
                    let b = sh.seq.fetch_add(1, std::sync::atomic::Ordering::Relaxed);
                    let r = cell.send_serialized(m);
                    let e = sh.seq.fetch_add(1, std::sync::atomic::Ordering::Relaxed);
                    let res = match &r {
                        Ok(()) => "ROk".to_string(),
                        Err(er) => match &**er {
                            MessagingErr::SendErr(m) => format!("(RErr {})", pid_of_serialized(m)),
                            _ => "RChannelClosed".to_string(),
                        },
                    };
                    (b, e, r.is_ok(), res)
                } else {
                    let b = sh.seq.fetch_add(1, std::sync::atomic::Ordering::Relaxed);
                    let r = cell.send_message(HMsg { spec, ctx: ctx.clone(), gate: None, reply: None });
                    let e = sh.seq.fetch_add(1, std::sync::atomic::Ordering::Relaxed);
                    (b, e, r.is_ok(), res_term(&r, |m| m.spec.pid))
                };
                mine.push((b, format!("EBegin {pid} false")));
                mine.push((e, format!("EEnd {pid} {res}")));
                k += 1;
                if k == 4 {
                    sh.warmed.store(true, std::sync::atomic::Ordering::Release);
                }
                if !ok || k >= 39 {
                    break;
                }
            }
            sh.events.lock().unwrap().extend(mine);
            sh.end.wait();
        }));
    }
    {
        let sh = sh.clone();
        pool.push(std::thread::spawn(move || loop {
            sh.start.wait();
            if sh.quit.load(SeqCst) {
                return;
            }
            let cell = sh.cell.lock().unwrap().clone().unwrap();
            while !sh.warmed.load(std::sync::atomic::Ordering::Acquire) {
                std::hint::spin_loop();
            }
            for _ in 0..sh.spin.load(SeqCst) {
                std::hint::spin_loop();
            }
            let r = cell.drain();
            let e = sh.seq.fetch_add(1, std::sync::atomic::Ordering::Relaxed);
            sh.events.lock().unwrap().push((e, format!("EDrainEnd {}", coq_bool(r.is_ok()))));
            sh.end.wait();
        }));
    }
    let rt = tokio::runtime::Builder::new_current_thread().enable_time().start_paused(true).build().unwrap();
    let mut bad_logs: Vec<String> = Vec::new();
    let mut good_log: Option<String> = None;
    let mut bad = 0u64;
    rt.block_on(async {
        for round in 0..rounds {
            let ctx = Ctx::new();
            let (sup, _sh) = Actor::spawn(None, Sup(ctx.clone()), ()).await.expect("sup");
            let (actor, _ah) = Actor::spawn_linked(None, Target(ctx.clone()), (), sup.get_cell())
                .await
                .expect("target");
            let _ = ctx.cell.set(actor.get_cell());
            *sh.cell.lock().unwrap() = Some(actor.get_cell());
            *sh.ctx.lock().unwrap() = Some(ctx.clone());
            *REG.lock().unwrap() = None;
            sh.warmed.store(false, SeqCst);
            sh.spin.store(((round.wrapping_mul(2654435761).wrapping_add(seed)) % 7) * 300, SeqCst);
            sh.events.lock().unwrap().clear();
            sh.seq.store(0, SeqCst);
            sh.start.wait();
            sh.end.wait();
            // every sender has seen its first refusal and drain() has returned
            quiesce().await;
            let mut evs = std::mem::take(&mut *sh.events.lock().unwrap());
            evs.sort_by_key(|e| e.0);
            let mut log: Vec<String> = evs.into_iter().map(|e| e.1).collect();
            log.extend(ctx.log.lock().unwrap().iter().cloned());
            let drained = log.iter().any(|e| e == "EExit RDrained");
            let accepted = log.iter().filter(|e| e.starts_with("EEnd") && e.ends_with("ROk")).count();
            let handled = log.iter().filter(|e| e.starts_with("EHandle")).count();
            let ok = drained && accepted == handled && actor.get_status() == ractor::ActorStatus::Stopped;
            if !ok {
                bad += 1;
                if bad_logs.len() < 3 {
                    bad_logs.push(coq_list(&log));
                }
            } else if good_log.is_none() && round >= rounds / 2 {
                good_log = Some(coq_list(&log));
            }
            actor.kill();
            sup.stop(None);
            quiesce().await;
        }
    });
    sh.quit.store(true, SeqCst);
    sh.start.wait();
    for h in pool {
        let _ = h.join();
    }
    format!(
        "(Race {} {} {} {})",
        rounds,
        bad,
        coq_list(&bad_logs),
        coq_list(&good_log.into_iter().collect::<Vec<_>>())
    )
}

fn main() {
    for line in stdin_lines() {
        if let Some(rest) = line.strip_prefix("race ") {
            println!("{}", race(rest));
            continue;
        }
        if let Some(rest) = line.strip_prefix("stress ") {
            println!("{}", stress(rest));
            continue;
        }
        let rt = tokio::runtime::Builder::new_current_thread()
            .enable_time()
            .start_paused(true)
            .build()
            .expect("runtime");
        let out = rt.block_on(run_case(&line));
        println!("{out}");
    }
}
