//! E1 for C16: drives the REAL `ractor::OutputPort` (default build: v1 on tokio broadcast;
//! `--features output-port-v2`: the command-queue port) on a paused single-threaded
//! tokio runtime, with real subscriber actors that record what their handler receives.
//!
//! `eng_outport --nodup` (output-port-v2 build only) creates the port through the cfg-gated hook
//! `OutputPort::verif_with_duplicate_subscriptions(false)`: a later subscription of the same actor
//! replaces the previous one instead of being added.
//!
//! `eng_outport --cap` prints the measured ring size of the port (largest burst into a
//! parked forwarder that arrives completely; 0 = nothing is ever skipped) and exits.
//!
//! stdin, one scenario per line:   <poison> | <op> ; <op> ; ...
//!   poison:  `a:r` pairs (actor a's handler fails after receiving item r), or `-`
//!   ops:     P <m>            publish m
//!            B <from> <n>     publish from, from+1, ... (n messages) back to back
//!            S <a> <mod> <res> <mul> <add>   subscribe actor a with converter
//!                             k -> Some(k*mul+add) if mod != 0 && k % mod == res else None
//!            T                settle (sleep 1ns on the paused clock = exact quiescence)
//!            K <a>            settle; stop (gate open) or kill (gate closed) actor a; settle
//!            H <a> | G <a> <n> | O <a>      close gate / give n permits / open gate
//!            R <a> | RF <a>   let a's parked pre_start return Ok (then settle) / settle, Err, settle
//!            SS <a> <mod> <res> <mul> <add>   spawn_instant actor a whose pre_start subscribes
//!                             ITSELF (same converter syntax) and then parks; settle
//!            ST <a>           subscribe actor a through `OutputPortSubscriberTrait::subscribe_to_port`
//!                             (converter k -> Some(Item::from(k)); at most one per actor)
//!            D                drop the port (every handle of it); no settle. Only T/K/R/RF/H/G/O may follow
//! Receivers: an actor with an R/RF op is spawned with `spawn_instant` before the first
//! operation, its pre_start parked (status Starting) until R/RF; an actor with an SS op is
//! spawned by that op; every other actor is spawned and Running before the first operation.
//! stdout: one line per scenario: the received items per subscription, `[[..]; [..]]`, then ` # `
//! and, per subscription, the inputs on which its converter closure was invoked (`[]` for `ST`
//! subscriptions, whose converter is inside the library), or
//! `Blocked` when the driver did not come back within the watchdog bound (each scenario runs on its
//! own OS thread), or `Panicked`.
use std::collections::{BTreeMap, HashSet};
use std::sync::{Arc, Mutex};
use std::time::Duration;

use ractor::port::OutputPortSubscriberTrait;
use ractor::{Actor, ActorProcessingErr, ActorRef, OutputPort};
use std::sync::atomic::{AtomicBool, Ordering};
use std::collections::BTreeSet;
use rv_harness::*;
use tokio::sync::Notify;

struct Item(u64, u64);
impl ractor::Message for Item {}

/// tag of items that arrive through a trait subscription (`O: From<I>`)
const TRAIT_TAG: u64 = u64::MAX;
impl From<u64> for Item {
    fn from(k: u64) -> Self {
        Item(TRAIT_TAG, k)
    }
}

static NODUP: AtomicBool = AtomicBool::new(false);

fn new_port() -> OutputPort<u64> {
    #[cfg(feature = "output-port-v2")]
    if NODUP.load(Ordering::Relaxed) {
        return OutputPort::verif_with_duplicate_subscriptions(false);
    }
    OutputPort::default()
}

#[derive(Default)]
struct Gate {
    st: Mutex<(bool, u64)>, // (closed, permits)
    notify: Notify,
}
impl Gate {
    async fn pass(&self) {
        loop {
            {
                let mut g = self.st.lock().unwrap();
                if !g.0 {
                    return;
                }
                if g.1 > 0 {
                    g.1 -= 1;
                    return;
                }
            }
            self.notify.notified().await;
        }
    }
    fn hold(&self) {
        *self.st.lock().unwrap() = (true, 0);
    }
    fn give(&self, n: u64) {
        {
            let mut g = self.st.lock().unwrap();
            if g.0 {
                g.1 += n;
            }
        }
        self.notify.notify_waiters();
    }
    fn open(&self) {
        *self.st.lock().unwrap() = (false, 0);
        self.notify.notify_waiters();
    }
    fn is_open(&self) -> bool {
        !self.st.lock().unwrap().0
    }
}

/// pre_start parks here until the driver decides how start-up ends
#[derive(Default)]
struct StartGate {
    st: Mutex<Option<bool>>, // Some(ok)
    notify: Notify,
}
impl StartGate {
    async fn wait(&self) -> bool {
        loop {
            if let Some(ok) = *self.st.lock().unwrap() {
                return ok;
            }
            self.notify.notified().await;
        }
    }
    fn release(&self, ok: bool) {
        *self.st.lock().unwrap() = Some(ok);
        self.notify.notify_waiters();
    }
}

type Calls = Arc<Mutex<BTreeMap<u64, Vec<u64>>>>;

struct StartArgs {
    park: Option<Arc<StartGate>>,
    selfsub: Option<(Arc<OutputPort<u64>>, u64, [u64; 4], Calls)>,
}

struct SubActor {
    gate: Arc<Gate>,
    rec: Arc<Mutex<Vec<(u64, u64)>>>,
    poison: HashSet<u64>,
}

impl Actor for SubActor {
    type Msg = Item;
    type State = ();
    type Arguments = StartArgs;
    async fn pre_start(&self, myself: ActorRef<Item>, args: StartArgs) -> Result<(), ActorProcessingErr> {
        if let Some((port, sid, [md, rs, mul, add], calls)) = args.selfsub {
            port.subscribe(myself, move |k: u64| {
                calls.lock().unwrap().entry(sid).or_default().push(k);
                if md != 0 && k % md == rs {
                    Some(Item(sid, k * mul + add))
                } else {
                    None
                }
            });
        }
        if let Some(g) = args.park {
            if !g.wait().await {
                return Err(ActorProcessingErr::from("pre_start fails"));
            }
        }
        Ok(())
    }
    async fn handle(&self, _: ActorRef<Item>, m: Item, _: &mut ()) -> Result<(), ActorProcessingErr> {
        self.gate.pass().await;
        self.rec.lock().unwrap().push((m.0, m.1));
        if self.poison.contains(&m.1) {
            return Err(ActorProcessingErr::from("poison"));
        }
        Ok(())
    }
}

struct Sub {
    gate: Arc<Gate>,
    rec: Arc<Mutex<Vec<(u64, u64)>>>,
    start: Arc<StartGate>,
    started: bool,
    actor: Option<ActorRef<Item>>,
}

fn u(s: &str) -> u64 {
    s.parse().unwrap_or_else(|_| panic!("bad number {s:?}"))
}

async fn settle() {
    tokio::time::sleep(Duration::from_nanos(1)).await;
}

async fn run_scenario(line: &str) -> String {
    let (poison_s, ops_s) = line.split_once('|').expect("missing |");
    let mut poison: BTreeMap<u64, HashSet<u64>> = BTreeMap::new();
    for w in poison_s.split_whitespace() {
        if w == "-" {
            continue;
        }
        let (a, r) = w.split_once(':').expect("poison a:r");
        poison.entry(u(a)).or_default().insert(u(r));
    }
    let ops: Vec<Vec<&str>> = ops_s
        .split(';')
        .map(|o| o.split_whitespace().collect::<Vec<_>>())
        .filter(|w| !w.is_empty())
        .collect();
    let mut port_slot: Option<Arc<OutputPort<u64>>> = Some(Arc::new(new_port()));
    let mut parked: BTreeSet<u64> = BTreeSet::new();
    let mut selfkind: BTreeSet<u64> = BTreeSet::new();
    for w in &ops {
        match w[0] {
            "R" | "RF" => {
                parked.insert(u(w[1]));
            }
            "SS" => {
                selfkind.insert(u(w[1]));
            }
            _ => {}
        }
    }
    // receivers: Running, or Starting (parked in pre_start), before the first operation;
    // self-subscribing ones are spawned by their SS operation
    let mut actors: BTreeMap<u64, Sub> = BTreeMap::new();
    for w in &ops {
        if matches!(w[0], "S" | "ST" | "K" | "H" | "G" | "O" | "R" | "RF" | "SS") {
            let a = u(w[1]);
            if !actors.contains_key(&a) {
                let gate = Arc::new(Gate::default());
                let rec = Arc::new(Mutex::new(Vec::new()));
                let start = Arc::new(StartGate::default());
                let handler =
                    SubActor { gate: gate.clone(), rec: rec.clone(), poison: poison.get(&a).cloned().unwrap_or_default() };
                let (actor, started) = if selfkind.contains(&a) {
                    (None, false)
                } else if parked.contains(&a) {
                    let (r, _h) =
                        ractor::ActorRuntime::<SubActor>::spawn_instant(None, handler, StartArgs { park: Some(start.clone()), selfsub: None })
                            .expect("spawn_instant");
                    (Some(r), false)
                } else {
                    let (r, _h) = Actor::spawn(None, handler, StartArgs { park: None, selfsub: None })
                        .await
                        .expect("spawn");
                    (Some(r), true)
                };
                actors.insert(a, Sub { gate, rec, start, started, actor });
            }
        }
    }
    settle().await;
    let calls: Calls = Arc::new(Mutex::new(BTreeMap::new()));
    let mut subs: Vec<u64> = Vec::new(); // subscription id -> actor
    let mut tags: BTreeMap<usize, u64> = BTreeMap::new(); // subscription id -> tag, if not the id itself
    for w in &ops {
        match w[0] {
            "D" => drop(port_slot.take()),
            "P" => port_slot.as_ref().expect("P after D").send(u(w[1])),
            "B" => {
                let from = u(w[1]);
                let port = port_slot.as_ref().expect("B after D");
                for k in 0..u(w[2]) {
                    port.send(from + k);
                }
            }
            "S" => {
                let a = u(w[1]);
                let (md, rs, mul, add) = (u(w[2]), u(w[3]), u(w[4]), u(w[5]));
                let sid = subs.len() as u64;
                subs.push(a);
                let cl = calls.clone();
                port_slot.as_ref().expect("S after D").subscribe(actors[&a].actor.clone().expect("S before SS"), move |k: u64| {
                    cl.lock().unwrap().entry(sid).or_default().push(k);
                    if md != 0 && k % md == rs {
                        Some(Item(sid, k * mul + add))
                    } else {
                        None
                    }
                });
            }
            "T" => settle().await,
            "ST" => {
                let a = u(w[1]);
                tags.insert(subs.len(), TRAIT_TAG);
                subs.push(a);
                let r = actors[&a].actor.clone().expect("ST before SS");
                r.subscribe_to_port(port_slot.as_ref().expect("ST after D"));
            }
            "SS" => {
                let a = u(w[1]);
                let conv = [u(w[2]), u(w[3]), u(w[4]), u(w[5])];
                let sid = subs.len() as u64;
                subs.push(a);
                let e = actors.get_mut(&a).unwrap();
                assert!(e.actor.is_none(), "SS twice");
                let handler = SubActor {
                    gate: e.gate.clone(),
                    rec: e.rec.clone(),
                    poison: poison.get(&a).cloned().unwrap_or_default(),
                };
                let (r, _h) = ractor::ActorRuntime::<SubActor>::spawn_instant(
                    None,
                    handler,
                    StartArgs { park: Some(e.start.clone()), selfsub: Some((port_slot.as_ref().expect("SS after D").clone(), sid, conv, calls.clone())) },
                )
                .expect("spawn_instant");
                e.actor = Some(r);
                settle().await;
            }
            "R" | "RF" => {
                if w[0] == "RF" {
                    settle().await; // like K: the receiver dies at a quiescent point
                }
                let e = actors.get_mut(&u(w[1])).unwrap();
                e.start.release(w[0] == "R");
                e.started = w[0] == "R";
                settle().await;
            }
            "K" => {
                let s = &actors[&u(w[1])];
                settle().await;
                if let Some(actor) = &s.actor {
                    if s.started && s.gate.is_open() {
                        actor.stop(None);
                    } else {
                        actor.kill();
                    }
                }
                settle().await;
            }
            "H" => actors[&u(w[1])].gate.hold(),
            "G" => actors[&u(w[1])].gate.give(u(w[2])),
            "O" => actors[&u(w[1])].gate.open(),
            other => panic!("unknown op {other}"),
        }
    }
    let mut out: Vec<String> = Vec::new();
    for (sid, a) in subs.iter().enumerate() {
        let rec = actors[a].rec.lock().unwrap();
        let tag = tags.get(&sid).copied().unwrap_or(sid as u64);
        out.push(coq_nums(rec.iter().filter(|(t, _)| *t == tag).map(|(_, v)| *v)));
    }
    // tear down
    for s in actors.values() {
        if let Some(actor) = &s.actor {
            actor.kill();
        }
    }
    drop(port_slot);
    settle().await;
    let cl = calls.lock().unwrap();
    let call_out: Vec<String> = (0..subs.len() as u64)
        .map(|sid| coq_nums(cl.get(&sid).cloned().unwrap_or_default()))
        .collect();
    format!("{} # {}", coq_list(&out), coq_list(&call_out))
}

fn rt() -> tokio::runtime::Runtime {
    tokio::runtime::Builder::new_current_thread().enable_time().start_paused(true).build().expect("runtime")
}

/// Run one scenario on its own OS thread under a wall-clock watchdog: a library change that makes
/// `OutputPort::send` / `subscribe` spin or block forever must not take the harness down, it is an
/// observation (`Blocked`) that the oracle rejects.  The bound (RV_WATCHDOG seconds, default 20) is
/// far above anything the unchanged tree needs (a burst of 5000 takes about 0.02 s).
fn run_guarded(line: String) -> String {
    let secs: u64 = std::env::var("RV_WATCHDOG").ok().and_then(|v| v.parse().ok()).unwrap_or(20);
    let (tx, rx) = std::sync::mpsc::channel();
    std::thread::spawn(move || {
        let out = rt().block_on(run_scenario(&line));
        let _ = tx.send(out);
    });
    match rx.recv_timeout(Duration::from_secs(secs)) {
        Ok(out) => out,
        Err(std::sync::mpsc::RecvTimeoutError::Timeout) => "Blocked".into(),
        Err(std::sync::mpsc::RecvTimeoutError::Disconnected) => "Panicked".into(),
    }
}

fn main() {
    if std::env::args().any(|a| a == "--nodup") {
        NODUP.store(true, Ordering::Relaxed);
    }
    if std::env::args().any(|a| a == "--cap") {
        // largest burst into a parked forwarder that arrives completely = ring size
        let count = |n: u64| -> Option<u64> {
            let out = run_guarded(format!("- | S 0 1 0 1 0 ; T ; B 0 {n} ; T"));
            let out = out.split(" # ").next().unwrap_or("").to_string();
            if out == "Blocked" || out == "Panicked" {
                None
            } else if out == "[[]]" {
                Some(0)
            } else {
                Some(out.matches(';').count() as u64 + 1)
            }
        };
        let mut cap = 0u64;
        for n in 1..=256u64 {
            match count(n) {
                None => {
                    println!("blocked {n}");
                    std::process::exit(0);
                }
                Some(c) if c < n => {
                    cap = n - 1;
                    break;
                }
                _ => {}
            }
        }
        if cap == 0 {
            match count(4096) {
                None => {
                    println!("blocked 4096");
                    std::process::exit(0);
                }
                Some(c) if c < 4096 => cap = 256,
                _ => {}
            }
        }
        println!("{cap}");
        std::process::exit(0);
    }
    for line in stdin_lines() {
        let out = run_guarded(line);
        println!("{out}");
    }
    // threads of blocked scenarios may still be spinning
    std::process::exit(0);
}
